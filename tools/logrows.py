#!/venv/bin/python
"""Print LOG.md rows for the filed seeds with the given indices: tools/logrows.py 9 10"""
import json, os, sys
here = os.path.dirname(os.path.dirname(os.path.abspath(__file__)))
for p in ['C%02d' % i for i in range(1, 21)]:
    for k in sys.argv[1:]:
        f = os.path.join(here, 'seeded', '%s-%s' % (p, k), 'meta.json')
        if not os.path.exists(f):
            continue
        m = json.load(open(f))
        summ = (m.get('summary') or m.get('description') or m.get('what') or '').replace('|', '/').replace('\n', ' ')
        now = '; '.join('%s %s' % (c, v['verdict']) for c, v in m['checks'].items())
        first = m.get('first_intake')
        notes = m.get('notes') or []
        if isinstance(notes, str): notes = [notes]
        if first and first != {c: v['verdict'] for c, v in m['checks'].items()}:
            now += ' (final machinery)'
        print('| %s-%s | %s | %s | %s |' % (p, k, summ[:170], now, ' '.join(notes).replace('|', '/') or '—'))
