#!/venv/bin/python
"""Print LOG.md rows for the filed seeds with the given indices: tools/logrows.py 9 10
or for every filed seed that has no row in seeded/LOG.md yet: tools/logrows.py --missing"""
import json, os, sys
here = os.path.dirname(os.path.dirname(os.path.abspath(__file__)))
log = open(os.path.join(here, 'seeded', 'LOG.md')).read()
ks = sys.argv[1:]
for p in ['C%02d' % i for i in range(1, 21)]:
    if ks == ['--missing']:
        import glob
        mine = sorted(int(d.rsplit('-', 1)[1]) for d in glob.glob(os.path.join(here, 'seeded', p + '-*')))
        sel = [str(k) for k in mine if '| %s-%d |' % (p, k) not in log]
    else:
        sel = ks
    for k in sel:
        f = os.path.join(here, 'seeded', '%s-%s' % (p, k), 'meta.json')
        if not os.path.exists(f):
            continue
        m = json.load(open(f))
        summ = (m.get('summary') or m.get('description') or m.get('what') or '').replace('|', '/').replace('\n', ' ')
        now = '; '.join('%s %s' % (c, v['verdict']) for c, v in m['checks'].items())
        first = m.get('first_intake')
        notes = m.get('notes') or []
        if isinstance(notes, str): notes = [notes]
        if first and first != {c: v['verdict'] for c, v in m['checks'].items()}:
            now += ' (final machinery)'
        print('| %s-%s | %s | %s | %s |' % (p, k, summ[:170], now, ' '.join(notes).replace('|', '/') or '—'))
