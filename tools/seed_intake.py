#!/venv/bin/python
"""Verify a seeded property-breaking change and file it under /verif/seeded/<id>/.
usage: tools/seed_intake.py PROP SRC_DIR INDEX [--checks C01,C02] [--no-suite]
Steps (all in a scratch copy of /repo's working tree under /tmp, removed afterwards):
  demo on clean tree must exit 0; apply patch; demo must exit 1; pinned suite must lose no stable test;
  then run the named checks (default: the property's own) against the changed tree and record CAUGHT/MISSED."""
import json, os, shutil, subprocess, sys, tempfile
here = os.path.dirname(os.path.dirname(os.path.abspath(__file__)))
args = sys.argv[1:]
prop, src, idx = args[0], args[1], args[2]
checks = [prop]
if '--checks' in args: checks = args[args.index('--checks') + 1].split(',')
no_suite = '--no-suite' in args
patch = os.path.join(src, 'change%s.diff' % idx); demo = os.path.join(src, 'demo%s.py' % idx)
meta_in = os.path.join(src, 'meta%s.json' % idx)
d = tempfile.mkdtemp(prefix='seedv_', dir='/tmp')
def run(cmd, **kw):
    return subprocess.run(cmd, capture_output=True, text=True, **kw)
try:
    for sub in ('panqec', 'tests'):
        shutil.copytree('/repo/' + sub, d + '/' + sub, ignore=shutil.ignore_patterns('__pycache__'))
    for f in ('pytest.ini', 'setup.py', 'mypy.ini'):
        if os.path.exists('/repo/' + f): shutil.copy('/repo/' + f, d)
    env = dict(os.environ, PYTHONPATH=d)
    r0 = run(['/venv/bin/python', demo], cwd=d, env=env)
    rp = run(['patch', '-p1', '--forward', '-s', '-i', patch], cwd=d)
    if rp.returncode: print('PATCH FAILED', rp.stdout, rp.stderr); sys.exit(3)
    r1 = run(['/venv/bin/python', demo], cwd=d, env=env)
    suite = 'skipped'
    if not no_suite:
        rs = run(['/venv/bin/python', here + '/tools/suite.py', d])
        suite = [l for l in rs.stdout.splitlines() if l.startswith('tree=')][-1] if 'tree=' in rs.stdout else rs.stdout[-300:] + rs.stderr[-300:]
    results = {}
    env2 = dict(env, VERIF_EVIDENCE_DIR=d + '/ev', VERIF_REPLAY_DIR=d + '/rp')
    for c in checks:
        rc = run([here + '/check', c, '--tier', 'quick'], env=env2)
        assert ('panqec from ' + d) in rc.stdout, rc.stdout[:300] + rc.stderr[-300:]
        keys = [l.strip()[:300] for l in rc.stdout.splitlines() if l.startswith('  key=')][:3]
        results[c] = {'verdict': {0: 'MISSED', 1: 'CAUGHT' if 'VIOLATION property=' in rc.stdout else 'EXIT-1-WITHOUT-VIOLATION-LINE'}.get(rc.returncode, 'HARNESS-ERROR rc=%d' % rc.returncode),
                      'first_keys': keys, 'summary': rc.stdout.strip().splitlines()[-1][:250]}
    ok = (r0.returncode == 0 and r1.returncode == 1 and (no_suite or 'lost=0' in suite))
    meta = json.load(open(meta_in)) if os.path.exists(meta_in) else {}
    meta.update({'property': prop, 'verified_by_me': {
        'base_commit': run(['git', '-C', '/repo', 'rev-parse', '--short', 'HEAD']).stdout.strip(),
        'demo_on_clean_tree_exit': r0.returncode, 'demo_with_change_exit': r1.returncode,
        'demo_with_change_last_line': (r1.stdout.strip().splitlines() or [''])[-1][:200],
        'suite': suite, 'accepted': ok,
        'ran': 'tools/seed_intake.py: scratch copy of /repo, demo before/after patch, tools/suite.py, ./check <id> --tier quick with PYTHONPATH=<scratch>'},
        'checks': results})
    print(json.dumps(meta['verified_by_me'], indent=1)); print(json.dumps(results, indent=1))
    if ok:
        k = 1
        while os.path.exists(os.path.join(here, 'seeded', '%s-%d' % (prop, k))): k += 1
        out = os.path.join(here, 'seeded', '%s-%d' % (prop, k)); os.makedirs(out)
        shutil.copy(patch, out + '/patch.diff'); shutil.copy(demo, out + '/demo.py')
        json.dump(meta, open(out + '/meta.json', 'w'), indent=1)
        print('FILED', out)
    else:
        print('REJECTED (demo/suite conditions not met)')
finally:
    shutil.rmtree(d, ignore_errors=True)
