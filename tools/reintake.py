#!/venv/bin/python
"""Re-run the intake of an already filed seed after a check was strengthened (or against a neighbouring check).
usage: tools/reintake.py PROP K SRC_DIR INDEX [--checks C01,C02] [--note TEXT]
Keeps the suite line and the first verdicts of the filed meta.json (as 'first_intake'), deletes seeded/PROP-K,
re-files it with --no-suite and writes the preserved fields back."""
import json, os, shutil, subprocess, sys
here = os.path.dirname(os.path.dirname(os.path.abspath(__file__)))
a = sys.argv[1:]
prop, k, src, idx = a[0], a[1], a[2], a[3]
checks = a[a.index('--checks') + 1] if '--checks' in a else prop
note = a[a.index('--note') + 1] if '--note' in a else None
d = os.path.join(here, 'seeded', '%s-%s' % (prop, k))
old = json.load(open(d + '/meta.json'))
shutil.rmtree(d)
r = subprocess.run([here + '/tools/seed_intake.py', prop, src, idx, '--no-suite', '--checks', checks],
                   capture_output=True, text=True)
print(r.stdout[-1500:], r.stderr[-500:])
assert os.path.exists(d + '/meta.json'), 'not re-filed at the same index'
new = json.load(open(d + '/meta.json'))
new['verified_by_me']['suite'] = old['verified_by_me']['suite'] + ' (from the first intake)'
first = old.get('first_intake') or {c: v['verdict'] for c, v in old['checks'].items()}
new['first_intake'] = first
notes = old.get('notes', [])
if isinstance(notes, str): notes = [notes]
if note: notes.append(note)
if notes: new['notes'] = notes
json.dump(new, open(d + '/meta.json', 'w'), indent=1)
print(prop + '-' + k, {c: v['verdict'] for c, v in new['checks'].items()})
