#!/venv/bin/python
"""Run the repository's pinned suite on a tree (default /repo) and compare with BASELINE.json.
usage: tools/suite.py [tree]   -> prints lost stable tests; exit 0 iff none lost"""
import json, os, subprocess, sys, tempfile, xml.etree.ElementTree as ET
tree = sys.argv[1] if len(sys.argv) > 1 else '/repo'
b = json.load(open('/root/.vp/BASELINE.json'))
sp = set(b['stable_pass'])
fd, xml = tempfile.mkstemp(suffix='.xml'); os.close(fd)
env = dict(os.environ); env['PYTHONPATH'] = tree
for k in list(env):
    if k.startswith('PANQEC_VERIF'): del env[k]
p = subprocess.run(['/venv/bin/python', '-m', 'pytest', '-q', '-p', 'no:cacheprovider', '--timeout=900',
                    '--continue-on-collection-errors', '-x' if False else '-q', '--junitxml=' + xml],
                   cwd=tree, env=env, capture_output=True, text=True)
passed = set()
for tc in ET.parse(xml).iter('testcase'):
    if not [c for c in tc if c.tag in ('failure', 'error', 'skipped')]:
        passed.add(tc.get('classname') + '::' + tc.get('name'))
os.remove(xml)
lost = sorted(sp - passed)
print('tree=%s passed=%d stable_pass=%d lost=%d' % (tree, len(passed), len(sp), len(lost)))
for l in lost[:10]: print('  LOST', l)
print(p.stdout.strip().splitlines()[-1] if p.stdout.strip() else p.stderr[-300:])
sys.exit(1 if lost else 0)
