#!/bin/bash
# usage: tools/round_intake.sh <suffix>   e.g. d  -> intakes /tmp/seed_CNN<suffix>/change{1,2}.diff for all properties,
# three streams in parallel, logs /tmp/round_<suffix>_{a,b,c}.log ; summary with: grep -h "FILED\|verdict" /tmp/round_<s>_*.log
S=$1
cd /verif
run() { for p in "$@"; do for i in 1 2; do [ -f /tmp/seed_${p}${S}/change$i.diff ] && tools/seed_intake.py $p /tmp/seed_${p}${S} $i; done; done; }
( run C01 C02 C03 C04 C05 C06 C07 ) 2>&1 | grep -v WARN > /tmp/round_${S}_a.log &
( run C08 C09 C10 C11 C12 C13 C14 ) 2>&1 | grep -v WARN > /tmp/round_${S}_b.log &
( run C15 C16 C17 C18 C19 C20 ) 2>&1 | grep -v WARN > /tmp/round_${S}_c.log &
wait
