#!/bin/bash
# usage: tools/fixed_tree.sh <dest>   — scratch copy of /repo's working tree with the not-yet-committed
# candidate repairs (recon/candidate_fixes.diff, paths /repo/panqec/...) applied. Remove <dest> afterwards.
set -e
D=$1; rm -rf "$D"; mkdir -p "$D"; cp -r /repo/panqec /repo/tests /repo/pytest.ini /repo/setup.py "$D"/ 2>/dev/null || true
cd "$D" && patch -p2 --forward -r - < /verif/recon/candidate_fixes.diff
