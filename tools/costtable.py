#!/venv/bin/python
"""Print the DESIGN §10.6 cost table from a quick log and a thorough log (summary lines of ./check)."""
import re, sys, importlib
sys.path.insert(0, '/verif')
def parse(path):
    out = {}
    for line in open(path):
        m = re.search(r'(C\d\d) tier=(\w+) seed=\d+ cases=(\d+)/(\d+) evals=(\d+).*?wall=([\d.]+)s', line)
        if m:
            out[m.group(1)] = (int(m.group(3)), int(m.group(5)), float(m.group(6)))
    return out
q, t = parse(sys.argv[1]), parse(sys.argv[2])
print('| check | level | quick cases | quick evals | quick wall s | thorough cases | thorough evals | thorough wall s |')
print('|---|---|---|---|---|---|---|---|')
for i in range(1, 21):
    p = 'C%02d' % i
    lvl = importlib.import_module('checks.c%02d' % i).LEVEL
    a, b = q.get(p, ('?', '?', '?')), t.get(p, ('?', '?', '?'))
    print('| %s | %s | %s | %s | %s | %s | %s | %s |' % (p, lvl, a[0], a[1], round(a[2]) if a[2] != '?' else '?', b[0], b[1], round(b[2]) if b[2] != '?' else '?'))
