#!/venv/bin/python
"""Apply one single-edit mutant to a scratch copy of /repo/panqec and run checks against it.
usage: tools/mut.py NAME CHECK [CHECK...] [--tier quick]     (NAME from mutants/defs.py SUITE_SILENT / EXTRA)
   or: tools/mut.py --patch FILE CHECK...                     (unified diff with a/ b/ prefixes, git apply style)
Prints one line per check: CAUGHT / MISSED.  Scratch copy is removed afterwards."""
import os, shutil, subprocess, sys, tempfile
here = os.path.dirname(os.path.dirname(os.path.abspath(__file__)))
sys.path.insert(0, here)
args = sys.argv[1:]
tier = 'quick'
if '--tier' in args:
    i = args.index('--tier'); tier = args[i + 1]; del args[i:i + 2]
keep = '--keep' in args
if keep: args.remove('--keep')
d = tempfile.mkdtemp(prefix='mut_', dir='/tmp')
try:
    shutil.copytree('/repo/panqec', d + '/panqec', ignore=shutil.ignore_patterns('__pycache__'))
    if args[0] == '--patch':
        patch = os.path.abspath(args[1]); checks = args[2:]; name = os.path.basename(os.path.dirname(patch)) or patch
        r = subprocess.run(['patch', '-p1', '--forward', '-s', '-i', patch], cwd=d, capture_output=True, text=True)
        if r.returncode: print('PATCH FAILED', r.stdout, r.stderr); sys.exit(3)
    else:
        name = args[0]; checks = args[1:]
        from mutants.defs import SUITE_SILENT
        try:
            from mutants.defs import EXTRA
        except ImportError:
            EXTRA = {}
        path, old, new = {**SUITE_SILENT, **EXTRA}[name]
        p = os.path.join(d, path); s = open(p).read()
        assert s.count(old) == 1, (name, s.count(old))
        open(p, 'w').write(s.replace(old, new))
    env = dict(os.environ, PYTHONPATH=d, VERIF_EVIDENCE_DIR=d + '/ev', VERIF_REPLAY_DIR=d + '/rp')
    for c in checks:
        r = subprocess.run([here + '/check', c, '--tier', tier], env=env, capture_output=True, text=True)
        lines = [l for l in r.stdout.splitlines() if l.startswith(('VIOLATION', '  key='))][:4]
        assert ('panqec from ' + d) in r.stdout, r.stdout[:300] + r.stderr[-500:]
        status = {0: 'MISSED', 1: 'CAUGHT' if 'VIOLATION property=' in r.stdout else 'EXIT-1-WITHOUT-VIOLATION-LINE'}.get(r.returncode, 'HARNESS-ERROR rc=%d' % r.returncode)
        print('%s %s: %s   %s' % (name, c, status, r.stdout.strip().splitlines()[-1][:160]))
        for l in lines: print('    ' + l[:220])
        if r.returncode not in (0, 1): print(r.stdout[-1500:], r.stderr[-1500:])
finally:
    if not keep: shutil.rmtree(d, ignore_errors=True)
    else: print('kept', d)
