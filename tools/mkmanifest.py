#!/venv/bin/python
"""Regenerate /verif/MANIFEST.json from the metadata each check module carries
(PROPERTY, LEVEL, TECHNIQUE, LEVEL_TEXT, LEVEL_NOTE, DESIGN_REF) and validate it."""
import importlib, json, os, sys
here = os.path.dirname(os.path.dirname(os.path.abspath(__file__)))
sys.path.insert(0, here)
import jsonschema
props = [json.loads(l)['id'] for l in open(os.path.join(here, 'properties.jsonl'))]
NA_FILE = os.path.join(here, 'tools', 'not_applicable.json')
na_reasons = json.load(open(NA_FILE)) if os.path.exists(NA_FILE) else {}
checks, na, served = [], [], []
READY = set(open(os.path.join(here, 'tools', 'ready.txt')).read().split())
for p in props:
    path = os.path.join(here, 'checks', p.lower() + '.py')
    if not os.path.exists(path) or p in na_reasons or p not in READY:
        na.append({'property_id': p, 'reason': na_reasons.get(p, 'no check registered yet in this revision of /verif (work in progress, see DESIGN.md §9); nothing is claimed for it')})
        continue
    m = importlib.import_module('checks.' + p.lower())
    served.append(p)
    checks.append({
        'property_id': p,
        'quick_cmd': './check %s --tier quick' % p,
        'thorough_cmd': './check %s --tier thorough' % p,
        'evidence_file': '/verif/evidence/%s.json' % p,
        'replay_cmd_template': './check %s --replay {path}' % p,
        'engine': 'mc-runner',
        'technique': m.TECHNIQUE,
        'level_claimed': {'category': m.LEVEL, 'text': m.LEVEL_TEXT, 'design_ref': m.DESIGN_REF},
        'level_note': m.LEVEL_NOTE,
    })
man = {
    'version': 1,
    'setup_cmd': '/venv/bin/python -m compileall -q /verif/mc /verif/checks && /venv/bin/python /verif/mc/gf2.py',
    'hooks': {
        'guard': 'PANQEC_VERIF',
        'enable': "no source hooks: /venv's panqec is an editable install of /repo, so ./check always runs /repo's current working tree; every seam (rng= parameters, instance attributes, stdlib/numpy module globals) is patched from outside for the duration of one execution",
        'baseline_off_cmd': 'cd /repo && env -u PANQEC_VERIF /venv/bin/python -m pytest -ra -q -p no:cacheprovider --timeout=900 --continue-on-collection-errors',
        'source_commits': [],
        'add_only': True,
    },
    'engines': [{
        'name': 'mc-runner', 'path': '/verif/mc/runner.py', 'serves_properties': served,
        'kind_free_text': 'hand-written explicit-state / bounded exhaustive explorer: enumerates a finite case space (inputs, configurations, operation histories, environment answers, crash points) completely, executes the real panqec code on every element in 16 worker processes, compares with an independent reference (mc/gf2.py and per-check reference code), re-executes each violation before reporting it',
    }],
    'checks': checks,
    'not_applicable': na,
    'notes': 'All checks drive the implementation directly; there is no separate TLA+/Promela model, so every explored execution is an implementation trace. Known findings: /verif/known_findings.json. Seeded property-breaking changes used to test detection: /verif/seeded/.',
}
jsonschema.validate(man, json.load(open('/root/.vp/MANIFEST.schema.json')))
json.dump(man, open(os.path.join(here, 'MANIFEST.json'), 'w'), indent=1)
print('MANIFEST.json: %d checks, %d not_applicable' % (len(checks), len(na)))
