import numpy as np, itertools, warnings, time, sys
warnings.filterwarnings('ignore')
from panqec.codes import Toric2DCode, Planar2DCode, RotatedPlanar2DCode, Toric3DCode, RotatedPlanar3DCode, Planar3DCode, RotatedToric3DCode
from panqec.decoders import MatchingDecoder, UnionFindDecoder, SweepMatchDecoder, RotatedSweepMatchDecoder
from panqec.error_models import PauliErrorModel
em=PauliErrorModel(1/3,1/3,1/3)
def lowweight(code,dec,t):
    n=code.n; fails=[]; tot=0; t0=time.time()
    for w in range(1,t+1):
        for qs in itertools.combinations(range(n),w):
            for ps in itertools.product('XYZ',repeat=w):
                e=np.zeros(2*n,dtype=np.uint8)
                for q,p in zip(qs,ps):
                    if p in 'XY': e[q]=1
                    if p in 'YZ': e[n+q]=1
                tot+=1
                try:
                    c=dec.decode(code.measure_syndrome(e))
                    ok=code.is_success((c+e)%2)
                except Exception as ex:
                    ok=False; 
                    if len(fails)<3: print('   EXC',type(ex).__name__,str(ex)[:80])
                if not ok: fails.append((qs,ps))
    print(type(code).__name__,code.size,type(dec).__name__,'t',t,'errors',tot,'fails',len(fails),fails[:3],'%.1fs'%(time.time()-t0),flush=True)
for L in [(3,3),(3,4),(4,4),(5,5),(5,6)]:
    code=Toric2DCode(*L); t=(min(L)-1)//2
    lowweight(code,UnionFindDecoder(code,em,0.1),t)
    lowweight(code,MatchingDecoder(code,em,0.1),t)
for cls in (Planar2DCode,RotatedPlanar2DCode):
    for L in [(3,3),(3,4),(5,5),(5,4)]:
        code=cls(*L); lowweight(code,MatchingDecoder(code,em,0.1),(code.d-1)//2)
for L in [(2,2,2),(3,3,3),(2,3,4)]:
    code=Toric3DCode(*L); lowweight(code,SweepMatchDecoder(code,em,0.1),1)
for L in [(2,2,2),(3,3,3),(2,3,4),(4,4,3)]:
    code=RotatedPlanar3DCode(*L); lowweight(code,RotatedSweepMatchDecoder(code,em,0.1),1)
for L in [(3,3,3)]:
    code=Planar3DCode(*L); lowweight(code,SweepMatchDecoder(code,em,0.1),1)
for L in [(2,2,2),(4,4,3),(3,4,3)]:
    code=RotatedToric3DCode(*L); lowweight(code,RotatedSweepMatchDecoder(code,em,0.1),1)
