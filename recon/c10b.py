import numpy as np, itertools, warnings, sys, collections
warnings.filterwarnings('ignore')
from panqec.codes import Toric3DCode, Planar3DCode, RotatedPlanar3DCode, RotatedToric3DCode
from panqec.decoders import SweepDecoder3D, RotatedSweepDecoder3D
from panqec.error_models import PauliErrorModel
em=PauliErrorModel(1/3,1/3,1/3)
def run(cls,dec,size,maxw=2,seed=0):
    code=cls(*size); d=dec(code,em,0.1,seed=seed)
    n=code.n
    stats=collections.Counter()
    first=None
    orig=d.sweep_move
    state={}
    def wrapped(signs,correction,*a):
        new=orig(signs,correction,*a)
        tot=(state['e']+code.to_bsf(correction))%2
        syn=np.array(code.measure_syndrome(tot)).copy(); syn[code.z_indices]=0
        state['steps']+=1
        if not np.array_equal(np.array(new)%2,syn):
            state['bad']=True
        return new
    d.sweep_move=wrapped
    d.get_default_direction=lambda: int(d._rng.choice([0,1,2]))
    for w in range(1,maxw+1):
        for qs in itertools.combinations(range(n),w):
            e=np.zeros(2*n,dtype=np.uint8); e[n+np.array(qs)]=1
            state.update(e=e,steps=0,bad=False)
            s=code.measure_syndrome(e)
            c=d.decode(s)
            stats['runs']+=1; stats['steps']+=state['steps']
            if state['bad']:
                stats['invariant_broken']+=1
                if first is None: first=(qs,)
            tot=(e+c)%2
            syn=np.array(code.measure_syndrome(tot)); 
            if syn[code.x_indices].any(): stats['residual_face_syndrome']+=1
            if c[:n].any(): stats['nonZ']+=1
    print(cls.__name__,size,dict(stats),first,flush=True)
run(Toric3DCode,SweepDecoder3D,(2,2,2))
run(Toric3DCode,SweepDecoder3D,(3,3,3))
run(Toric3DCode,SweepDecoder3D,(2,3,4))
run(Planar3DCode,SweepDecoder3D,(2,2,2))
run(Planar3DCode,SweepDecoder3D,(3,3,3))
run(RotatedPlanar3DCode,RotatedSweepDecoder3D,(3,3,3))
run(RotatedPlanar3DCode,RotatedSweepDecoder3D,(4,3,2))
