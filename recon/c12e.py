import builtins, os, io, json, gzip, contextlib, warnings, copy, sys, gc, shutil, tempfile, collections
warnings.filterwarnings('ignore')
import numpy as np
import panqec; print('tree:',panqec.__file__)
from panqec.simulation import read_input_dict
from panqec.utils import load_json
SAND='/tmp/recon/c12/sb2'
shutil.rmtree(SAND,ignore_errors=True); os.makedirs(SAND)
LOG=[]; INJECT={'at':None,'count':0,'exc':None}
_open=builtins.open; _replace=os.replace; _remove=os.remove; _mkstemp=tempfile.mkstemp
def hook(kind,path):
    INJECT['count']+=1
    if INJECT['at'] is not None and INJECT['count']==INJECT['at']:
        raise INJECT['exc']('injected at %s %s'%(kind,path))
class Proxy:
    def __init__(self,f,path): self.f=f; self.path=path
    def write(self,data):
        b=data.encode() if isinstance(data,str) else bytes(data)
        hook('write',self.path); LOG.append(('write',self.path,b)); return self.f.write(data)
    def close(self):
        if not self.f.closed: hook('close',self.path); LOG.append(('close',self.path))
        return self.f.close()
    def __enter__(self): return self
    def __exit__(self,*a): self.close()
    def __getattr__(self,k): return getattr(self.f,k)
def myopen(path,mode='r',*a,**k):
    p=os.fspath(path) if not isinstance(path,int) else path
    if isinstance(p,str) and p.startswith(SAND) and any(c in mode for c in 'wa+x'):
        hook('open',p); LOG.append(('open',p,mode)); return Proxy(_open(path,mode,*a,**k),p)
    return _open(path,mode,*a,**k)
def myreplace(a,b):
    hook('replace',a); LOG.append(('replace',a,b)); return _replace(a,b)
def myremove(a):
    hook('remove',a); LOG.append(('remove',a)); return _remove(a)
def mymkstemp(*a,**k):
    fd,p=_mkstemp(*a,**k); LOG.append(('create',p)); return fd,p
spec={'ranges':{'label':'t','code':{'name':'Toric2DCode','parameters':[{'L_x':2,'L_y':2}]},
 'error_model':{'name':'PauliErrorModel','parameters':{'r_x':1/3,'r_y':1/3,'r_z':1/3}},
 'decoder':{'name':'MatchingDecoder','parameters':{}},'error_rate':[0.1,0.2]}}
def run(out,n,sf=1):
    with contextlib.redirect_stdout(io.StringIO()):
        b=read_input_dict(copy.deepcopy(spec),out,save_frequency=sf); b.run(n)
    return b
def images(log):
    """yield (label, {path:bytes}) for every prefix x byte offset; also 'saves' = contents of out after each completed save"""
    fs={}
    for i,op in enumerate(log):
        if op[0]=='write':
            for j in range(len(op[2])): 
                im=dict(fs); im[op[1]]=fs.get(op[1],b'')+op[2][:j]; yield (i,j),im
            fs[op[1]]=fs.get(op[1],b'')+op[2]
        else:
            yield (i,0),dict(fs)
            if op[0]=='open': fs[op[1]]=b'' if 'w' in op[2] else fs.get(op[1],b'')
            elif op[0]=='create': fs[op[1]]=b''
            elif op[0]=='replace': fs[op[2]]=fs.pop(op[1])
            elif op[0]=='remove': fs.pop(op[1],None)
    yield (len(log),0),dict(fs)
def patch():
    builtins.open=myopen; os.replace=myreplace; os.remove=myremove; tempfile.mkstemp=mymkstemp
def unpatch():
    builtins.open=_open; os.replace=_replace; os.remove=_remove; tempfile.mkstemp=_mkstemp
for ext in ['json','json.gz']:
    out=f'{SAND}/o.{ext}'
    for f in os.listdir(SAND): os.remove(f'{SAND}/{f}')
    patch(); LOG.clear(); INJECT.update(at=None,count=0)
    try: run(out,3)
    finally: unpatch()
    log=list(LOG); print(ext,'ops',len(log),collections.Counter(o[0] for o in log))
    final=load_json(out); 
    res=collections.Counter(); nim=0; distinct=set()
    for label,im in images(log):
        nim+=1
        key=tuple(sorted(im.items()))
        if key in distinct: continue
        distinct.add(key)
        for f in os.listdir(SAND): os.remove(f'{SAND}/{f}')
        for pth,b in im.items(): _open(pth,'wb').write(b)
        saved=None
        if out in im:
            try: saved=load_json(out)
            except Exception: saved='torn'
        try:
            run(out,5); d=load_json(out)
            ok=all(s['results']['n_runs']==5 and len(s['results']['success'])==5 for s in d)
            pref=True
            if isinstance(saved,list):
                for s0,s1 in zip(saved,d):
                    for k in ('success','codespace','effective_error'):
                        if s1['results'][k][:len(s0['results'][k])]!=s0['results'][k]: pref=False
            r=('ok' if ok else 'BADCOUNT','prefix' if pref else 'PREFIXLOST','torn' if saved=='torn' else 'readable' if saved is not None else 'nofile')
        except BaseException as e: r=('EXC',type(e).__name__)
        res[r]+=1
    print('  crash images',nim,'distinct',len(distinct),dict(res))
    # KeyboardInterrupt at every event
    patch(); LOG.clear(); INJECT.update(at=None,count=0)
    try: run(SAND+'/probe.'+ext,3); nev=INJECT['count']
    finally: unpatch()
    kres=collections.Counter()
    for at in range(1,nev+1):
        for f in os.listdir(SAND): os.remove(f'{SAND}/{f}')
        patch(); INJECT.update(at=at,count=0,exc=KeyboardInterrupt)
        try:
            try: run(out,3); r='returned'
            except BaseException as e: r='raised '+type(e).__name__
        finally:
            INJECT.update(at=None,count=0); gc.collect(); unpatch()
        try:
            run(out,3); d=load_json(out); r2='ok' if all(s['results']['n_runs']==3 and len(s['results']['success'])==3 for s in d) else 'BADCOUNT'
        except BaseException as e: r2='EXC '+type(e).__name__
        kres[(r,r2,len(os.listdir(SAND)))]+=1
    print('  KI',dict(kres))
