import numpy as np, itertools, warnings, time, io, contextlib, collections, traceback
warnings.filterwarnings('ignore')
import panqec; print('tree',panqec.__file__)
import panqec.codes as C
from panqec.decoders import *
from panqec.error_models import PauliErrorModel
def errs(n,maxw):
    yield np.zeros(2*n,dtype=np.uint8)
    for w in range(1,maxw+1):
        for qs in itertools.combinations(range(n),w):
            for ps in itertools.product('XYZ',repeat=w):
                e=np.zeros(2*n,dtype=np.uint8)
                for q,p in zip(qs,ps):
                    if p in 'XY': e[q]=1
                    if p in 'YZ': e[n+q]=1
                yield e
cases=[(MatchingDecoder,'Toric2DCode',[(2,2),(2,3),(3,4)],2),(MatchingDecoder,'Planar2DCode',[(2,2),(2,3),(4,3)],2),(MatchingDecoder,'RotatedPlanar2DCode',[(2,2),(2,3),(4,3)],2),
(UnionFindDecoder,'Toric2DCode',[(2,2),(2,3),(3,4)],2),
(SweepMatchDecoder,'Toric3DCode',[(2,2,2),(2,3,2),(3,3,3)],2),(SweepMatchDecoder,'Planar3DCode',[(2,2,2),(2,3,2),(3,3,3)],2),
(RotatedSweepMatchDecoder,'RotatedPlanar3DCode',[(2,2,2),(2,3,2),(3,3,3)],2),(RotatedSweepMatchDecoder,'RotatedToric3DCode',[(2,2,2),(2,4,1),(4,4,2)],1),
(XCubeMatchingDecoder,'XCubeCode',[(2,2,2),(2,2,3),(3,3,3)],1),(MemoryBeliefPropagationDecoder,'Planar2DCode',[(2,2)],2),(MemoryBeliefPropagationDecoder,'Toric2DCode',[(2,2)],1)]
for dec_cls,cname,sizes,maxw in cases:
    for size in sizes:
        code=getattr(C,cname)(*size); n=code.n
        for em in [PauliErrorModel(1/3,1/3,1/3),PauliErrorModel(0,0,1),PauliErrorModel(0.1,0.1,0.8,code.deformation_names[0] if code.deformation_names else None)]:
            st=collections.Counter(); t=time.time(); first=None
            try:
                with contextlib.redirect_stdout(io.StringIO()):
                    kw={'max_bp_iter':3} if dec_cls is MemoryBeliefPropagationDecoder else {}
                    dec=dec_cls(code,em,0.1,**kw)
            except Exception as ex:
                print(dec_cls.__name__,cname,size,em.label,'CONSTRUCT',type(ex).__name__,str(ex)[:70]); continue
            if maxw==2 and n>30: mw=1
            else: mw=maxw
            for e in errs(n,mw):
                s=code.measure_syndrome(e); s0=np.array(s).copy()
                try:
                    with contextlib.redirect_stdout(io.StringIO()):
                        c=dec.decode(s)
                    st['decodes']+=1
                    c=np.asarray(c)
                    if c.shape!=(2*n,) or not np.isin(c,[0,1]).all(): st['badshape']+=1
                    if not np.array_equal(np.array(s),s0): st['mutated']+=1
                    if dec_cls in (MatchingDecoder,UnionFindDecoder) and not np.array_equal(code.measure_syndrome(c),s0): st['invalid']+=1
                except Exception as ex:
                    st['exc:'+type(ex).__name__]+=1
                    if first is None: first=(np.nonzero(e)[0].tolist(),str(ex)[:60])
            print(dec_cls.__name__,cname,size,em.label[:22],dict(st),first or '','%.0fs'%(time.time()-t),flush=True)
