import numpy as np, itertools, warnings, time, json, sys
warnings.filterwarnings('ignore')
from panqec.gui import GUI
import panqec.gui._gui as G
g=GUI(); cl=g.app.test_client()
maxn=int(sys.argv[1]) if len(sys.argv)>1 else 150
res={}
for dim in (2,3):
    names=cl.post('/code-names',json={'dimension':dim}).get_json(force=True)
    for name in names:
        defs=['None']+cl.post('/deformation-names',json={'code_name':name}).get_json(force=True)
        decs=cl.post('/decoder-names',json={'code_name':name}).get_json(force=True)
        cls=G.codes[name]
        exp=[dn for dn,dc in G.decoders.items() if dc.allowed_codes is None or cls.__name__ in dc.allowed_codes]
        print(name,'defs',defs,'decoders',decs, 'OK' if decs==exp else 'DECODER MISMATCH')
        for L in range(1,7):
            for coprime in (False,True):
                Lx=L+1 if coprime else L
                try:
                    c=cls(Lx,L) if dim==2 else cls(Lx,L,L)
                    n=c.n
                except Exception as e:
                    n=None
                if n is None or n>maxn or n==0: 
                    continue
                for d in defs:
                    for rot in (False,True):
                        try:
                            r=cl.post('/code-data',json={'Lx':Lx,'Ly':L,'Lz':L,'code_name':name,'code_deformation_name':d,'rotated_picture':rot})
                            ok=r.status_code==200
                            msg=''
                            if ok:
                                data=json.loads(r.data)
                                if len(data['qubits'])!=n: ok=False; msg='nqubits'
                        except Exception as e:
                            ok=False; msg=type(e).__name__+':'+str(e)[:60]
                        if not ok: print('  FAIL',name,(Lx,L),d,'rot' if rot else 'kit',r.status_code if 'r' in dir() else '',msg)
