exec(open('c12b.py').read().split("builtins.open=myopen")[0])
import traceback, zlib
builtins.open=myopen
try:
    out=f'{SAND}/o.json.gz'
    for at in range(1,53):
        if os.path.exists(out): os.remove(out)
        LOG.clear(); INJECT.update(at=at,count=0,exc=KeyboardInterrupt)
        try: run(out,3); r='returned'
        except BaseException as e: r='raised '+type(e).__name__
        INJECT.update(at=None,count=0)
        raw1=_open(out,'rb').read() if os.path.exists(out) else None
        try:
            run(out,3)
        except BaseException as e:
            print('at',at,'restart run raised',type(e).__name__,str(e)[:60]); traceback.print_exc(limit=6)
            print(' file after first run: size',len(raw1) if raw1 is not None else None)
            try: print(' gunzip ok',len(gzip.decompress(raw1)))
            except Exception as e2: print(' gunzip of first-run file fails:',type(e2).__name__,e2)
            ev=[(e[0],(len(e[2]) if e[0]=='write' else '')) for e in LOG]
            print(' injection at event',at,'context',ev[max(0,at-4):at+3])
finally:
    builtins.open=_open
