import numpy as np, warnings, json, io, contextlib, collections
warnings.filterwarnings('ignore')
import panqec; print(panqec.__file__)
from panqec.gui import GUI
import panqec.gui._gui as G
from panqec.error_models import PauliErrorModel
g=GUI(); cl=g.app.test_client()
small={'Toric 2D':(2,3),'Planar 2D':(2,3),'Rotated Planar 2D':(2,3),'6.6.6 Color Code (toric)':(1,1),'6.6.6 Color Code (planar)':(1,1),'4.8.8 Color Code':(1,1),'Toric 3D':(2,2,3),'Planar 3D':(2,2,3),'Rotated Toric 3D':(2,2,2),'Rotated Planar 3D':(2,2,3),'Rhombic Toric 3D':(2,2,2),'Rhombic Planar 3D':(2,2,2),'XCube':(2,2,2),'Hollow Planar 3D':(2,2,2),'Hollow Rhombic Code':(2,2,3),'3D Color Code':(2,2,2)}
st=collections.Counter()
for name,size in small.items():
    cls=G.codes[name]
    decs=cl.post('/decoder-names',json={'code_name':name}).get_json(force=True)
    defs=['None']+cls.deformation_names
    for cd in defs[:2]:
      for nd in defs[:2]:
        for em_name,dirn in G.noise_directions.items():
            code=cls(*size); 
            if cd!='None': code.deform(cd)
            n=code.n
            base={'Lx':size[0],'Ly':size[1],'code_name':name,'code_deformation_name':cd,'p':0.1,'noise_deformation_name':nd,'error_model':em_name}
            if len(size)==3: base['Lz']=size[2]
            # new-errors with patched default_rng
            orig=np.random.default_rng
            np.random.default_rng=lambda *a: orig(12345)
            try:
                r=cl.post('/new-errors',json=base); ge=json.loads(r.data) if r.status_code==200 else None
                le=PauliErrorModel(*dirn,None if nd=='None' else nd).generate(code,0.1).tolist()
            finally: np.random.default_rng=orig
            st['newerr']+=1
            if ge!=le: st['newerr_mismatch']+=1; print('NEWERR mismatch',name,cd,nd,em_name,r.status_code)
            for dn in decs:
                if dn=='MBP' and n>12: continue
                errs=[np.zeros(2*n,dtype=np.uint8)]
                for q in range(min(n,4)):
                    e=np.zeros(2*n,dtype=np.uint8); e[q]=1; errs.append(e)
                    e=np.zeros(2*n,dtype=np.uint8); e[n+q]=1; errs.append(e)
                for e in errs:
                    s=code.measure_syndrome(e)
                    req=dict(base,syndrome=np.array(s).tolist(),max_bp_iter=5,alpha=0.4,beta=0,decoder=dn)
                    with contextlib.redirect_stdout(io.StringIO()):
                        r=cl.post('/decode',json=req)
                    st['decode']+=1
                    if r.status_code!=200: st['decode_500']+=1; st['500:'+name+':'+dn]+=1; continue
                    got=json.loads(r.data)
                    kw={}
                    if dn in ['BP-OSD','MBP']: kw['max_bp_iter']=5
                    if dn=='BP-OSD': kw['osd_order']=0
                    if dn=='MBP': kw.update(alpha=0.4,beta=0)
                    with contextlib.redirect_stdout(io.StringIO()):
                        c=G.decoders[dn](code,PauliErrorModel(*dirn,None if nd=='None' else nd),0.1,**kw).decode(np.array(np.array(s).tolist()))
                    if got['x']!=np.asarray(c[:n]).tolist() or got['z']!=np.asarray(c[n:]).tolist(): st['decode_mismatch']+=1
print({k:v for k,v in st.items()})
