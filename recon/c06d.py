import numpy as np, itertools, warnings, time, io, contextlib
warnings.filterwarnings('ignore')
from panqec.codes import Toric2DCode, Planar2DCode, RotatedPlanar2DCode, XCubeCode, Toric3DCode
from panqec.decoders import MatchingDecoder, UnionFindDecoder, XCubeMatchingDecoder, MemoryBeliefPropagationDecoder, SweepMatchDecoder
from panqec.error_models import PauliErrorModel
em=PauliErrorModel(0.2,0.3,0.5)
def alph(code,maxw=1,full=False):
    n=code.n; S={}
    if full:
        for bits in itertools.product([0,1],repeat=2*n):
            e=np.array(bits,dtype=np.uint8); S.setdefault(tuple(int(x) for x in code.measure_syndrome(e)),e)
    else:
        S[tuple([0]*code.n_stabilizers)]=np.zeros(2*n,dtype=np.uint8)
        for q in range(n):
            for p in 'XYZ':
                e=np.zeros(2*n,dtype=np.uint8)
                if p in 'XY': e[q]=1
                if p in 'YZ': e[n+q]=1
                S.setdefault(tuple(int(x) for x in code.measure_syndrome(e)),e)
    return list(S)
def pairs(code,mk,S,label):
    t=time.time(); fresh={}
    with contextlib.redirect_stdout(io.StringIO()):
        for s in S: fresh[s]=np.array(mk().decode(np.array(s))).copy()
        bad=0; mut=0
        for s1 in S:
            d=mk()
            for s2 in S:
                a1=np.array(s1); d.decode(a1)
                a2=np.array(s2); b2=a2.copy(); r=d.decode(a2)
                if not np.array_equal(a2,b2): mut+=1
                if not np.array_equal(r,fresh[s2]): bad+=1
    print(label,type(code).__name__,code.size,'|S|',len(S),'pairs',len(S)**2,'mismatch',bad,'syndrome mutated',mut,'%.1fs'%(time.time()-t),flush=True)
c=Toric2DCode(2,2); S=alph(c,full=True)
pairs(c,lambda:MatchingDecoder(c,em,0.1),S,'Matching')
pairs(c,lambda:UnionFindDecoder(c,em,0.1),S,'UF')
c=Planar2DCode(2,2); S=alph(c,full=True); pairs(c,lambda:MatchingDecoder(c,em,0.1),S,'Matching')
pairs(c,lambda:MemoryBeliefPropagationDecoder(c,em,0.1,max_bp_iter=3),S,'MBP')
c=XCubeCode(2,2,2); S=alph(c); pairs(c,lambda:XCubeMatchingDecoder(c,em,0.1),S,'XCubeMatching')
c=Toric3DCode(3,3,3); S=alph(c)[:40]; pairs(c,lambda:SweepMatchDecoder(c,em,0.1),S,'SweepMatch')
