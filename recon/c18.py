import numpy as np, itertools, warnings, io, contextlib, math
warnings.filterwarnings('ignore')
import panqec; print(panqec.__file__)
from panqec.codes import Planar2DCode, Toric2DCode
from panqec.decoders import MatchingDecoder
from panqec.error_models import PauliErrorModel
from panqec.simulation import SplittingSimulation, DirectSimulation
code=Planar2DCode(2,2); n=code.n
em=PauliErrorModel(0.2,0.3,0.5,'XZZX'); p=0.2
dec=MatchingDecoder(code,em,p)
sim=SplittingSimulation(code,em,[dec],[p],n_init_runs=1,verbose=False)
pi,px,py,pz=em.probability_distribution(code,p)
def refP(e):
    pr=1
    for i in range(n):
        x,z=e[i],e[n+i]; pr*= [pi,pz,px,py][2*x+z][i] if False else {(0,0):pi[i],(1,0):px[i],(1,1):py[i],(0,1):pz[i]}[(x,z)]
    return pr
calls=[]; script=[]
orig=np.random.choice
def fake(a,size=None,p=None):
    v=script.pop(0); calls.append((a if not hasattr(a,'__len__') or len(a)<6 else 'arr',p)); return v
np.random.choice=fake
bad=0; tot=0
try:
    for prev_bits in itertools.product([0,1],repeat=2*n):
        prev=np.array(prev_bits,dtype=np.uint8)
        if sum(prev_bits)>2: continue
        for q in range(n):
            for pa in 'XYZ':
                script[:]=[q,pa,0]; calls.clear()
                with contextlib.redirect_stdout(io.StringIO()):
                    nxt,logp=sim.get_next_error(dec,p,prev)
                new=prev.copy()
                if pa in 'XY': new[q]^=1
                if pa in 'YZ': new[n+q]^=1
                qacc=calls[2][1][1]
                exp=min(1.0,refP(new)/refP(prev))
                tot+=1
                if abs(qacc-exp)>1e-12: bad+=1
                if abs(logp-math.log(refP(prev)))>1e-9: bad+=1
finally: np.random.choice=orig
print('metropolis steps',tot,'bad',bad)
# C11 seeds
from panqec.decoders import BeliefPropagationOSDDecoder, SweepMatchDecoder
from panqec.codes import Toric3DCode
for mk in [lambda c,e: MatchingDecoder(c,e,0.2), lambda c,e: BeliefPropagationOSDDecoder(c,e,0.2)]:
    outs=[]
    for rep in range(2):
        c=Toric2DCode(3,3); e=PauliErrorModel(0.2,0.3,0.5)
        s=DirectSimulation(c,e,mk(c,e),0.2,rng=np.random.default_rng(7),verbose=False); s.run(30)
        outs.append((np.array(s.results['effective_error']).tobytes(),tuple(s.results['success']),tuple(s.results['codespace'])))
    print('seed reproducible',outs[0]==outs[1])
c=Toric3DCode(3,3,3); outs=[]
for rep in range(2):
    e=PauliErrorModel(0.2,0.3,0.5); s=DirectSimulation(c,e,SweepMatchDecoder(c,e,0.1),0.1,rng=np.random.default_rng(7),verbose=False); s.run(30)
    outs.append((np.array(s.results['effective_error']).tobytes(),tuple(s.results['success'])))
print('sweepmatch seed reproducible',outs[0]==outs[1])
