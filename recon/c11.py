import numpy as np, itertools, warnings, time
warnings.filterwarnings('ignore')
from panqec.codes import RotatedPlanar2DCode, Planar2DCode
from panqec.decoders import MatchingDecoder, BeliefPropagationOSDDecoder
from panqec.error_models import PauliErrorModel
from panqec.simulation import run_once, DirectSimulation
class ScriptedRNG:
    def __init__(self,xs): self.xs=list(xs); self.i=0
    def random(self):
        x=self.xs[self.i]; self.i+=1; return x
code=Planar2DCode(2,2); n=code.n
em=PauliErrorModel(0.2,0.3,0.5); p=0.3
pi,px,py,pz=em.probability_distribution(code,p)
# midpoints of intervals in order I,X,Y,Z (assumed order; real harness is order-agnostic)
def mids(i):
    c=np.cumsum([0,pi[i],px[i],py[i],pz[i]]); return [(c[j]+c[j+1])/2 for j in range(4)], [pi[i],px[i],py[i],pz[i]]
t=time.time()
for dec_name,mk in [('matching',lambda:MatchingDecoder(code,em,p)),('bposd-reused',None)]:
    dec=mk() if mk else BeliefPropagationOSDDecoder(code,em,p)
    Pfail=0; tot=0; bad=0
    for script in itertools.product(range(4),repeat=n):
        xs=[mids(i)[0][s] for i,s in enumerate(script)]
        mass=np.prod([mids(i)[1][s] for i,s in enumerate(script)])
        rng=ScriptedRNG(xs)
        r=run_once(code,em,dec,p,rng=rng)
        exp=''.join('IXYZ'[s] for s in script)
        from panqec.bpauli import bvector_to_pauli_string
        if bvector_to_pauli_string(r['error'])!=exp or rng.i!=n: bad+=1
        tot+=mass; Pfail+=mass*(not r['success'])
        if r['codespace']!=bool((np.array(code.measure_syndrome((r['error']+r['correction'])%2))==0).all()): bad+=1
    print(dec_name,'scripts',4**n,'mass',tot,'Pfail',Pfail,'bad',bad,'%.1fs'%(time.time()-t))
