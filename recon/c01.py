import itertools, sys, time, warnings
import numpy as np
warnings.filterwarnings('ignore')
import panqec.codes as C
from panqec.bpauli import bs_prod
def gf2rank(M):
    M = (np.array(M, dtype=np.uint8) % 2).copy()
    r=0; rows,cols=M.shape
    for c in range(cols):
        piv=None
        for i in range(r,rows):
            if M[i,c]: piv=i;break
        if piv is None: continue
        M[[r,piv]]=M[[piv,r]]
        for i in range(rows):
            if i!=r and M[i,c]: M[i]^=M[r]
        r+=1
        if r==rows: break
    return r
def symp(A,B,n):
    A=np.asarray(A,dtype=np.int64);B=np.asarray(B,dtype=np.int64)
    return (A[:,:n]@B[:,n:].T + A[:,n:]@B[:,:n].T)%2
def check(code):
    n=code.n
    H=code.stabilizer_matrix.toarray().astype(np.int64)
    LX=code.logicals_x.astype(np.int64); LZ=code.logicals_z.astype(np.int64)
    k=code.k
    errs=[]
    if symp(H,H,n).any(): errs.append('stab-noncommute')
    if symp(H,LX,n).any(): errs.append('LX-vs-H')
    if symp(H,LZ,n).any(): errs.append('LZ-vs-H')
    if LX.shape[0]!=LZ.shape[0]: errs.append('kx!=kz'); return errs
    if (symp(LX,LZ,n)!=np.eye(k,dtype=int)).any(): errs.append('LX.LZ!=I')
    if symp(LX,LX,n).any(): errs.append('LX.LX')
    if symp(LZ,LZ,n).any(): errs.append('LZ.LZ')
    r=gf2rank(H)
    if r!=n-k: errs.append(f'rank {r} != n-k {n-k}')
    return errs
names=[c for c in C.__all__ if c!='StabilizerCode']
names=sorted(set(names))
maxn=int(sys.argv[1]) if len(sys.argv)>1 else 400
sel=sys.argv[2:] 
for name in names:
    if sel and name not in sel: continue
    cls=getattr(C,name)
    dim=cls.dimension
    rng=range(1,7) if dim==2 else range(1,6)
    for size in itertools.product(rng,repeat=dim):
        try:
            code=cls(*size)
            n=code.n
            if n>maxn: continue
            if n==0: print(name,size,'n=0'); continue
            t=time.time()
            e=check(code)
            print(name,size,'n',n,'k',code.k,'d',code.d,'OK' if not e else 'BAD '+';'.join(e), flush=True)
        except Exception as ex:
            print(name,size,'EXC',type(ex).__name__,str(ex)[:80], flush=True)
