import numpy as np, warnings
warnings.filterwarnings('ignore')
from ldpc import BpOsdDecoder
import scipy.sparse as sp
H=sp.csr_matrix(np.array([[1,1,1,1]],dtype=np.uint8))
def mk(order=10,it=1000):
    return BpOsdDecoder(H,error_rate=0.1,max_iter=it,bp_method='minimum_sum',ms_scaling_factor=0.,schedule='serial',osd_method='osd_cs',osd_order=order)
p=np.full(4,0.08)
for order in [10,2,0]:
    dd=mk(order)
    print('order',order)
    for s in [[0],[0],[1],[0],[0]]:
        dd.update_channel_probs(p)
        out=dd.decode(np.array(s))
        print(' syn',s,'ret',out,'osdw',dd.osdw_decoding,'osd0',dd.osd0_decoding,'bp',dd.bp_decoding,'conv',dd.converge, 'iter', dd.iter)
dd=mk(10)
print('no update_channel_probs')
for s in [[0],[0],[1],[0],[0]]:
    out=dd.decode(np.array(s))
    print(' syn',s,'ret',out,'osdw',dd.osdw_decoding,'conv',dd.converge)
