import numpy as np, json, os, time, warnings, shutil, sys
warnings.filterwarnings('ignore')
from panqec.analysis import Analysis
def make(dirn, p_th, nu, A, B, C, ds=(3,5,7), nrates=9, half=0.03, N=2000, order=None):
    shutil.rmtree(dirn, ignore_errors=True); os.makedirs(dirn)
    ps=np.round(np.linspace(p_th-half,p_th+half,nrates),6)
    files=[]
    for d in ds:
        sims=[]
        for p in ps:
            x=(p-p_th)*d**nu; f=A+B*x+C*x*x
            nf=int(round(f*N)); assert 0<=nf<=N,(f,)
            succ=[False]*nf+[True]*(N-nf)
            eff=[[1,0]]*nf+[[0,0]]*(N-nf)
            sims.append({'inputs':{'code':{'name':'Toric2DCode','parameters':{'L_x':d,'L_y':d,'L_z':None},'n':2*d*d,'k':1,'d':d},
              'error_model':{'name':'PauliErrorModel','parameters':{'r_x':1/3,'r_y':1/3,'r_z':1/3,'deformation_name':None,'deformation_kwargs':{}}},
              'decoder':{'name':'MatchingDecoder','parameters':{}},'error_rate':float(p),'method':{'name':'direct','parameters':{}}},
              'results':{'n_runs':N,'wall_time':1.0,'effective_error':eff,'success':succ,'codespace':[True]*N}})
        fn=f'{dirn}/res_{d}.json'; json.dump(sims,open(fn,'w')); files.append(fn)
    return files
for (p_th,nu,A,B,C) in [(0.1,1.0,0.3,1.0,1.0),(0.15,0.8,0.3,1.0,1.0),(0.06,1.2,0.35,0.8,0.5)]:
    files=make('/tmp/recon/c16/a',p_th,nu,A,B,C)
    t=time.time()
    an=Analysis(files)
    th=an.thresholds
    row=th.iloc[0]
    print('planted',p_th,nu,A,B,C,'->',row['p_th_fss'],row['p_th_fss_left'],row['p_th_fss_right'],np.round(row['fss_params'],4),row['fit_status'],'%.1fs'%(time.time()-t))
    an2=Analysis(files[::-1]); r2=an2.thresholds.iloc[0]
    print('  reversed order equal:',r2['p_th_fss']==row['p_th_fss'], r2['p_th_fss_left']==row['p_th_fss_left'])
