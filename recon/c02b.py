import itertools, warnings, numpy as np, inspect
warnings.filterwarnings('ignore')
import panqec.codes as C
fam={'Toric2DCode':lambda s:min(s)>=2,'Planar2DCode':lambda s:min(s)>=2,'RotatedPlanar2DCode':lambda s:min(s)>=2,'Color666PlanarCode':lambda s:True,'Color488Code':lambda s:True,'Color666ToricCode':lambda s:s[0]==s[1],
'Toric3DCode':lambda s:min(s)>=2,'XCubeCode':lambda s:min(s)>=2,'Planar3DCode':lambda s:min(s)>=2,'RotatedPlanar3DCode':lambda s:min(s)>=2,'HollowPlanar3DCode':lambda s:min(s)>=2,
'RotatedToric3DCode':lambda s:s[0]>=2 and s[1]>=2 and not(s[0]%2 and s[1]%2),'RhombicToricCode':lambda s:all(x%2==0 for x in s),'RhombicPlanarCode':lambda s:s[0]>=2 and s[1]>=2,'HollowRhombicCode':lambda s:s[0]>=2 and s[1]>=2 and s[2]>=3,'Color3DCode':lambda s:all(x%2==0 for x in s)}
for name,ok in fam.items():
    cls=getattr(C,name); dim=cls.dimension; nconf=0; issues=[]
    for size in itertools.product(range(1,7) if dim==2 else range(1,6),repeat=dim):
        if not ok(size): continue
        c=cls(*size)
        if c.n>300: continue
        nconf+=1
        q=c.qubit_coordinates; st=c.stabilizer_coordinates
        if len(set(q))!=len(q): issues.append((size,'dup qubits'))
        if len(set(st))!=len(st): issues.append((size,'dup stabs'))
        if set(q)&set(st): issues.append((size,'overlap'))
        H=c.stabilizer_matrix
        if H.shape[0] and (H.getnnz(1)==0).any(): issues.append((size,'empty row',int((H.getnnz(1)==0).sum())))
        for i,loc in enumerate(st):
            op=c.get_stabilizer(loc)
            if not op or any(k not in c.qubit_index for k in op): issues.append((size,'bad support',loc)); break
            row=np.zeros(2*c.n,dtype=int)
            for k,v in op.items():
                if v in 'XY': row[c.qubit_index[k]]^=1
                if v in 'YZ': row[c.n+c.qubit_index[k]]^=1
            if not np.array_equal(row,H[i].toarray()[0]): issues.append((size,'row mismatch',loc)); break
    print(name,'configs',nconf,'issues',issues[:6])
