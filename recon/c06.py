import numpy as np, itertools, warnings, time
warnings.filterwarnings('ignore')
from panqec.codes import Toric2DCode, Planar2DCode, RotatedPlanar2DCode
from panqec.decoders import BeliefPropagationOSDDecoder, MatchingDecoder, UnionFindDecoder
from panqec.error_models import PauliErrorModel
def allsyn(code):
    n=code.n; H=code.stabilizer_matrix.toarray()
    seen={}
    for bits in itertools.product([0,1],repeat=2*n):
        e=np.array(bits,dtype=np.uint8)
        s=tuple(code.measure_syndrome(e))
        if s not in seen: seen[s]=e
    return seen
for code,kw in [(RotatedPlanar2DCode(2,2),{}),(Planar2DCode(2,2),{}),(RotatedPlanar2DCode(3,2),{})]:
    for deform in [None,'XZZX']:
        c=type(code)(*code.size)
        if deform: c.deform(deform)
        em=PauliErrorModel(0.2,0.3,0.5)
        syn=allsyn(c)
        S=list(syn)
        print(type(c).__name__,c.size,deform,'n',c.n,'css',c.is_css,'syndromes',len(S))
        t=time.time()
        fresh={}
        for s in S:
            d=BeliefPropagationOSDDecoder(c,em,0.1)
            fresh[s]=d.decode(np.array(s)).copy()
            assert tuple(c.measure_syndrome(fresh[s]))==s, ('invalid',s)
        print(' fresh ok', time.time()-t)
        bad=0
        d=BeliefPropagationOSDDecoder(c,em,0.1)
        for s1 in S:
            for s2 in S:
                d.decode(np.array(s1)); r=d.decode(np.array(s2))
                if not np.array_equal(r,fresh[s2]): bad+=1
        print(' pair histories', len(S)**2,'mismatch',bad, time.time()-t)
