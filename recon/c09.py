import numpy as np, itertools, warnings, time, sys
warnings.filterwarnings('ignore')
from panqec.codes import Toric2DCode, Planar2DCode, RotatedPlanar2DCode
from panqec.decoders import MatchingDecoder, UnionFindDecoder
from panqec.error_models import PauliErrorModel
def optimality(code, em, p):
    n=code.n
    dec=MatchingDecoder(code,em,p)
    wx,wz=em.get_weights(code,p)
    out=[]
    for sector,Hs,w,sl,mask in (('X',code.Hz.toarray(),wx,slice(0,n),code.z_indices),('Z',code.Hx.toarray(),wz,slice(n,2*n),code.x_indices)):
        # enumerate all 2^n x, group by syndrome -> min weight
        best={}
        for bits in itertools.product([0,1],repeat=n):
            x=np.array(bits); s=tuple(Hs.dot(x)%2); c=float(np.dot(w,x))
            if s not in best or c<best[s]-1e-12: best[s]=c
        worst=0; nbad=0
        for s,c in best.items():
            full=np.zeros(code.n_stabilizers,dtype=np.uint8); full[mask]=s
            corr=dec.decode(full)[sl]
            assert tuple(Hs.dot(corr)%2)==s
            cc=float(np.dot(w,corr))
            if cc>c+1e-6*max(1,abs(c)): nbad+=1; worst=max(worst,cc-c)
        out.append((sector,len(best),nbad,worst))
    return out
for code in [Toric2DCode(2,2),Toric2DCode(2,3),Planar2DCode(2,2),Planar2DCode(3,2),RotatedPlanar2DCode(3,3),RotatedPlanar2DCode(2,4),RotatedPlanar2DCode(4,3)]:
    for em in [PauliErrorModel(1/3,1/3,1/3),PauliErrorModel(0.1,0.1,0.8),PauliErrorModel(0.1,0.1,0.8,'XZZX'),PauliErrorModel(0,0,1,'XZZX'),PauliErrorModel(0.7,0.2,0.1,'XY')]:
        print(type(code).__name__,code.size,em.label,optimality(code,em,0.2),flush=True)
