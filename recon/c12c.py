exec(open('c12b.py').read().split("builtins.open=myopen")[0])
import traceback
builtins.open=myopen
try:
    out=f'{SAND}/o.json.gz'
    for at in range(1,53):
        if os.path.exists(out): os.remove(out)
        LOG.clear(); INJECT.update(at=at,count=0,exc=KeyboardInterrupt)
        try: run(out,3); r='returned'
        except BaseException as e: r='raised '+type(e).__name__
        INJECT.update(at=None,count=0)
        log1=list(LOG)
        try:
            d=load_json(out); ok=True
        except BaseException as e:
            ok=False
            print('at',at,'first run',r,'file unreadable:',type(e).__name__, 'size',os.path.getsize(out))
            # show event sequence around injection
            ev=[(e[0],(len(e[2]) if e[0]=='write' else '')) for e in log1]
            print(' events in first run:',len(ev)); print(' ',ev[max(0,at-6):at+14])
finally:
    builtins.open=_open
