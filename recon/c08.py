import numpy as np, itertools, warnings
warnings.filterwarnings('ignore')
import panqec.codes as C
from panqec.error_models import PauliErrorModel
def snap(c): return (c.stabilizer_matrix.toarray().tobytes(), c.logicals_x.tobytes(), c.logicals_z.tobytes(), tuple(c.qubit_coordinates))
sizes={'Toric2DCode':(2,3),'Planar2DCode':(2,3),'RotatedPlanar2DCode':(2,3),'Toric3DCode':(2,2,3),'Planar3DCode':(2,2,3),'RotatedPlanar3DCode':(2,2,3),'RotatedToric3DCode':(3,2,2),'XCubeCode':(2,2,3),'RhombicToricCode':(2,2,2),'RhombicPlanarCode':(2,2,3),'HollowRhombicCode':(3,3,3),'Color488Code':(1,1),'Color666ToricCode':(1,1)}
for name,size in sizes.items():
    cls=getattr(C,name)
    axes=[None]
    import inspect
    if 'deformation_axis' in inspect.signature(cls.get_deformation).parameters:
        axes=['x','y'] if cls.dimension==2 else ['x','y','z']
    confs=[(d,a) for d in cls.deformation_names for a in axes]
    ref={}
    for d,a in confs:
        c=cls(*size); kw={} if a is None else {'deformation_axis':a}
        c.deform(d,**kw); ref[(d,a)]=snap(c)
    bad=[]
    for (d1,a1),(d2,a2) in itertools.product(confs,repeat=2):
        c=cls(*size); c.stabilizer_matrix; c.logicals_x; c.Hx if c.is_css else None; c.d
        c.deform(d1,**({} if a1 is None else {'deformation_axis':a1})); c.stabilizer_matrix; c.logicals_z
        c.deform(d2,**({} if a2 is None else {'deformation_axis':a2}))
        if snap(c)!=ref[(d2,a2)]: bad.append(((d1,a1),(d2,a2)))
    # noise equivalence
    nb=0
    for d,a in confs:
        kw={} if a is None else {'deformation_axis':a}
        c0=cls(*size)
        em=PauliErrorModel(0.2,0.3,0.5,deformation_name=d,deformation_kwargs=kw); em0=PauliErrorModel(0.2,0.3,0.5)
        pi,px,py,pz=em.probability_distribution(c0,0.1); qi,qx,qy,qz=em0.probability_distribution(c0,0.1)
        for i,loc in enumerate(c0.qubit_coordinates):
            D=c0.get_deformation(loc,d,**kw)
            P={'X':px[i],'Y':py[i],'Z':pz[i]}; Q={'X':qx[i],'Y':qy[i],'Z':qz[i]}
            if any(abs(P[s]-Q[D[s]])>1e-15 for s in 'XYZ') or sorted(D.values())!=['X','Y','Z']: nb+=1
    print(name,size,'confs',len(confs),'history mismatches',len(bad),bad[:2],'noise mismatch',nb)
