import numpy as np, itertools, warnings
warnings.filterwarnings('ignore')
from panqec.config import CODES, DECODERS, ERROR_MODELS
print('C13 registry mismatches:', [(k,v.__name__) for k,v in CODES.items() if k!=v.__name__], [(k,v.__name__) for k,v in DECODERS.items() if k!=v.__name__])
import panqec.codes as C
print('codes exported but not registered:', sorted(set(C.__all__)-set(CODES)-{'StabilizerCode'}))
# C18
from panqec.error_models import PauliErrorModel
from panqec.codes import Planar2DCode, Toric2DCode
code=Planar2DCode(1,2)
print('n',code.n)
for r in [(1,0,0),(0.5,0,0.5),(1/3,1/3,1/3),(0,1,0)]:
    em=PauliErrorModel(*r)
    tot=0
    for bits in itertools.product([0,1],repeat=2*code.n):
        tot+=em.error_probability(np.array(bits),code,0.3)
    print('C18 r',r,'sum of probs',tot)
# C19 range
from panqec.cli import read_range_input, read_bias_ratios
for spec in ['0:0.6:0.005','0.1:0.2:0.01','0:0.5:0.1','0.01:0.07:0.01','0:1:0.05', '0.1:0.3:0.1','0:0.3:0.1']:
    v=read_range_input(spec)
    mx=float(spec.split(':')[1])
    print('C19',spec,'len',len(v),'last',v[-1],'beyond' if v[-1]>mx+1e-9 else 'ok')
