import json, os, shutil, warnings, io, contextlib
warnings.filterwarnings('ignore')
from click.testing import CliRunner
from panqec.cli import cli
from panqec.simulation import read_input_json
r=CliRunner()
for method in ['direct','splitting']:
  for eta in ['0.5','0.5,10,inf']:
    d='/tmp/recon/c19/data'; shutil.rmtree(d,ignore_errors=True)
    res=r.invoke(cli,['generate-input','-d',d,'--code_class','Toric2DCode','--decoder_class','MatchingDecoder','-s','3x3,4x5','--bias','Z','--eta',eta,'--prob','0.1:0.2:0.05','-m',method])
    print(method,eta,'exit',res.exit_code,res.exception,os.listdir(d+'/inputs'))
    for f in os.listdir(d+'/inputs'):
        try:
            with contextlib.redirect_stdout(io.StringIO()):
                b=read_input_json(d+'/inputs/'+f,d+'/out.json')
            print('   ',f,len(b._simulations),[ (s.code.size,s.error_model.direction,getattr(s,'error_rate',None)) for s in b._simulations][:3])
        except Exception as e:
            print('   ',f,'READ FAIL',type(e).__name__,e)
