import sys, hashlib, warnings, inspect
warnings.filterwarnings('ignore')
import numpy as np
import panqec.codes as C
sizes={'Toric2DCode':(2,3),'Planar2DCode':(2,3),'RotatedPlanar2DCode':(2,3),'Color666PlanarCode':(2,2),'Color666ToricCode':(2,2),'Color488Code':(2,2),'Toric3DCode':(2,2,3),'Planar3DCode':(2,2,3),'RotatedPlanar3DCode':(2,2,3),'HollowPlanar3DCode':(3,3,3),'RotatedToric3DCode':(3,2,2),'RhombicToricCode':(2,2,2),'RhombicPlanarCode':(2,2,3),'HollowRhombicCode':(3,3,3),'XCubeCode':(2,2,3),'Color3DCode':(2,2,2)}
h=hashlib.sha256()
for name,size in sizes.items():
    cls=getattr(C,name)
    for d in [None]+cls.deformation_names:
        c=cls(*size)
        if d: c.deform(d)
        h.update(repr((list(c.qubit_index.items()),list(c.stabilizer_index.items()))).encode())
        h.update(c.stabilizer_matrix.toarray().tobytes()); h.update(c.logicals_x.tobytes()); h.update(c.logicals_z.tobytes()); h.update(c.x_indices.tobytes())
print(h.hexdigest())
