import numpy as np, itertools, warnings, time, sys
warnings.filterwarnings('ignore')
import panqec.codes as C
def rank_rows(rows):
    rows=list(rows); r=0
    while rows:
        p=rows.pop()
        if p:
            r+=1; lsb=p&-p
            rows=[x^p if x&lsb else x for x in rows]
    return r
def toint(v): return int(''.join(map(str,np.asarray(v,dtype=int))),2)
def min_weight_css(code, maxw):
    """exhaustive: for each type T in X,Z: all supports of weight<=maxw; commute with opposite-type checks; not in rowspace of same-type checks (test via anticommute with some opposite logical)."""
    n=code.n
    H=code.stabilizer_matrix.toarray().astype(np.uint8)
    Hx=H[:, :n][code.x_indices]; Hz=H[:, n:][code.z_indices]
    LX=code.logicals_x; LZ=code.logicals_z
    best=None
    for typ,Hc,Lopp in (('X',Hz,LZ[:,n:]),('Z',Hx,LX[:,:n])):
        # X-type error e (support s): must satisfy Hz e =0 ; nontrivial iff anticommutes with some logical Z (LZ z-part . e) 
        cols=[toint(Hc[:,j]) if Hc.shape[0] else 0 for j in range(n)]
        lcols=[toint(Lopp[:,j]) for j in range(n)]
        for w in range(1,maxw+1):
            if best is not None and w>=best[0]: break
            for s in itertools.combinations(range(n),w):
                syn=0; l=0
                for j in s: syn^=cols[j]; l^=lcols[j]
                if syn==0 and l!=0:
                    best=(w,typ,s); break
            if best is not None and best[0]==w: break
    return best
cases=[('Toric2DCode',(2,3)),('Toric2DCode',(3,4)),('Planar2DCode',(2,3)),('Planar2DCode',(3,3)),('RotatedPlanar2DCode',(3,4)),('RotatedPlanar2DCode',(2,5)),
('Color488Code',(1,1)),('Color488Code',(2,2)),('Color666PlanarCode',(1,1)),('Color666PlanarCode',(2,2)),('Color666ToricCode',(1,1)),('Color666ToricCode',(2,2)),
('Toric3DCode',(2,2,2)),('Toric3DCode',(2,3,3)),('Planar3DCode',(2,2,2)),('Planar3DCode',(3,2,2)),('Planar3DCode',(2,3,2)),('Planar3DCode',(3,3,3)),
('RotatedPlanar3DCode',(2,2,2)),('RotatedPlanar3DCode',(3,3,2)),('RotatedPlanar3DCode',(3,2,3)),('RotatedToric3DCode',(2,2,2)),('RotatedToric3DCode',(4,4,2)),('RotatedToric3DCode',(2,4,3)),
('XCubeCode',(2,2,2)),('XCubeCode',(2,2,3)),('XCubeCode',(3,3,3)),('RhombicToricCode',(2,2,2)),('RhombicPlanarCode',(2,2,2)),('RhombicPlanarCode',(3,3,2)),('RhombicPlanarCode',(3,3,3)),('RhombicPlanarCode',(2,2,4)),
('HollowPlanar3DCode',(3,3,3)),('HollowPlanar3DCode',(4,4,4)),('HollowRhombicCode',(3,3,3)),('HollowRhombicCode',(4,4,4)),('Color3DCode',(2,2,2))]
for name,size in cases:
    code=getattr(C,name)(*size)
    if not code.is_css: print(name,size,'non-css skip'); continue
    t=time.time()
    d=int(code.d)
    b=min_weight_css(code,d-1)
    print(name,size,'n',code.n,'k',code.k,'d_reported',d,'lighter logical:',b,'%.1fs'%(time.time()-t),flush=True)
