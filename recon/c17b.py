import numpy as np, itertools, warnings, time, sys
warnings.filterwarnings('ignore')
import panqec.codes as C
def toint(v): return int(''.join(map(str,np.asarray(v,dtype=int)[::-1])),2) if len(v) else 0
def mitm(cols,lcols,n,W):
    """any e with sum cols=0, sum lcols!=0, weight<=W ? exhaustive via meet in the middle"""
    h=(W+1)//2
    table={}  # syndrome -> dict logical -> min weight
    def rec(start,w,syn,l):
        d=table.setdefault(syn,{})
        if l not in d or d[l]>w: d[l]=w
        if w==h: return
        for j in range(start,n): rec(j+1,w+1,syn^cols[j],l^lcols[j])
    rec(0,0,0,0)
    best=None; entries=sum(len(d) for d in table.values())
    for syn,d in table.items():
        if len(d)>1:
            items=sorted(d.items(),key=lambda t:t[1])
            for (l1,w1),(l2,w2) in itertools.combinations(items,2):
                if l1!=l2 and w1+w2<=W and (best is None or w1+w2<best): best=w1+w2
    return best,len(table),entries
def check(code):
    n=code.n; H=code.stabilizer_matrix.toarray().astype(np.uint8)
    Hx=H[:, :n][code.x_indices]; Hz=H[:, n:][code.z_indices]
    d=int(code.d); out=[]
    for typ,Hc,Lopp in (('X',Hz,code.logicals_z[:,n:]),('Z',Hx,code.logicals_x[:,:n])):
        cols=[toint(Hc[:,j]) for j in range(n)]; lcols=[toint(Lopp[:,j]) for j in range(n)]
        out.append((typ,)+mitm(cols,lcols,n,d-1))
    return d,out
for name,size in [('Toric2DCode',(5,5)),('Toric2DCode',(7,7)),('Color488Code',(3,3)),('Color666ToricCode',(2,2)),('Toric3DCode',(4,4,4)),('XCubeCode',(4,4,4)),('RhombicToricCode',(4,4,4)),('Color3DCode',(2,2,4)),('HollowRhombicCode',(5,5,5)),('RotatedPlanar3DCode',(5,5,5)),('Color666PlanarCode',(3,3))]:
    code=getattr(C,name)(*size); t=time.time()
    d,out=check(code)
    print(name,size,'n',code.n,'d',d,out,'%.1fs'%(time.time()-t),flush=True)
