import json, os, shutil, gzip, zipfile, itertools, warnings, numpy as np, time
warnings.filterwarnings('ignore')
from panqec.analysis import Analysis
from click.testing import CliRunner
from panqec.cli import cli
def inputs(rate,k=1,d=3):
    return {'code':{'name':'Toric2DCode','parameters':{'L_x':d,'L_y':d,'L_z':None},'n':2*d*d,'k':k,'d':d},'error_model':{'name':'PauliErrorModel','parameters':{'r_x':1/3,'r_y':1/3,'r_z':1/3,'deformation_name':None,'deformation_kwargs':{}}},'decoder':{'name':'MatchingDecoder','parameters':{'error_type':None,'weights':None}},'error_rate':rate,'method':{'name':'direct','parameters':{}}}
def rec(rate,trials,k=1):
    return {'inputs':inputs(rate,k),'results':{'n_runs':len(trials),'wall_time':0.5,'effective_error':[t[0] for t in trials],'success':[t[1] for t in trials],'codespace':[t[2] for t in trials]}}
def partitions(xs):
    if not xs: yield []; return
    f,rest=xs[0],xs[1:]
    for p in partitions(rest):
        yield [[f]]+p
        for i in range(len(p)): yield p[:i]+[[f]+p[i]]+p[i+1:]
k=2
trials=[([0,0,0,0],True,True),([1,0,0,1],False,True),([0,1,0,0],False,True),([1,1,1,0],False,False),([0,0,0,0],False,False)]
def table(paths):
    a=Analysis(paths); r=a.get_results(); a.calculate_sector_thresholds if False else None
    row=r.iloc[0]
    return (int(row['n_trials']),int(row['n_fail']),float(row['p_est']),float(row['p_se']),np.array(row['single_qubit_p_est']).round(12).tolist(),np.array(row['single_qubit_p_se']).round(12).tolist(),float(row['p_word_est']))
ref=None; outs=set(); t=time.time(); n=0
for part in partitions(list(range(5))):
    for kind in ['json','gz','zip','merged']:
        d='/tmp/recon/c15/p'; shutil.rmtree(d,ignore_errors=True); os.makedirs(d)
        files=[]
        for i,blk in enumerate(part):
            data=[rec(0.1,[trials[j] for j in blk],k)]
            fn=f'{d}/f{i}.json'; json.dump(data,open(fn,'w')); files.append(fn)
            if kind=='gz':
                with gzip.open(fn+'.gz','wb') as g: g.write(json.dumps(data).encode()); 
                os.remove(fn); files[-1]=fn+'.gz'
        if kind=='zip':
            with zipfile.ZipFile(d+'/all.zip','w') as z:
                for f in files: z.write(f,os.path.basename(f)); 
            for f in files: os.remove(f)
            paths=[d+'/all.zip']
        elif kind=='merged':
            r=CliRunner().invoke(cli,['merge-results']+files+['-o',d+'/m.json.gz']); assert r.exit_code==0,r.output
            for f in files: os.remove(f)
            paths=[d+'/m.json.gz']
        else: paths=[d]
        try:
            tb=table(paths)
        except Exception as e:
            tb=('EXC',type(e).__name__,str(e)[:80])
        n+=1
        outs.add(json.dumps(tb))
print('analyses',n,'distinct tables',len(outs),'%.0fs'%(time.time()-t))
for o in list(outs)[:4]: print(o)
