import numpy as np, itertools, warnings, collections, time
warnings.filterwarnings('ignore')
from panqec.codes import Toric3DCode, Planar3DCode, RotatedPlanar3DCode
from panqec.decoders import SweepDecoder3D, RotatedSweepDecoder3D
from panqec.error_models import PauliErrorModel
em=PauliErrorModel(1/3,1/3,1/3)
class CountRNG:
    def __init__(self): self.calls=0
    def choice(self,opts,size=None):
        self.calls+=1; return 0
def run(cls,dec,size,maxw):
    code=cls(*size); n=code.n; hist=collections.Counter(); t=time.time()
    for w in range(1,maxw+1):
        for qs in itertools.combinations(range(n),w):
            e=np.zeros(2*n,dtype=np.uint8); e[n+np.array(qs)]=1
            d=dec(code,em,0.1); d._rng=CountRNG(); d.get_default_direction=lambda d=d: int(d._rng.choice([0,1,2]))
            d.decode(code.measure_syndrome(e)); hist[d._rng.calls]+=1
    print(cls.__name__,size,'maxw',maxw,'tie-break calls per decode histogram',sorted(hist.items())[:12],'%.0fs'%(time.time()-t),flush=True)
run(Toric3DCode,SweepDecoder3D,(2,2,2),2)
run(Toric3DCode,SweepDecoder3D,(3,3,3),2)
run(Toric3DCode,SweepDecoder3D,(3,3,3),3) if False else None
run(Planar3DCode,SweepDecoder3D,(3,3,3),2)
run(RotatedPlanar3DCode,RotatedSweepDecoder3D,(3,3,3),2)
