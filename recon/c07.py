import numpy as np, itertools, warnings, time, math
warnings.filterwarnings('ignore')
from panqec.error_models._pauli_error_model import fast_choice, PauliErrorModel
from panqec.codes import StabilizerCode, Planar2DCode
class One:
    def __init__(self,x): self.x=x
    def random(self): return self.x
def measure(probs):
    opts=('I','X','Y','Z')
    subs=sorted({sum(c) for r in range(5) for c in itertools.combinations(probs,r)})
    pts=set()
    for s in subs:
        x=s
        for _ in range(3):
            if 0<=x<1: pts.add(x)
            x=math.nextafter(x,2)
        x=s
        for _ in range(3):
            x=math.nextafter(x,-1)
            if 0<=x<1: pts.add(x)
    for a,b in zip(subs,subs[1:]): pts.add((a+b)/2)
    pts.update(i/1024 for i in range(1024)); pts.add(0.0); pts.add(1-2**-53)
    pts=sorted(p for p in pts if 0<=p<1)
    out=[fast_choice(opts,probs,rng=One(x)) for x in pts]
    m=dict.fromkeys(opts,0.0); unresolved=0.0
    for (a,oa),(b,ob) in zip(zip(pts,out),zip(pts[1:],out[1:])):
        if oa==ob: m[oa]+=b-a
        else: unresolved+=b-a
    m[out[-1]]+=1-pts[-1]
    return m,unresolved,len(pts)
t=time.time(); worst=0; cnt=0
for den in [10]:
    for a in range(den+1):
        for b in range(den+1-a):
            r=(a/den,b/den,(den-a-b)/den)
            for p in [0,1e-3,0.1,0.25,0.5,0.9,1]:
                probs=[1-p,p*r[0],p*r[1],p*r[2]]
                m,u,n=measure(probs); cnt+=1
                err=max(abs(m[o]-q) for o,q in zip('IXYZ',probs))
                worst=max(worst,err+u)
print('configs',cnt,'worst |measure-prob|+unresolved',worst,'%.1fs'%(time.time()-t))
# user-defined subclass feasibility
def make(qcoords,stabs):
    class U(StabilizerCode):
        dimension=2
        label='U'
        def get_qubit_coordinates(self): return list(qcoords)
        def get_stabilizer_coordinates(self): return [('s',i) for i in range(len(stabs))]
        def qubit_axis(self,loc): return 'x'
        def stabilizer_type(self,loc): return 'vertex'
        def get_stabilizer(self,loc): return dict(stabs[loc[1]])
        def get_logicals_x(self): return []
        def get_logicals_z(self): return []
    return U(1,1)
c=make([(0,),(5,),(-3,)],[{(0,):'X',(5,):'Y'},{(-3,):'Z',(0,):'Y'}])
print(c.n,c.stabilizer_matrix.toarray(),c.is_css,c.from_bsf(c.to_bsf({(0,):'Y',(-3,):'X'})))
