import inspect, textwrap, warnings
warnings.filterwarnings('ignore')
import panqec.decoders.sweepmatch._sweep_decoder_3d as m
src=inspect.getsource(m.SweepDecoder3D.sweep_move)
src=textwrap.dedent(src).replace("correction[location] = 'Z'","self.code.site(correction, 'Z', location)")
ns=dict(m.__dict__); exec(src,ns); m.SweepDecoder3D.sweep_move=ns['sweep_move']
exec(open('c10b.py').read().split("run(Toric3DCode,SweepDecoder3D,(2,2,2))")[0])
run(Toric3DCode,SweepDecoder3D,(2,2,2))
run(Toric3DCode,SweepDecoder3D,(3,3,3))
run(Toric3DCode,SweepDecoder3D,(2,3,4))
run(Planar3DCode,SweepDecoder3D,(3,3,3))
