import numpy as np, itertools, warnings, time
warnings.filterwarnings('ignore')
import panqec; print(panqec.__file__)
from panqec.codes import Toric2DCode
from panqec.decoders import UnionFindDecoder
from panqec.error_models import PauliErrorModel
em=PauliErrorModel(1/3,1/3,1/3)
for size in [(2,2),(2,3),(3,2),(2,4),(3,3),(3,4)]:
    code=Toric2DCode(*size); n=code.n; dec=UnionFindDecoder(code,em,0.1); bad=0; tot=0; fail=0
    maxw=2 if n<=24 else 1
    for w in range(0,maxw+1):
        for qs in itertools.combinations(range(n),w):
            for ps in itertools.product('XYZ',repeat=w):
                e=np.zeros(2*n,dtype=np.uint8)
                for q,p in zip(qs,ps):
                    if p in 'XY': e[q]=1
                    if p in 'YZ': e[n+q]=1
                s=code.measure_syndrome(e); c=dec.decode(s); tot+=1
                if not np.array_equal(code.measure_syndrome(c),s): bad+=1
                elif w<= (min(size)-1)//2 and not code.is_success((c+e)%2): fail+=1
    print(size,'decodes',tot,'invalid',bad,'t-fail',fail)
