import builtins, os, io, json, gzip, contextlib, warnings, copy, sys
warnings.filterwarnings('ignore')
import numpy as np
from panqec.simulation import read_input_dict
from panqec.utils import load_json
SAND='/tmp/recon/c12/sb'
os.makedirs(SAND,exist_ok=True)
LOG=[]
_open=builtins.open
class Proxy:
    def __init__(self,f,path,mode): self.f=f; self.path=path; self.mode=mode
    def write(self,data):
        b=data.encode() if isinstance(data,str) else bytes(data)
        hook('write',self.path,len(b)); LOG.append(('write',self.path,b)); return self.f.write(data)
    def close(self):
        hook('close',self.path,0); LOG.append(('close',self.path)); return self.f.close()
    def __enter__(self): return self
    def __exit__(self,*a): self.close()
    def __getattr__(self,k): return getattr(self.f,k)
    def __iter__(self): return iter(self.f)
INJECT={'at':None,'count':0,'exc':None}
def hook(kind,path,nbytes):
    INJECT['count']+=1
    if INJECT['at'] is not None and INJECT['count']==INJECT['at']:
        raise INJECT['exc']('injected at %s %s'%(kind,path))
def myopen(path,mode='r',*a,**k):
    p=os.fspath(path) if not isinstance(path,int) else path
    if isinstance(p,str) and p.startswith(SAND) and any(c in mode for c in 'wa+x'):
        hook('open',p,0); LOG.append(('open',p,mode))
        return Proxy(_open(path,mode,*a,**k),p,mode)
    return _open(path,mode,*a,**k)
spec={'ranges':{'label':'t','code':{'name':'Toric2DCode','parameters':[{'L_x':2,'L_y':2}]},
 'error_model':{'name':'PauliErrorModel','parameters':{'r_x':1/3,'r_y':1/3,'r_z':1/3}},
 'decoder':{'name':'MatchingDecoder','parameters':{}},'error_rate':[0.1,0.2]}}
def run(out,n,sf=1):
    with contextlib.redirect_stdout(io.StringIO()):
        b=read_input_dict(copy.deepcopy(spec),out,save_frequency=sf)
        b.run(n)
    return b
builtins.open=myopen
try:
    for ext in ['json','json.gz']:
        out=f'{SAND}/o.{ext}'
        if os.path.exists(out): os.remove(out)
        LOG.clear(); INJECT.update(at=None,count=0)
        run(out,3)
        kinds=[(e[0],len(e[2]) if e[0]=='write' else e[2] if e[0]=='open' else '') for e in LOG]
        print(ext,'ops',len(LOG),'total events',INJECT['count'])
        from collections import Counter
        print('  first 12:',kinds[:12]); print('  write sizes summary',Counter(k[1] for k in kinds if k[0]=='write').most_common(5))
        nev=INJECT['count']
        # KeyboardInterrupt injection at every event
        res=Counter()
        for at in range(1,nev+1):
            if os.path.exists(out): os.remove(out)
            INJECT.update(at=at,count=0,exc=KeyboardInterrupt)
            try:
                run(out,3); r='returned'
            except BaseException as e: r='raised '+type(e).__name__
            INJECT.update(at=None,count=0)
            # restart
            try:
                run(out,3); d=load_json(out); r2=('ok',tuple(s['results']['n_runs'] for s in d),tuple(len(s['results']['success']) for s in d))
            except BaseException as e: r2=('EXC',type(e).__name__,str(e)[:40])
            res[(r,r2)]+=1
        for k,v in res.items(): print('  KI',k,v)
finally:
    builtins.open=_open
