import numpy as np, itertools, warnings, sys
warnings.filterwarnings('ignore')
from panqec.codes import Toric3DCode, Planar3DCode, RotatedPlanar3DCode, RotatedToric3DCode
from panqec.decoders import SweepDecoder3D, RotatedSweepDecoder3D
from panqec.error_models import PauliErrorModel
em=PauliErrorModel(1/3,1/3,1/3)
def geom(cls, dec, sizes):
    for size in sizes:
        code=cls(*size); d=dec(code,em,0.1)
        H=code.stabilizer_matrix
        bad=[]
        for q,loc in enumerate(code.qubit_coordinates):
            signs=np.zeros(code.n_stabilizers,dtype=int)
            d.flip_edge(loc,signs)
            e=code.to_bsf({loc:'Z'})
            syn=code.measure_syndrome(e)
            syn=np.array(syn).copy(); syn[code.z_indices]=0  # face only = x_indices rows
            exp=np.zeros_like(signs); exp[code.x_indices]=np.array(code.measure_syndrome(e))[code.x_indices]
            if not np.array_equal(signs,exp): bad.append(loc)
        print(cls.__name__,size,'n',code.n,'geometry mismatches',len(bad),bad[:6])
geom(Toric3DCode,SweepDecoder3D,[(2,2,2),(2,3,4),(3,3,3)])
geom(Planar3DCode,SweepDecoder3D,[(1,1,1),(2,2,2),(2,3,4),(3,3,3),(1,2,3)])
geom(RotatedPlanar3DCode,RotatedSweepDecoder3D,[(1,1,1),(2,2,2),(2,3,4),(3,3,3),(4,3,2),(5,5,3)])
geom(RotatedToric3DCode,RotatedSweepDecoder3D,[(2,2,2),(2,3,2),(4,4,2),(3,4,3),(4,6,3)])
