import numpy as np, itertools, warnings, time, sys, io, contextlib, collections
warnings.filterwarnings('ignore')
import panqec.codes as C
from panqec.decoders import BeliefPropagationOSDDecoder, MatchingDecoder, UnionFindDecoder, XCubeMatchingDecoder, MemoryBeliefPropagationDecoder
from panqec.error_models import PauliErrorModel
import inspect
small={'Toric2DCode':[(2,2),(2,3),(3,3)],'Planar2DCode':[(2,2),(2,3),(3,3)],'RotatedPlanar2DCode':[(2,2),(3,2),(3,3)],'Color666PlanarCode':[(1,1),(2,2)],'Color666ToricCode':[(1,1)],'Color488Code':[(1,1),(2,2)],
'Toric3DCode':[(2,2,2),(2,2,3)],'Planar3DCode':[(2,2,2),(2,3,2)],'RotatedPlanar3DCode':[(2,2,2),(3,2,2)],'HollowPlanar3DCode':[(2,2,2),(3,3,3)],'RotatedToric3DCode':[(2,2,2),(3,2,2),(2,3,1)],'RhombicToricCode':[(2,2,2)],'RhombicPlanarCode':[(2,2,2),(2,3,3)],'HollowRhombicCode':[(2,2,3),(3,3,3)],'XCubeCode':[(2,2,2)],'Color3DCode':[(2,2,2)]}
stats=collections.Counter(); t0=time.time()
for name,sizes in small.items():
    cls=getattr(C,name)
    axes=[None]
    if 'deformation_axis' in inspect.signature(cls.get_deformation).parameters: axes=['x','y'] if cls.dimension==2 else ['x','y','z']
    confs=[(None,None)]+[(d,a) for d in cls.deformation_names for a in axes]
    for size in sizes:
        for (cd,ca) in confs[:3]:
            code=cls(*size)
            if cd: code.deform(cd,**({} if ca is None else {'deformation_axis':ca}))
            n=code.n
            errs=[np.zeros(2*n,dtype=np.uint8)]
            for q in range(n):
                for p in 'XYZ':
                    e=np.zeros(2*n,dtype=np.uint8)
                    if p in 'XY': e[q]=1
                    if p in 'YZ': e[n+q]=1
                    errs.append(e)
            for (nd,na) in confs[:2]:
                for r in [(1/3,1/3,1/3),(0,0,1),(0.1,0.1,0.8)]:
                    em=PauliErrorModel(*r,deformation_name=nd,deformation_kwargs=({} if na is None else {'deformation_axis':na}))
                    for p in [0.01,0.3]:
                        for order in [0,10]:
                            try:
                                dec=BeliefPropagationOSDDecoder(code,em,p,osd_order=order,max_bp_iter=50)
                                for e in errs:
                                    s=code.measure_syndrome(e)
                                    c=dec.decode(s)
                                    stats['decodes']+=1
                                    if c.shape!=(2*n,) or not np.array_equal(code.measure_syndrome(c),s):
                                        stats['invalid']+=1
                                        if stats['invalid']<=10: print('INVALID',name,size,cd,ca,nd,na,r,p,order,'err',np.nonzero(e)[0])
                            except Exception as ex:
                                stats['exc:'+type(ex).__name__]+=1
                                if stats['exc:'+type(ex).__name__]<=5: print('EXC',name,size,cd,ca,nd,na,r,p,order,type(ex).__name__,str(ex)[:100])
    print(name,dict(stats),'%.0fs'%(time.time()-t0),flush=True)
