import numpy as np, json, os, time, warnings, shutil, sys, io, contextlib, gzip
warnings.filterwarnings('ignore')
from panqec.simulation import read_input_dict
from panqec.utils import load_json
spec={'ranges':{'label':'t','code':{'name':'Toric2DCode','parameters':[{'L_x':2,'L_y':2}]},
 'error_model':{'name':'PauliErrorModel','parameters':{'r_x':1/3,'r_y':1/3,'r_z':1/3}},
 'decoder':{'name':'MatchingDecoder','parameters':{}},'error_rate':[0.1,0.2]}}
def run(out,n,sf=1):
    with contextlib.redirect_stdout(io.StringIO()):
        b=read_input_dict(json.loads(json.dumps(spec)),out,save_frequency=sf)
        b.run(n)
    return b
for ext in ['json','json.gz']:
    out=f'/tmp/recon/c12/o.{ext}'
    if os.path.exists(out): os.remove(out)
    t=time.time(); run(out,4); print(ext,'run 4 trials %.3fs'%(time.time()-t), 'size',os.path.getsize(out))
    d=load_json(out); print(' n_runs',[s['results']['n_runs'] for s in d],[len(s['results']['success']) for s in d])
    raw=open(out,'rb').read()
    outcomes={}
    for cut in range(0,len(raw)+1):
        open(out,'wb').write(raw[:cut])
        try:
            run(out,6); d=load_json(out)
            r=('ok',tuple(s['results']['n_runs'] for s in d),tuple(len(s['results']['success']) for s in d))
        except BaseException as e:
            r=('EXC',type(e).__name__)
        outcomes.setdefault(r,[]).append(cut)
    for r,c in outcomes.items(): print('  ',r,'cuts',c[:5],'...',c[-3:],len(c))
