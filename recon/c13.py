import json, itertools, warnings, io, contextlib, collections, copy
warnings.filterwarnings('ignore')
from panqec.simulation import read_input_dict, expand_input_ranges
def sims(spec):
    with contextlib.redirect_stdout(io.StringIO()):
        b=read_input_dict(copy.deepcopy(spec),'/tmp/recon/x.json')
    return [(type(s.code).__name__,tuple(s.code.size),s.error_model.direction,s.error_model.params['deformation_name'],type(s.decoder).__name__,json.dumps(s.decoder.params,sort_keys=True,default=str),s.error_rate) for s in b._simulations]
codesP=[{'L_x':2},{'L_x':3,'L_y':2},{'L_x':3}]
noiseP=[{'r_x':1,'r_y':0,'r_z':0},{'r_x':0.5,'r_y':0,'r_z':0.5},{'r_x':0,'r_y':0,'r_z':1,'deformation_name':'XZZX'}]
decP=[None,{},{'osd_order':0},[{'osd_order':0},{'osd_order':3,'max_bp_iter':7}]]
rates=[[0.1],[0.1,0.2],[0.3,0.1,0.2]]
bad=0;tot=0
for nc in (1,2,3):
  for cform in ('list','dict'):
    if cform=='dict' and nc!=1: continue
    for nn in (1,2,3):
      for nform in ('list','dict'):
        if nform=='dict' and nn!=1: continue
        for dp in decP:
          for rs in rates:
            code={'name':'Toric2DCode','parameters':codesP[:nc] if cform=='list' else codesP[0]}
            noise={'name':'PauliErrorModel','parameters':noiseP[:nn] if nform=='list' else noiseP[0]}
            dec={'name':'BeliefPropagationOSDDecoder'}
            if dp is not None: dec['parameters']=dp
            spec={'ranges':{'label':'x','code':code,'error_model':noise,'decoder':dec,'error_rate':rs}}
            tot+=1
            try:
                got=collections.Counter(sims(spec))
            except Exception as e:
                bad+=1; print('EXC',nc,cform,nn,nform,dp,rs,type(e).__name__,e); continue
            dlist=[{}] if dp in (None,{}) else (dp if isinstance(dp,list) else [dp])
            exp=collections.Counter()
            for c in codesP[:nc]:
                for n_ in noiseP[:nn]:
                    for d in dlist:
                        for r in rs:
                            full={'max_bp_iter':1000,'channel_update':False,'osd_order':10,'bp_method':'minimum_sum'}; full.update(d)
                            exp[('Toric2DCode',(c['L_x'],c.get('L_y',c['L_x'])),(n_['r_x'],n_['r_y'],n_['r_z']),n_.get('deformation_name'),'BeliefPropagationOSDDecoder',json.dumps(full,sort_keys=True),r)]+=1
            if got!=exp:
                bad+=1; print('MISMATCH',nc,cform,nn,nform,dp,rs,len(got),sum(got.values()),sum(exp.values()))
print('specs',tot,'bad',bad)
# runs form + list of ranges
spec={'runs':[{'code':{'name':'Toric2DCode','parameters':{'L_x':2}},'error_model':{'name':'PauliErrorModel','parameters':{'r_x':1,'r_y':0,'r_z':0}},'decoder':{'name':'MatchingDecoder'},'error_rate':0.1},
 {'code':{'name':'Planar2DCode','parameters':[3,2]},'error_model':{'name':'PauliErrorModel','parameters':[0,0,1]},'decoder':{'name':'MatchingDecoder','parameters':{'error_type':'X'}},'error_rate':0.2}]}
print(sims(spec))
r1={'label':'a','code':{'name':'Toric2DCode','parameters':[{'L_x':2},{'L_x':3}]},'error_model':{'name':'PauliErrorModel','parameters':{'r_x':1,'r_y':0,'r_z':0}},'decoder':{'name':'MatchingDecoder'},'error_rate':[0.1,0.2]}
r2={'label':'b','code':{'name':'Planar2DCode','parameters':[{'L_x':2}]},'error_model':{'name':'PauliErrorModel','parameters':{'r_x':0,'r_y':0,'r_z':1}},'decoder':{'name':'MatchingDecoder'},'error_rate':[0.3]}
print(len(sims({'ranges':[r1,r2]})))
