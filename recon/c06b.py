import numpy as np, itertools, warnings, time
warnings.filterwarnings('ignore')
from panqec.codes import Toric2DCode, Planar2DCode, RotatedPlanar2DCode
from panqec.decoders import BeliefPropagationOSDDecoder
from panqec.error_models import PauliErrorModel
exec(open('c06.py').read().split('for code,kw')[0])
c=RotatedPlanar2DCode(2,2)
em=PauliErrorModel(0.2,0.3,0.5)
S=list(allsyn(c))
fresh={}
for s in S:
    d=BeliefPropagationOSDDecoder(c,em,0.1); fresh[s]=d.decode(np.array(s)).copy()
d=BeliefPropagationOSDDecoder(c,em,0.1)
inv=0
for s1 in S:
    for s2 in S:
        d.decode(np.array(s1)); r=d.decode(np.array(s2))
        ok=tuple(c.measure_syndrome(r))==s2
        if not np.array_equal(r,fresh[s2]):
            print('hist',s1,'->',s2,'reused',r,'fresh',fresh[s2],'valid' if ok else 'INVALID')
        inv+= not ok
print('invalid',inv)
import ldpc; print(ldpc.__version__)
from ldpc import BpOsdDecoder
H=c.Hx
dd=BpOsdDecoder(H,error_rate=0.1,max_iter=10,bp_method='minimum_sum',ms_scaling_factor=0.,schedule='serial',osd_method='osd_cs',osd_order=2)
for s in [[1],[0],[1],[0]]:
    out=dd.decode(np.array(s,dtype=np.uint8) if H.shape[0]==1 else np.array(s))
    print('syn',s,'ret',out,'osdw',dd.osdw_decoding,'osd0',dd.osd0_decoding,'bp',dd.bp_decoding, 'conv',dd.converge)
print(H.toarray())
