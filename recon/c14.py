import os, tempfile, itertools, collections, warnings
warnings.filterwarnings('ignore')
import panqec.cli as cli
import multiprocessing
launched=[]
class FakeProc:
    def __init__(self,target=None,args=(),kwargs=None): launched.append((args,kwargs))
    def start(self): pass
    def join(self): pass
cli.multiprocessing.Process=FakeProc
cli.multiprocessing.cpu_count=lambda: 64
fn=cli.run_parallel.callback
bad=collections.Counter(); tot=0; examples=[]
with tempfile.TemporaryDirectory() as d:
    os.makedirs(d+'/inputs')
    for n_inputs in range(1,5):
        for f in os.listdir(d+'/inputs'): os.remove(d+'/inputs/'+f)
        for i in range(n_inputs): open(f'{d}/inputs/in{i}.json','w').write('{}')
        for N in range(1,4):
            for Cc in range(1,6):
                if N*Cc<n_inputs: continue
                for trials in range(1,25):
                    # trials >= tasks per input (max)
                    tpi=N*Cc//n_inputs + (N*Cc)%n_inputs
                    if trials<tpi: continue
                    tot+=1
                    launched.clear(); err=None
                    try:
                        for j in range(1,N+1):
                            import io,contextlib
                            with contextlib.redirect_stdout(io.StringIO()):
                                fn(d,trials,N,j,Cc,False)
                    except Exception as e:
                        err=type(e).__name__
                    per=collections.Counter()
                    for args,kw in launched: per[os.path.basename(args[0])]+=args[2]
                    ok = err is None and all(per[f'in{i}.json']==trials for i in range(n_inputs)) and all(a[2]>=1 for a,_ in launched) and len(set(a[1] for a,_ in launched))==len(launched)
                    if not ok:
                        bad[err or 'count']+=1
                        if len(examples)<12: examples.append((n_inputs,N,Cc,trials,err,dict(per)))
print(tot,bad); 
for e in examples: print(e)
