import inspect, textwrap, warnings, itertools
warnings.filterwarnings('ignore')
import panqec.codes.color_2d._color_488_code as m
exec(open('c01.py').read().split('names=[c for c')[0])
for fn in ['get_logicals_x','get_logicals_z']:
    src=textwrap.dedent(inspect.getsource(getattr(m.Color488Code,fn)))
    src=src.replace("range(1, 8*Lx+4, 2)","range(1, 8*LY+4, 2)").replace("range(1, 8*Ly+4, 2)","range(1, 8*Lx+4, 2)").replace("8*LY","8*Ly")
    ns=dict(m.__dict__); exec(src,ns); setattr(m.Color488Code,fn,ns[fn])
for size in itertools.product(range(1,5),repeat=2):
    c=m.Color488Code(*size)
    print(size,c.n,c.k,check(c))
