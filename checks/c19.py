"""C19  Generated input files cover exactly the requested parameter grid.

Part 'generate': the real `panqec generate-input` click command is driven through
click.testing.CliRunner in a fresh sandbox directory for every point of a complete
box of command lines (code class x size list x decoder x bias x eta list x prob spec
x deformation x method x label).  Everything found under <sandbox>/inputs is read back
with the real reader `panqec.simulation.read_input_json`; the simulations it builds are
compared, as a multiset of (code class, size, noise direction, error rate, decoder,
deformation), with sizes x bias ratios x error rates computed here from the command
line strings with exact decimal/rational arithmetic.  The deformation axis is class
specific (None plus every name the class offers); the noise model read back must carry
exactly the requested name and be usable on its code (probability_distribution does not
raise).  Two of the error-rate specifications start at a rate of exactly 0.

Part 'eta': every spelling class of one bias ratio (infinite: inf, Inf, infinity, +inf, 1e999 ...; finite:
3, 3.0, 3e0, +3, ' 3' ...) alone, with finite companions at every list position and paired with the other
kind, through the same command and oracle; every spelling is a number, so a refusal (non-zero exit, nothing
written) is a violation, and acceptance must not depend on the list.  Part 'direction-fn':
get_direction_from_bias_ratio called directly with float/numpy/math infinities and int/float/numpy scalars.

Every invocation is also judged at the level of the written specification (nothing built): each ranges block
lists exactly the requested sizes and decoder parameters that are constructor arguments of the decoder class
(inspect.signature) and equal the defaults documented for that class only.  Part 'sizes': size lists with
multi-digit components (10, 12, 100) mixed with single-digit ones, 2-D and 3-D, read back with a lazily built
decoder.  Part 'decoders': every registered decoder on the smallest code it allows, read back and constructed.

Part 'range': `panqec.cli.read_range_input` on every (min, max, step) of a decimal grid
(and the comma-list / single-value forms), compared with the exact decimal progression.
"""
import contextlib
import hashlib
import io
import json
import os
import shutil
import tempfile
import warnings
from decimal import Decimal
from fractions import Fraction

# The runner forks one child per case item from a parent that has imported this module: importing the
# heavy modules here (panqec.cli alone is ~1.7 s) lets every child inherit them instead of re-importing.
with warnings.catch_warnings():
    warnings.simplefilter('ignore')
    import numpy  # noqa: F401
    import click.testing  # noqa: F401
    import panqec.cli  # noqa: F401
    import panqec.config  # noqa: F401
    import panqec.simulation  # noqa: F401

PROPERTY = 'C19'
LEVEL = 'exploration'
DESIGN_REF = 'DESIGN.md §4 C19'
TECHNIQUE = ('bounded exhaustive enumeration of generate-input command lines (complete product box, each run through '
             'click CliRunner in a sandbox and read back with the real reader) and of all (min, max, step) range '
             'specifications on a decimal grid, compared with an exact-arithmetic oracle')
LEVEL_TEXT = ('Every command line of a complete product box is executed on the real command and the files it leaves '
              'are parsed by the real simulator reader; every range specification of a complete decimal grid is parsed '
              'by the real parser. The property is about a finite mapping from option strings to a list of '
              'simulations, so complete enumeration of the box decides it inside the box; nothing is proved about '
              'option strings outside it.')
LEVEL_NOTE = ('Trusted: click CliRunner invoking the command as the console entry would; Python Decimal/Fraction '
              'arithmetic for the expected grid; the public attributes code.size, error_model.direction, '
              'error_model.params, simulation.error_rate(s)/decoder(s) as observables; the registry name->class map '
              '(that is C13: a simulation is expected to hold CODES[name] / DECODERS[name]). Not covered: what the '
              'simulations do when run (C11/C12), eta values other than the listed eta lists, deformation names a class does '
              'not offer, steps off the decimal grid.')
RULE = ('part generate: complete product of (code class, size list, compatible decoder) x bias x eta list x prob spec x '
        'deformation (None + every name the class offers) x method x label; one evaluation = one real generate-input '
        'invocation in its own sandbox plus reading back every file it wrote (each noise model read back is also '
        'evaluated once on its code); non-trivial when the requested grid has more than one point '
        '(sizes*ratios*rates > 1) and at least one file was written; distinct = distinct command line. '
        'part eta: every spelling of ETA_SPELLINGS alone, with the companions at every position of 2- and 3-lists and '
        'paired with every spelling of the other kind in both orders, x bias (x method); non-trivial when the list '
        'holds an infinite or alternatively spelled ratio and was accepted; part direction-fn: every listed scalar x '
        'bias, non-trivial when the scalar is infinite or not a plain float. '
        'part sizes: every size list of SIZE_LISTS x eta x method, non-trivial when files were written; part decoders: '
        'every registered decoder on its smallest allowed code x eta x prob x method. '
        'part range: all (min, max, step) with min, max multiples of step, 0 <= min < max <= 0.6, plus comma-list and '
        'single-value forms; one evaluation = one read_range_input call; non-trivial when the binary accumulation '
        'float(min) + n*float(step) does not land exactly on float(max) (the endpoint decision is then rounding '
        'sensitive) - measured per specification; distinct = distinct specification string.')
ASSUMPTIONS = [
    'the registry maps a class name to the class of that name (C13); a simulation is expected to hold CODES[name]',
    'a deformation name is only requested for code classes that offer it (class attribute deformation_names); a '
    'name the class lacks is a user error the reader may reject, so it is outside the box',
    'an error rate of exactly 0 is a legitimate grid point (the default --prob is 0:0.6:0.005)',
    'a decoder is only requested for code classes it lists in allowed_codes (or that lists none)',
    'every file under <data_dir>/inputs after the command returns is an input specification of that invocation',
]

DIM2 = ['Toric2DCode', 'Planar2DCode', 'RotatedPlanar2DCode', 'Color666PlanarCode', 'Color488Code',
        'Color666ToricCode']
# 3-D classes whose size family (DESIGN §3) contains both 2x3x4 and 3x3x3
DIM3 = ['Toric3DCode', 'Planar3DCode', 'RotatedPlanar3DCode', 'XCubeCode', 'RhombicPlanarCode',
        'HollowPlanar3DCode', 'HollowRhombicCode']
# 3-D classes with their own size list (family: even lengths only)
DIM3_OWN_SIZES = {'RhombicToricCode': ['2x2x2,4x2x2']}
HAS_XZZX = {'Toric2DCode', 'Planar2DCode', 'RotatedPlanar2DCode', 'Toric3DCode', 'Planar3DCode',
            'RotatedPlanar3DCode', 'XCubeCode'}
# the deformation names every class documents (a priori); requested only while the class still offers them
CLASS_DEFORMATIONS = {
    'Toric2DCode': ['XZZX', 'XY'], 'Planar2DCode': ['XZZX', 'XY'], 'RotatedPlanar2DCode': ['XZZX', 'XY'],
    'Color666PlanarCode': [], 'Color488Code': ['XXZZ'], 'Color666ToricCode': ['X3Z3'],
    'Toric3DCode': ['XZZX'], 'Planar3DCode': ['XZZX'], 'RotatedPlanar3DCode': ['XZZX'], 'XCubeCode': ['XZZX'],
    'RhombicToricCode': ['Checkerboard XZZX'], 'RhombicPlanarCode': ['Checkerboard XZZX'],
    'HollowRhombicCode': ['Checkerboard XZZX'], 'HollowPlanar3DCode': [],
}
# decoder -> allowed code classes (None = any); fixed a priori from the documented allowed_codes
DECODER_CODES = {
    'MatchingDecoder': ['Toric2DCode', 'Planar2DCode', 'RotatedPlanar2DCode'],
    'UnionFindDecoder': ['Toric2DCode'],
    'SweepMatchDecoder': ['Toric3DCode', 'Planar3DCode'],
    'RotatedSweepMatchDecoder': ['RotatedToric3DCode', 'RotatedPlanar3DCode'],
    'XCubeMatchingDecoder': ['XCubeCode'],
    'BeliefPropagationOSDDecoder': None,
    'MemoryBeliefPropagationDecoder': None,
}
# MemoryBeliefPropagationDecoder builds its message tables eagerly in pure Python when the reader
# constructs it (7-50 CPU-s per 30 invocations, measured); it is paired with the toric/planar classes
# only, which keeps every registered decoder and every class in the box at ~1/5 of the cost.
MBP_CLASSES = ['Toric2DCode', 'Planar2DCode', 'RotatedPlanar2DCode', 'Toric3DCode', 'Planar3DCode',
               'RotatedPlanar3DCode']
SIZES_2D = ['3x3', '3x3,5x5']
SIZES_3D = ['2x3x4,3x3x3']
BIASES = ['X', 'Y', 'Z']
ETAS = ['0.5', '10', 'inf', '0.5,10', '1,3,inf', '2,2.5,30']      # the last: ratios that are close together
# part 'eta': spellings of one bias ratio.  The value of a spelling is float(spelling) (what the command line
# documents: a number or inf); every spelling float() maps to +infinity is an infinite ratio.  Every spelling
# below is such a number, so the command must accept each of them alone (kind bias-ratio-spelling-refused:
# D23, `--eta 3.0` raised ValueError, fixed in /repo) and a list exactly when it accepts the members.
ETA_SPELLINGS = {
    'inf': ['inf', 'Inf', 'INF', 'infinity', 'Infinity', 'INFINITY', '+inf', '+Infinity', '1e999', ' inf', 'inf '],
    '3': ['3', '3.0', '3e0', '+3', ' 3', '3 ', '03', '3.', '30e-1'],
    '2.5': ['2.5', '2.50', '+2.5', '25e-1', ' 2.5', '.25e1'],
}
# part 'sizes': size lists with multi-digit components, mixed with single-digit ones.  Judged at the level of
# the written specification (L_x/L_y/L_z of every listed size) and, through the real reader with a decoder that
# is cheap to construct, as simulations whose code.size is the request; the noise model is not evaluated on
# these codes (light), so nothing large is ever built.
SIZE_LISTS = {
    'Toric2DCode': ['10', '4x10', '10x4', '12x12', '3x12', '100', '3x100', '100x100', '3,10', '10,3x5', '4x10,3',
                    '9x9,10x10,11x11', '5x5,100x3'],
    'Toric3DCode': ['10', '2x3x10', '10x2x3', '2x10x3', '12x12x12', '3x12', '100x2x2', '2x3x4,10x10x10', '10,3',
                    '3x5,4x10x2', '2x2x2,100x100x100'],
}
SIZES_DECODER = 'BeliefPropagationOSDDecoder'
SIZES_ETAS = ['0.5', '0.5,10']
# part 'decoders': every registered decoder on the smallest code it allows: the written decoder parameters
# must be constructor arguments of that class, equal the defaults generate-input documents for that class, and
# the real reader must construct the decoder from them
DECODER_SMALLEST = {
    'MatchingDecoder': ('Toric2DCode', '2x2'), 'UnionFindDecoder': ('Toric2DCode', '2x2'),
    'BeliefPropagationOSDDecoder': ('Toric2DCode', '2x2'), 'MemoryBeliefPropagationDecoder': ('Toric2DCode', '2x2'),
    'SweepMatchDecoder': ('Toric3DCode', '2x2x2'), 'RotatedSweepMatchDecoder': ('RotatedPlanar3DCode', '2x2x2'),
    'XCubeMatchingDecoder': ('XCubeCode', '2x2x2'),
}
DOCUMENTED_DECODER_PARAMETERS = {'BeliefPropagationOSDDecoder': {'max_bp_iter': 1000, 'osd_order': 100}}   # else {}
READER_SUPPLIED = ('self', 'code', 'error_model', 'error_rate')      # constructor arguments the reader fills in
DECODERS_PROBS = ['0.1', '0.05,0.1,0.2']
ETA_COMPANIONS = ['0.5', '10']         # finite ratios a spelling is listed with, at every list position
ETA_TRIPLE = ('Toric2DCode', '3x3', 'BeliefPropagationOSDDecoder')
ETA_PROB = '0.1'
# single value, lists and ranges; two of them start at an error rate of exactly 0
PROBS = ['0.1', '0,0.1', '0.05,0.1,0.2', '0.1:0.3:0.1', '0:0.1:0.05']
# rates on grids finer than 1e-4 (single, list, range): they must come back exactly, not rounded
PROBS_FINE = ['0.00125', '0.00005,0.0001,0.00015', '0.001:0.002:0.00025']
# quick: the fine-grid specs are paired with the decoders that cost nothing to construct on read-back
# (the rate list is written by generate-input before the decoder name matters); thorough: with all
FINE_QUICK_DECODERS = ['BeliefPropagationOSDDecoder', 'UnionFindDecoder']
RATE_RTOL = 1e-12      # a rate read back equals a requested rate when |p - r| <= RATE_RTOL * |r| (r = 0: p == 0)
METHODS = ['direct', 'splitting']
LABELS = [None, 'a']
NOISE = 'PauliErrorModel'

STEPS_FINE = ['0.00025', '0.0001']          # fine steps, with a small max of their own
STEPS_Q = ['0.1', '0.05', '0.02', '0.01'] + STEPS_FINE
STEPS_T = ['0.1', '0.05', '0.02', '0.01', '0.005', '0.001'] + STEPS_FINE
RANGE_MAX = '0.6'
RANGE_MAX_FINE = '0.003'


def _range_max(step):
    return RANGE_MAX_FINE if step in STEPS_FINE else RANGE_MAX


LIST_LEN = 12          # comma-list form: progressions of 2..LIST_LEN values
CHUNK_TRIPLES = 8000   # range triples per case item

BOUNDS = {
    'quick': {
        'generate': {'code_size_decoder': 'sub-box: the (class, size list, decoder) triples of QUICK_TRIPLES',
                     'bias': BIASES, 'eta': ETAS, 'prob': PROBS,
                     'prob_fine_grid': {'specs': PROBS_FINE, 'with_decoders': FINE_QUICK_DECODERS},
                     'deformation': 'None and every name the class offers (CLASS_DEFORMATIONS)',
                     'method': METHODS, 'label': LABELS, 'noise': [NOISE]},
        'range': {'steps': STEPS_Q, 'max': RANGE_MAX, 'max_for_fine_steps': RANGE_MAX_FINE, 'list_len': LIST_LEN},
    },
    'thorough': {
        'generate': {'code_size_decoder': 'all 2-D classes x {3x3; 3x3,5x5} and all 3-D classes whose family holds '
                                          '2x3x4 and 3x3x3 x {2x3x4,3x3x3}, each x every registered decoder that '
                                          'allows the class (MemoryBeliefPropagationDecoder: the six toric/planar '
                                          'classes only)',
                     'mbp_classes': MBP_CLASSES,
                     'classes_2d': DIM2, 'classes_3d': DIM3,
                     'bias': BIASES, 'eta': ETAS, 'prob': PROBS + PROBS_FINE,
                     'deformation': 'None and every name the class offers', 'class_deformations': CLASS_DEFORMATIONS,
                     'own_sizes': DIM3_OWN_SIZES,
                     'method': METHODS, 'label': LABELS, 'noise': [NOISE]},
        'range': {'steps': STEPS_T, 'max': RANGE_MAX, 'max_for_fine_steps': RANGE_MAX_FINE, 'list_len': LIST_LEN},
    },
}
BUDGET_S = {'quick': 600, 'thorough': 3600}

QUICK_TRIPLES = [
    ('Toric2DCode', '3x3', 'MatchingDecoder'),
    ('Toric2DCode', '3x3', 'BeliefPropagationOSDDecoder'),
    ('Toric2DCode', '3x3', 'UnionFindDecoder'),
    # (Toric2DCode, '3x3,5x5', MatchingDecoder) is left to thorough: matcher construction dominates the cost
    # and two-size Matching lists are exercised by '4,3x5' below
    ('Toric2DCode', '3x3,5x5', 'BeliefPropagationOSDDecoder'),
    ('Toric2DCode', '3x3,5x5', 'UnionFindDecoder'),
    ('Toric3DCode', '2x3x4,3x3x3', 'SweepMatchDecoder'),
    ('Toric3DCode', '2x3x4,3x3x3', 'BeliefPropagationOSDDecoder'),
    # size strings with fewer components than the lattice dimension: the missing lengths default to L_x,
    # as in the code constructors (3x5 on a 3-D class is 3x5x3, 4 is 4x4x4 / 4x4)
    ('Toric3DCode', '3x5,4', 'BeliefPropagationOSDDecoder'),
    ('Toric2DCode', '4,3x5', 'MatchingDecoder'),
    # a class whose deformation name is mixed case with a blank ('Checkerboard XZZX')
    ('RhombicPlanarCode', '2x3x4,3x3x3', 'BeliefPropagationOSDDecoder'),
]
BOUNDS['quick']['generate']['triples'] = [list(t) for t in QUICK_TRIPLES]
for _t in ('quick', 'thorough'):
    BOUNDS[_t]['sizes'] = {'size_lists': SIZE_LISTS, 'decoder': SIZES_DECODER, 'eta': SIZES_ETAS, 'prob': ETA_PROB,
                           'bias': ['Z'], 'method': METHODS}
    BOUNDS[_t]['decoders'] = {'smallest_code': {k: list(v) for k, v in DECODER_SMALLEST.items()},
                              'documented_parameters': DOCUMENTED_DECODER_PARAMETERS, 'prob': DECODERS_PROBS,
                              'eta': SIZES_ETAS, 'bias': ['Z'], 'method': METHODS}
    BOUNDS[_t]['eta'] = {'spellings': ETA_SPELLINGS, 'companions': ETA_COMPANIONS, 'triple': list(ETA_TRIPLE),
                         'prob': ETA_PROB, 'bias': BIASES,
                         'methods': ['direct'] if _t == 'quick' else METHODS,
                         'lists': 'alone; with the companions at every position of 2- and 3-element lists; '
                                  'every (finite spelling, infinite spelling) pair in both orders',
                         'direct_calls': 'get_direction_from_bias_ratio(bias, v) for v in float/np/math '
                                         'infinities and int/float/np scalars of 0.5, 3, 10'}


# --------------------------------------------------------------------------- case lists

def _decoder_table():
    """Registered decoders with the classes they allow: the a-priori table, restricted to what is registered;
    a registered decoder the table does not know is taken with its own allowed_codes."""
    from panqec.config import DECODERS
    table = {}
    for name, klass in DECODERS.items():
        table[name] = DECODER_CODES[name] if name in DECODER_CODES else getattr(klass, 'allowed_codes', None)
    return table


def _decoders_for(cls, table):
    return [d for d, allowed in table.items()
            if (allowed is None or cls in allowed)
            and (d != 'MemoryBeliefPropagationDecoder' or cls in MBP_CLASSES)]


def _thorough_triples():
    table = _decoder_table()
    out = []
    for cls in DIM2:
        for s in SIZES_2D:
            for dec in _decoders_for(cls, table):
                out.append((cls, s, dec))
    for cls in DIM3:
        for s in SIZES_3D:
            for dec in _decoders_for(cls, table):
                out.append((cls, s, dec))
    for cls, size_lists in DIM3_OWN_SIZES.items():
        for s in size_lists:
            for dec in _decoders_for(cls, table):
                out.append((cls, s, dec))
    out += [t for t in QUICK_TRIPLES if t[1] in ('3x5,4', '4,3x5')]
    return out


def _deformations_for(cls):
    """None plus every documented deformation name the class (still) offers."""
    from panqec.config import CODES
    offered = list(getattr(CODES.get(cls), 'deformation_names', []) or [])
    return [None] + [d for d in CLASS_DEFORMATIONS.get(cls, []) if d in offered]


def _dstr(x):
    s = format(x.normalize(), 'f')
    return '0' if s in ('-0', '0') else s


def _range_cases(steps):
    out = []
    for step in steps:
        n = int(Decimal(_range_max(step)) / Decimal(step))
        a_lo, acc = 0, 0
        for a in range(n):
            acc += n - a
            if acc >= CHUNK_TRIPLES or a == n - 1:
                out.append({'part': 'range', 'step': step, 'a_lo': a_lo, 'a_hi': a})
                a_lo, acc = a + 1, 0
    return out


# (deformation, eta, prob, method) alphabet of the history part
_HISTORY_ALPHABET = [(d, e, pr, 'direct') for d in (None, 'XZZX') for e in ('0.5', '10', '0.5,10')
                     for pr in ('0.1', '0.1:0.3:0.1')]


def cases(tier, seed):
    registered = _decoder_table()
    triples = [t for t in QUICK_TRIPLES if t[2] in registered] if tier == 'quick' else _thorough_triples()
    steps = STEPS_Q if tier == 'quick' else STEPS_T
    gen = []
    for cls, sizes, dec in triples:
        for method in METHODS:
            for deformation in _deformations_for(cls):
                for bias in BIASES:
                    # the slow decoder gets one case item per eta list to keep items balanced
                    groups = [[e] for e in ETAS] if dec == 'MemoryBeliefPropagationDecoder' else [ETAS]
                    for etas in groups:
                        fine = tier != 'quick' or dec in FINE_QUICK_DECODERS
                        gen.append({'part': 'generate', 'cls': cls, 'sizes': sizes, 'decoder': dec,
                                    'method': method, 'deformation': deformation, 'bias': bias,
                                    'etas': list(etas), 'probs': PROBS + (PROBS_FINE if fine else [])})
    # histories: several generate-input invocations in ONE process (a session / a script calling the
    # command repeatedly); every invocation is judged by the same absolute oracle as when run alone
    hist = []
    for cls, sizes, dec in ([triples[0]] if tier == 'quick' else triples[:6]):
        for bias in BIASES:
            for first in range(len(_HISTORY_ALPHABET)):
                hist.append({'part': 'history', 'cls': cls, 'sizes': sizes, 'decoder': dec, 'bias': bias,
                             'first': first})
    eta_cases = [{'part': 'direction-fn'}]
    for method in (['direct'] if tier == 'quick' else METHODS):
        for bias in BIASES:
            for family in ETA_SPELLINGS:
                eta_cases.append({'part': 'eta', 'bias': bias, 'family': family, 'method': method})
    spec_cases = []
    for dec in registered:
        if dec in DECODER_SMALLEST:
            spec_cases.append({'part': 'decoders', 'decoder': dec})
    for cls in SIZE_LISTS:
        for method in METHODS:
            spec_cases.append({'part': 'sizes', 'cls': cls, 'method': method})
    rng = _range_cases(steps)
    # simplest first: the coarsest range step, the simplest command lines of either method, then the rest
    head = [c for c in rng if c['step'] == '0.1']
    first = triples[0]
    head += [c for c in gen if (c['cls'], c['sizes'], c['decoder']) == first
             and c['deformation'] is None and c['bias'] == 'X']
    rest_rng = [c for c in rng if c not in head]
    rest_gen = [c for c in gen if c not in head]
    # slow decoder cases early so that the pool stays balanced
    rest_gen.sort(key=lambda c: 0 if c['decoder'] == 'MemoryBeliefPropagationDecoder' else 1)
    return head + rest_rng + spec_cases + eta_cases + rest_gen + hist


# --------------------------------------------------------------------------- oracle helpers

def _expected_rates(prob):
    """(list of exact Decimal rates, max Decimal or None) from the --prob string, no panqec code."""
    if ':' in prob:
        lo, hi, step = [Decimal(x) for x in prob.split(':')]
        n = int(((hi - lo) / step).to_integral_value())
        return [lo + i * step for i in range(n + 1)], hi
    return [Decimal(x) for x in prob.split(',')], None


def _eta_value(eta):
    """None for an infinite ratio, else the exact rational value of a bias-ratio spelling; the value of a
    spelling is its float() value (so 1e999 is infinite), taken exactly from the decimal string when finite."""
    import math
    v = float(eta.strip())
    if math.isinf(v) and v > 0:
        return None
    try:
        return Fraction(eta.strip())
    except ValueError:
        return Fraction(v)


def _expected_direction(bias, eta):
    """Exact rational (r_x, r_y, r_z) for a bias axis and a bias-ratio string."""
    e = _eta_value(eta)
    if e is None:
        r_b, r_o = Fraction(1), Fraction(0)
    else:
        r_b, r_o = e / (1 + e), 1 / (2 * (1 + e))
    return tuple(r_b if ax == bias else r_o for ax in 'XYZ')


def _dir_close(d, exp, tol=1e-12):
    return len(d) == 3 and all(abs(float(d[i]) - float(exp[i])) <= tol for i in range(3))


def _raw_directions(path):
    """(r_x, r_y, r_z) triples of every error-model parameter set in an input file (own JSON walk)."""
    with open(path) as f:
        data = json.load(f)
    out = []
    ranges = data.get('ranges', [])
    for r in (ranges if isinstance(ranges, list) else [ranges]):
        params = r.get('error_model', {}).get('parameters', [])
        for p in (params if isinstance(params, list) else [params]):
            if isinstance(p, dict) and all(k in p for k in ('r_x', 'r_y', 'r_z')):
                out.append((p['r_x'], p['r_y'], p['r_z']))
    return out


def _spec_problems(path, name, cls, dec, size_strings, dim):
    """The written specification judged without building anything: every ranges block lists exactly the requested
    sizes (L_x, L_y[, L_z] with the constructor convention missing length = L_x) and decoder parameters that are
    constructor arguments of the decoder class and equal the documented defaults for that class."""
    import inspect
    from panqec.config import DECODERS
    problems = []
    with open(path) as f:
        data = json.load(f)
    want = []
    for sz in size_strings:
        c = [int(x) for x in sz.split('x')]
        full = [c[0], c[1] if len(c) >= 2 else c[0], c[2] if len(c) >= 3 else c[0]]
        want.append(tuple(full[:dim]))
    ranges = data.get('ranges', [])
    for block in (ranges if isinstance(ranges, list) else [ranges]):
        # sizes
        params = block.get('code', {}).get('parameters')
        plist = params if isinstance(params, list) and (not params or isinstance(params[0], (dict, list))) \
            else [params]
        got = []
        for prm in plist:
            if isinstance(prm, dict) and 'L_x' in prm:
                full = [prm.get('L_x'), prm.get('L_y', prm.get('L_x')), prm.get('L_z', prm.get('L_x'))]
            elif isinstance(prm, list) and prm:
                full = list(prm) + [prm[0]] * (3 - len(prm))
            else:
                got = None          # a layout this walk does not know: left to the read-back comparison
                break
            got.append(tuple(full[:dim]))
        if got is not None and sorted(map(repr, got)) != sorted(map(repr, want)):
            problems.append(('spec-size-wrong', {'file': name, 'written': [list(g) for g in got],
                                                 'requested': [list(w) for w in want],
                                                 'written_parameters': plist[:6]}))
        # decoder parameters
        dblock = block.get('decoder', {})
        dparams = dblock.get('parameters', {})
        klass = DECODERS.get(dblock.get('name', dec))
        for prm in (dparams if isinstance(dparams, list) else [dparams]):
            if not isinstance(prm, dict) or klass is None:
                continue
            sig = inspect.signature(klass.__init__).parameters
            open_kwargs = any(v.kind is inspect.Parameter.VAR_KEYWORD for v in sig.values())
            bad = [k for k in prm if k in READER_SUPPLIED or (k not in sig and not open_kwargs)]
            if bad:
                problems.append(('decoder-parameters-rejected', {
                    'file': name, 'decoder': dblock.get('name'), 'written': prm, 'not_constructor_arguments': bad,
                    'constructor': [k for k in sig if k not in READER_SUPPLIED]}))
            if prm != DOCUMENTED_DECODER_PARAMETERS.get(dec, {}):
                problems.append(('decoder-parameters-wrong', {
                    'file': name, 'decoder': dblock.get('name'), 'written': prm,
                    'documented': DOCUMENTED_DECODER_PARAMETERS.get(dec, {})}))
    return problems


def _digest(obj):
    return hashlib.sha1(json.dumps(obj, sort_keys=True).encode()).hexdigest()[:10]


# --------------------------------------------------------------------------- part 'generate'

def _one_invocation(case, eta, prob, label, dim):
    """Run one generate-input command line, read the files back, return (problems, info).

    problems: list of (kind, detail dict); info: dict of small observables."""
    from click.testing import CliRunner
    from panqec.cli import cli
    from panqec.config import CODES, DECODERS
    from panqec.simulation import read_input_json

    cls, sizes, dec = case['cls'], case['sizes'], case['decoder']
    method, deformation, bias = case['method'], case['deformation'], case['bias']
    size_list = []
    for s in sizes.split(','):
        comps = [int(x) for x in s.split('x')][:dim]
        comps += [comps[0]] * (dim - len(comps))        # constructor convention: missing lengths = L_x
        size_list.append(tuple(comps))
    eta_list = [e.strip() for e in eta.split(',')]
    exp_dirs = [_expected_direction(bias, e) for e in eta_list]
    rates, rate_max = _expected_rates(prob)
    frates = [float(r) for r in rates]
    problems = []
    info = {'files': 0, 'sims': 0, 'units': 0}

    d = tempfile.mkdtemp(prefix='c19_', dir='/dev/shm' if os.path.isdir('/dev/shm') else None)
    try:
        args = ['generate-input', '-d', d, '--code_class', cls, '--noise_class', NOISE,
                '--decoder_class', dec, '-s', sizes, '--bias', bias, '--eta', eta, '--prob', prob,
                '-m', method]
        if deformation is not None:
            args += ['--deformation_name', deformation]
        if label is not None:
            args += ['-l', label]
        result = CliRunner().invoke(cli, args)
        if result.exit_code != 0 or result.exception is not None:
            problems.append(('generate-fails', {
                'exit_code': result.exit_code,
                'exception': '%s: %s' % (type(result.exception).__name__, str(result.exception)[:200])}))
            return problems, info
        input_dir = os.path.join(d, 'inputs')
        files = sorted(os.listdir(input_dir)) if os.path.isdir(input_dir) else []
        info['files'] = len(files)
        info['file_names'] = files

        # ---- the written specification itself (nothing is built)
        for name in files:
            try:
                problems += _spec_problems(os.path.join(input_dir, name), name, cls, dec, sizes.split(','), dim)
            except (ValueError, KeyError, TypeError, AttributeError) as exc:
                problems.append(('spec-unparsable', {'file': name, 'exc': type(exc).__name__,
                                                     'message': str(exc)[:200]}))

        # ---- read back with the real reader
        sims = []
        unreadable = []
        for i, name in enumerate(files):
            try:
                with contextlib.redirect_stdout(io.StringIO()), contextlib.redirect_stderr(io.StringIO()):
                    batch = read_input_json(os.path.join(input_dir, name), os.path.join(d, 'out%d.json' % i))
                    sims += [(name, batch[j]) for j in range(len(batch))]
            except Exception as exc:
                unreadable.append((name, type(exc).__name__, str(exc)[:200]))
        info['sims'] = len(sims)
        for name, exc, msg in unreadable:
            problems.append(('unreadable-input', {'file': name, 'exc': exc, 'message': msg}))

        # ---- which requested bias ratios have a specification at all
        if unreadable:
            import math
            present_dirs = []
            for name in files:
                try:
                    raw = _raw_directions(os.path.join(input_dir, name))
                except Exception:
                    continue
                present_dirs += raw
                for rd in raw:
                    # the written direction itself: finite, sums to 1, matches a requested ratio
                    vals = [float(x) if isinstance(x, (int, float)) else float('nan') for x in rd]
                    if (not all(math.isfinite(x) for x in vals) or abs(sum(vals) - 1.0) > 1e-12
                            or not any(_dir_close(vals, ed) for ed in exp_dirs)):
                        problems.append(('direction-wrong', {
                            'file': name, 'written_direction': [repr(x) for x in rd], 'expected_one_of': [
                                [float(x) for x in ed] for ed in exp_dirs]}))
        else:
            present_dirs = [tuple(s.error_model.direction) for _, s in sims]
        lost = [k for k, ed in enumerate(exp_dirs) if not any(_dir_close(pd, ed) for pd in present_dirs)]
        n_found = len({tuple(repr(round(float(x), 12)) for x in pd) for pd in present_dirs})
        if lost and n_found >= len(eta_list):
            # as many specifications as bias ratios: none was overwritten; a direction that matches no
            # request is judged below (direction-wrong / missing-simulation)
            lost = []
        if lost:
            problems.append(('bias-ratio-file-overwritten', {
                'message': 'no specification under inputs/ carries the direction of bias ratio(s) %s'
                           % [eta_list[k] for k in lost],
                'files': files, 'requested': eta_list,
                'directions_found': sorted({tuple(repr(round(float(x), 6)) for x in pd) for pd in present_dirs})}))
        if unreadable:
            return problems, info

        # ---- the noise model read back must be usable on the code it is paired with
        tried = set()
        for name, s in ([] if case.get('light') else sims):
            pair = (id(s.error_model), id(s.code))
            if pair in tried:
                continue
            tried.add(pair)
            rate = float(s.error_rate) if hasattr(s, 'error_rate') else float(list(s.error_rates)[0])
            try:
                with contextlib.redirect_stdout(io.StringIO()):
                    dist = s.error_model.probability_distribution(s.code, rate)
                if len(dist) != 4 or any(len(x) != s.code.n for x in dist):
                    raise ValueError('probability_distribution returned a wrong shape')
            except Exception as exc:
                problems.append(('noise-unusable', {
                    'file': name, 'size': list(s.code.size), 'requested_deformation': deformation,
                    'read_back_deformation': s.error_model.params.get('deformation_name'),
                    'exc': type(exc).__name__, 'message': str(exc)[:200]}))
        info['noise_pairs'] = len(tried)

        # ---- multiset comparison: unit = (size index, eta index, rate index)
        units = {}
        sims_per_cell = {}
        for name, s in sims:
            direction = tuple(float(x) for x in s.error_model.direction)
            where = {'file': name, 'size': list(s.code.size), 'direction': list(direction)}
            k_eta = [k for k, ed in enumerate(exp_dirs) if _dir_close(direction, ed)]
            if not k_eta or abs(sum(direction) - 1.0) > 1e-12:
                problems.append(('direction-wrong', dict(where, expected_one_of=[
                    [float(x) for x in ed] for ed in exp_dirs], sum=sum(direction))))
                continue
            ok = True
            if type(s.code) is not CODES[cls]:
                problems.append(('unexpected-simulation', dict(where, message='code class %s, requested %s'
                                                               % (type(s.code).__name__, cls))))
                ok = False
            size = tuple(int(x) for x in s.code.size)
            if size not in size_list:
                problems.append(('unexpected-simulation', dict(where, message='size not requested')))
                ok = False
            if s.error_model.params.get('deformation_name') != deformation:
                problems.append(('deformation-wrong', dict(where, read_back=s.error_model.params.get(
                    'deformation_name'), requested=deformation)))
                ok = False
            if type(s.error_model).__name__ != NOISE:
                problems.append(('unexpected-simulation', dict(where, message='noise class')))
                ok = False
            if method == 'direct':
                kind_ok = type(s).__name__ == 'DirectSimulation'
                sim_rates = [float(s.error_rate)] if kind_ok else []
                decoders = [s.decoder] if kind_ok else []
            else:
                kind_ok = type(s).__name__ == 'SplittingSimulation'
                sim_rates = [float(x) for x in s.error_rates] if kind_ok else []
                decoders = list(s.decoders) if kind_ok else []
            if not kind_ok:
                problems.append(('unexpected-simulation', dict(where, message='%s for method %s'
                                                               % (type(s).__name__, method))))
                ok = False
            if any(type(x) is not DECODERS[dec] for x in decoders) or len(decoders) != len(sim_rates):
                problems.append(('unexpected-simulation', dict(where, message='decoder class/count differs')))
                ok = False
            if not ok:
                continue
            cell = (size_list.index(size), k_eta[0])
            sims_per_cell[cell] = sims_per_cell.get(cell, 0) + 1
            for p in sim_rates:
                k_rate = [k for k, fr in enumerate(frates) if abs(p - fr) <= RATE_RTOL * abs(fr)]
                if not k_rate:
                    if rate_max is not None and p > float(rate_max) + 1e-9:
                        problems.append(('range-overshoots-max', dict(where, error_rate=p, max=str(rate_max))))
                    else:
                        problems.append(('unexpected-simulation', dict(where, error_rate=p,
                                                                       message='error rate not requested')))
                    continue
                u = cell + (k_rate[0],)
                units[u] = units.get(u, 0) + 1
        info['units'] = len(units)
        for si in range(len(size_list)):
            for ei in range(len(eta_list)):
                if ei in lost:
                    info['lost_units'] = info.get('lost_units', 0) + len(rates)
                    continue
                if method == 'splitting' and sims_per_cell.get((si, ei), 0) > 1:
                    problems.append(('duplicate-simulation', {
                        'size': list(size_list[si]), 'eta': eta_list[ei],
                        'message': '%d splitting simulations for one (size, bias ratio)' % sims_per_cell[(si, ei)]}))
                for ri in range(len(rates)):
                    c = units.get((si, ei, ri), 0)
                    if c == 0:
                        problems.append(('missing-simulation', {
                            'size': list(size_list[si]), 'eta': eta_list[ei], 'error_rate': str(rates[ri])}))
                    elif c > 1 and not (method == 'splitting' and sims_per_cell.get((si, ei), 0) > 1):
                        problems.append(('duplicate-simulation', {
                            'size': list(size_list[si]), 'eta': eta_list[ei], 'error_rate': str(rates[ri]),
                            'count': c}))
        return problems, info
    finally:
        shutil.rmtree(d, ignore_errors=True)


def _eval_generate(case):
    res = {'evals': 0, 'nontrivial': 0, 'skipped': 0, 'violations': [], 'samples': [], 'outcomes': [],
           'extra': {'generate_invocations': 0, 'files_read_back': 0, 'simulations_read_back': 0,
                     'problems_total': 0}}
    cls = case['cls']
    dim = 2 if cls in DIM2 else 3
    if case['deformation'] not in _deformations_for(cls):
        # the class does not offer this deformation: such a specification is a user error, not part of the box
        res['extra']['outside_box_deformation'] = len(case['etas']) * len(PROBS) * len(LABELS)
        return res
    seen = set()
    emitted = {}
    outcomes = set()
    # simplest first: fewer bias ratios, fewer rates
    for eta in sorted(case['etas'], key=lambda e: (e.count(','), ETAS.index(e))):
        for prob in case.get('probs', PROBS):
            for label in LABELS:
                problems, info = _one_invocation(case, eta, prob, label, dim)
                res['evals'] += 1
                res['extra']['generate_invocations'] += 1
                res['extra']['files_read_back'] += info['files']
                res['extra']['simulations_read_back'] += info['sims']
                res['extra']['problems_total'] += len(problems)
                n_eta = eta.count(',') + 1
                n_grid = (case['sizes'].count(',') + 1) * n_eta * len(_expected_rates(prob)[0])
                if n_grid > 1 and info['files'] > 0:
                    seen.add(_digest([case, eta, prob, label]))
                outcomes.add('%s|f%d|s%d|u%d/%d|%s' % (case['method'][0], info['files'], info['sims'], info['units'],
                                                       n_grid, ','.join(sorted({k for k, _ in problems})) or 'ok'))
                by_kind = {}
                for kind, detail in problems:
                    res['extra']['n_' + kind] = res['extra'].get('n_' + kind, 0) + 1
                    by_kind.setdefault(kind, []).append(detail)
                for kind, details in by_kind.items():
                    if emitted.get(kind, 0) >= 1 or len(res['violations']) >= 5:
                        continue
                    emitted[kind] = emitted.get(kind, 0) + 1
                    key = {'part': 'generate', 'kind': kind, 'method': case['method'], 'n_eta': n_eta,
                           'cls': cls, 'sizes': case['sizes'], 'decoder': case['decoder'], 'bias': case['bias'],
                           'eta': eta, 'prob': prob, 'deformation': case['deformation'], 'label': label}
                    if kind == 'unreadable-input':
                        key['exc'] = details[0].get('exc')
                    if kind == 'range-overshoots-max':
                        key['step'] = prob.split(':')[2] if prob.count(':') == 2 else None
                    res['violations'].append({'key': key, 'detail': dict(
                        details[0], occurrences_in_this_invocation=len(details),
                        files=info.get('file_names'), simulations_read=info['sims'])})
                if len(res['samples']) < 2 and n_grid > 1:
                    res['samples'].append({'cls': cls, 'sizes': case['sizes'], 'decoder': case['decoder'],
                                           'method': case['method'], 'bias': case['bias'], 'eta': eta, 'prob': prob,
                                           'deformation': case['deformation'], 'label': label,
                                           'files': info.get('file_names'), 'simulations': info['sims'],
                                           'grid_points_matched': info['units'], 'grid_points_requested': n_grid})
    res['nontrivial'] = len(seen)
    res['outcomes'] = sorted(outcomes)[:50]
    return res


# --------------------------------------------------------------------------- part 'range'

def _eval_range(case):
    import numpy as np
    from panqec.cli import read_range_input

    step_s = case['step']
    step = Decimal(step_s)
    n = int(Decimal(_range_max(step_s)) / step)
    grid_d = [i * step for i in range(n + 1)]
    grid_s = [_dstr(x) for x in grid_d]
    grid_f = np.array([float(s) for s in grid_s])
    fstep = float(step_s)
    res = {'evals': 0, 'nontrivial': 0, 'violations': [], 'samples': [], 'outcomes': [],
           'extra': {'range_specs': 0, 'list_specs': 0, 'single_specs': 0, 'problems_total': 0}}
    emitted = {}
    outcomes = set()

    def report(kind, form, spec, a, b, detail):
        res['extra']['problems_total'] += 1
        res['extra']['n_' + kind] = res['extra'].get('n_' + kind, 0) + 1
        if emitted.get(kind, 0) >= 2 or len(res['violations']) >= 5:
            return
        emitted[kind] = emitted.get(kind, 0) + 1
        res['violations'].append({
            'key': {'part': 'range', 'kind': kind, 'method': None, 'n_eta': None, 'step': step_s, 'form': form,
                    'spec': spec},
            'detail': detail})

    def check(form, spec, a, b):
        """read_range_input(spec) must be grid[a..b]."""
        try:
            got = read_range_input(spec)
        except Exception as exc:
            report('range-raises', form, spec, a, b, {'exc': type(exc).__name__, 'message': str(exc)[:200]})
            outcomes.add(form + '|raises')
            return
        res['evals'] += 1
        want = grid_f[a:b + 1]
        got_a = np.asarray(got, dtype=float)
        outcomes.add('%s|%+d' % (form, len(got_a) - len(want)))
        tail = {'returned_count': int(len(got_a)), 'expected_count': int(len(want)),
                'returned_tail': [float(x) for x in got_a[-3:]], 'expected_last': float(want[-1])}
        if len(got_a) and got_a[-1] > float(grid_f[b]) + 1e-9:
            report('range-overshoots-max', form, spec, a, b, tail)
        if len(got_a) != len(want):
            report('range-wrong-count', form, spec, a, b, tail)
        # first == min and every common element on the progression (count is judged above)
        m = min(len(got_a), len(want))
        if m and bool(np.any(np.abs(got_a[:m] - want[:m]) > RATE_RTOL * np.abs(want[:m]))):
            report('range-wrong-values', form, spec, a, b, dict(tail, returned_head=[float(x) for x in got_a[:3]],
                                                                expected_head=[float(x) for x in want[:3]]))

    nontriv = 0
    pairs = [(a, b) for a in range(case['a_lo'], case['a_hi'] + 1) for b in range(a + 1, n + 1)]
    pairs.sort(key=lambda ab: (ab[1] - ab[0], ab[0]))          # shortest progressions first
    for a, b in pairs:
        spec = '%s:%s:%s' % (grid_s[a], grid_s[b], step_s)
        check('range', spec, a, b)
        res['extra']['range_specs'] += 1
        if float(grid_s[a]) + (b - a) * fstep != float(grid_s[b]):
            nontriv += 1
        if len(res['samples']) < 2 and b - a >= 3 and (a, b) == pairs[len(pairs) // 2]:
            res['samples'].append({'spec': spec, 'expected_count': b - a + 1})
    for a in range(case['a_lo'], case['a_hi'] + 1):
        check('single', grid_s[a], a, a)
        res['extra']['single_specs'] += 1
        for b in range(a + 1, min(a + LIST_LEN - 1, n) + 1):
            check('list', ','.join(grid_s[a:b + 1]), a, b)
            res['extra']['list_specs'] += 1
    if case['a_hi'] == n - 1:
        check('single', grid_s[n], n, n)
        res['extra']['single_specs'] += 1
    res['nontrivial'] = nontriv
    res['outcomes'] = sorted(outcomes)[:50]
    return res


def _eval_history(case):
    res = {'evals': 0, 'nontrivial': 0, 'skipped': 0, 'violations': [], 'samples': [], 'outcomes': [],
           'extra': {'history_invocations': 0, 'history_problems_total': 0}}
    cls = case['cls']
    dim = 2 if cls in DIM2 else 3
    alphabet = [a for a in _HISTORY_ALPHABET if a[0] is None or cls in HAS_XZZX]
    if case['first'] >= len(alphabet):
        return res
    order = [alphabet[case['first']]] + alphabet          # first invocation, then every invocation after it
    outcomes = set()
    for pos, (deformation, eta, prob, method) in enumerate(order):
        sub = {'cls': cls, 'sizes': case['sizes'], 'decoder': case['decoder'], 'method': method,
               'deformation': deformation, 'bias': case['bias']}
        problems, info = _one_invocation(sub, eta, prob, None, dim)
        res['evals'] += 1
        res['extra']['history_invocations'] += 1
        res['extra']['history_problems_total'] += len(problems)
        if pos > 0:
            res['nontrivial'] += 1
        outcomes.add('h|f%d|s%d|%s' % (info['files'], info['sims'], ','.join(sorted({k for k, _ in problems})) or 'ok'))
        for kind, detail in problems[:1]:
            if len(res['violations']) < 3:
                res['violations'].append({
                    'key': {'part': 'history', 'kind': kind, 'cls': cls, 'sizes': case['sizes'],
                            'decoder': case['decoder'], 'bias': case['bias'], 'position': pos,
                            'deformation': deformation, 'eta': eta, 'prob': prob,
                            'first_invocation': list(map(str, order[0]))},
                    'detail': dict(detail, history=[list(map(str, o)) for o in order[:pos + 1]])})
    res['samples'].append({'cls': cls, 'bias': case['bias'], 'history': [list(map(str, o)) for o in order[:3]]})
    res['outcomes'] = sorted(outcomes)[:50]
    return res


def _eta_lists(family):
    """[(eta string, [spellings of interest in it])]: alone, with companions at every position, and paired with
    every spelling of the other kind (finite with infinite) in both orders."""
    a, b = ETA_COMPANIONS
    out = []
    for sp in ETA_SPELLINGS[family]:
        out.append((sp, [sp]))
        for lst in ([sp, a], [a, sp], [sp, a, b], [a, sp, b], [a, b, sp]):
            out.append((','.join(lst), [sp]))
    others = ETA_SPELLINGS['inf'] if family != 'inf' else ETA_SPELLINGS['3'] + ETA_SPELLINGS['2.5']
    for sp in ETA_SPELLINGS[family]:
        for ot in others:
            out.append(('%s,%s' % (sp, ot), [sp, ot]))
            out.append(('%s,%s' % (ot, sp), [ot, sp]))
    return out


def _eval_eta(case):
    res = {'evals': 0, 'nontrivial': 0, 'violations': [], 'samples': [], 'outcomes': [],
           'extra': {'eta_invocations': 0, 'eta_refused': 0, 'eta_problems_total': 0}}
    cls, sizes, dec = ETA_TRIPLE
    sub = {'cls': cls, 'sizes': sizes, 'decoder': dec, 'method': case['method'], 'deformation': None,
           'bias': case['bias']}
    dim = 2 if cls in DIM2 else 3
    accepted_alone = {}
    outcomes = set()
    seen = set()
    emitted = {}

    def emit(kind, eta, spellings, detail):
        res['extra']['eta_problems_total'] += 1
        res['extra']['n_' + kind] = res['extra'].get('n_' + kind, 0) + 1
        if emitted.get(kind, 0) >= 2 or len(res['violations']) >= 5:
            return
        emitted[kind] = emitted.get(kind, 0) + 1
        res['violations'].append({
            'key': {'part': 'eta', 'kind': kind, 'method': case['method'], 'n_eta': eta.count(',') + 1,
                    'bias': case['bias'], 'eta': eta, 'spellings': spellings, 'family': case['family'],
                    'cls': cls, 'sizes': sizes, 'decoder': dec, 'prob': ETA_PROB},
            'detail': detail})

    # single spellings first (they define what the command accepts), then the lists, shortest first
    lists = sorted(_eta_lists(case['family']), key=lambda x: (x[0].count(','), 0))
    singles = {sp for fam in ETA_SPELLINGS.values() for sp in fam}
    todo = [(sp, [sp]) for sp in sorted(singles) if not any(sp == e for e, _ in lists)] + lists
    for eta, spellings in todo:
        problems, info = _one_invocation(sub, eta, ETA_PROB, None, dim)
        res['evals'] += 1
        res['extra']['eta_invocations'] += 1
        refused = (len(problems) == 1 and problems[0][0] == 'generate-fails' and info['files'] == 0)
        if ',' not in eta:
            accepted_alone[eta] = not refused
        members = [e for e in eta.split(',')]
        # a list is accepted exactly when each member is accepted alone (members alone were run first)
        should_accept = all(accepted_alone.get(m, True) for m in members)
        if refused:
            res['extra']['eta_refused'] += 1
            outcomes.add('e|refused')
            if ',' not in eta:
                # every spelling in the alphabet is a number float() reads as a positive ratio (or +infinity):
                # the command must write its specification, not refuse it
                emit('bias-ratio-spelling-refused', eta, spellings, dict(problems[0][1], float_value=repr(float(eta))))
            if should_accept and ',' in eta:
                emit('eta-list-refused', eta, spellings, dict(problems[0][1], message=(
                    'every member is accepted on its own but the list is refused')))
            continue
        if not should_accept:
            emit('eta-list-accepted-with-refused-member', eta, spellings,
                 {'refused_alone': [m for m in members if not accepted_alone.get(m, True)]})
        if case['family'] != 'inf' or any(_eta_value(m) is None for m in members):
            seen.add(eta)
        outcomes.add('e|f%d|s%d|%s' % (info['files'], info['sims'], ','.join(sorted({k for k, _ in problems})) or 'ok'))
        by_kind = {}
        for kind, detail in problems:
            by_kind.setdefault(kind, []).append(detail)
        for kind, details in by_kind.items():
            emit(kind, eta, spellings, dict(details[0], occurrences_in_this_invocation=len(details),
                                            files=info.get('file_names'), simulations_read=info['sims']))
    res['nontrivial'] = len(seen)
    res['samples'].append({'bias': case['bias'], 'family': case['family'],
                           'accepted_alone': {k: v for k, v in sorted(accepted_alone.items())}})
    res['outcomes'] = sorted(outcomes)[:50]
    return res


def _eval_direction_fn(case):
    """get_direction_from_bias_ratio called directly with every kind of scalar a caller may hold."""
    import math
    import numpy as np
    from panqec.utils import get_direction_from_bias_ratio
    res = {'evals': 0, 'nontrivial': 0, 'violations': [], 'samples': [], 'outcomes': [],
           'extra': {'direction_fn_calls': 0}}
    values = [('float(inf)', float('inf'), 'inf'), ('np.inf', np.inf, 'inf'),
              ('np.float64(inf)', np.float64('inf'), 'inf'), ('math.inf', math.inf, 'inf'),
              ('np.float32(inf)', np.float32('inf'), 'inf'), ('float(1e999)', float('1e999'), 'inf')]
    for txt in ('0.5', '3', '10'):
        v = float(txt)
        values += [('float(%s)' % txt, v, txt), ('np.float64(%s)' % txt, np.float64(v), txt)]
        if v % 1 == 0:
            values += [('int(%s)' % txt, int(v), txt), ('np.int64(%s)' % txt, np.int64(v), txt)]
    outcomes = set()
    for bias in BIASES:
        for name, v, txt in values:
            exp = _expected_direction(bias, txt)
            res['evals'] += 1
            res['extra']['direction_fn_calls'] += 1
            res['nontrivial'] += int(txt == 'inf' or type(v) is not float)   # not the plain finite float
            problem = None
            try:
                with warnings.catch_warnings():
                    warnings.simplefilter('ignore')
                    got = get_direction_from_bias_ratio(bias, v)
                d = [float(got[k]) for k in ('r_x', 'r_y', 'r_z')]
                if set(got) != {'r_x', 'r_y', 'r_z'}:
                    problem = 'keys %s' % sorted(got)
                elif not all(math.isfinite(x) for x in d):
                    problem = 'not finite'
                elif abs(sum(d) - 1.0) > 1e-12:
                    problem = 'does not sum to 1'
                elif not _dir_close(d, exp):
                    problem = 'does not match the bias'
                outcomes.add('d|%s' % ','.join('%.4g' % x for x in d))
            except Exception as exc:
                d = None
                problem = 'raises %s: %s' % (type(exc).__name__, str(exc)[:120])
                outcomes.add('d|raises')
            if problem:
                res['extra']['n_direction-wrong'] = res['extra'].get('n_direction-wrong', 0) + 1
                if len(res['violations']) < 5:
                    res['violations'].append({
                        'key': {'part': 'direction-fn', 'kind': 'direction-wrong', 'method': None, 'n_eta': 1,
                                'bias': bias, 'eta': name},
                        'detail': {'message': problem, 'returned': repr(d),
                                   'expected': [float(x) for x in exp]}})
    res['samples'].append({'values': [n for n, _, _ in values]})
    res['outcomes'] = sorted(outcomes)[:50]
    return res


def _run_invocations(part, todo, key_extra):
    """todo: [(sub-case, eta, prob)], each judged by _one_invocation; at most one violation per kind."""
    res = {'evals': 0, 'nontrivial': 0, 'violations': [], 'samples': [], 'outcomes': [],
           'extra': {part + '_invocations': 0, part + '_problems_total': 0}}
    outcomes = set()
    emitted = set()
    for sub, eta, prob in todo:
        dim = 2 if sub['cls'] in DIM2 else 3
        problems, info = _one_invocation(sub, eta, prob, None, dim)
        res['evals'] += 1
        res['nontrivial'] += int(info['files'] > 0)
        res['extra'][part + '_invocations'] += 1
        res['extra'][part + '_problems_total'] += len(problems)
        outcomes.add('%s|f%d|s%d|%s' % (part[0], info['files'], info['sims'],
                                        ','.join(sorted({k for k, _ in problems})) or 'ok'))
        by_kind = {}
        for kind, detail in problems:
            res['extra']['n_' + kind] = res['extra'].get('n_' + kind, 0) + 1
            by_kind.setdefault(kind, []).append(detail)
        for kind, details in by_kind.items():
            if kind in emitted or len(res['violations']) >= 5:
                continue
            emitted.add(kind)
            key = {'part': part, 'kind': kind, 'method': sub['method'], 'n_eta': eta.count(',') + 1,
                   'cls': sub['cls'], 'sizes': sub['sizes'], 'decoder': sub['decoder'], 'bias': sub['bias'],
                   'eta': eta, 'prob': prob}
            key.update(key_extra)
            if kind == 'unreadable-input':
                key['exc'] = details[0].get('exc')
            res['violations'].append({'key': key, 'detail': dict(
                details[0], occurrences_in_this_invocation=len(details), files=info.get('file_names'),
                simulations_read=info['sims'])})
        if len(res['samples']) < 2:
            res['samples'].append({'part': part, 'cls': sub['cls'], 'sizes': sub['sizes'], 'decoder': sub['decoder'],
                                   'method': sub['method'], 'eta': eta, 'prob': prob, 'files': info.get('file_names'),
                                   'simulations': info['sims']})
    res['outcomes'] = sorted(outcomes)[:50]
    return res


def _eval_sizes(case):
    todo = []
    # simplest first: single sizes before lists, small before large
    for sizes in sorted(SIZE_LISTS[case['cls']], key=lambda z: (z.count(','), len(z))):
        for eta in SIZES_ETAS:
            todo.append(({'cls': case['cls'], 'sizes': sizes, 'decoder': SIZES_DECODER, 'method': case['method'],
                          'deformation': None, 'bias': 'Z', 'light': True}, eta, ETA_PROB))
    return _run_invocations('sizes', todo, {})


def _eval_decoders(case):
    dec = case['decoder']
    cls, sizes = DECODER_SMALLEST[dec]
    todo = []
    for method in METHODS:
        for eta in SIZES_ETAS:
            for prob in DECODERS_PROBS:
                todo.append(({'cls': cls, 'sizes': sizes, 'decoder': dec, 'method': method, 'deformation': None,
                              'bias': 'Z'}, eta, prob))
    return _run_invocations('decoders', todo, {})


def eval_case(case):
    if case['part'] == 'sizes':
        return _eval_sizes(case)
    if case['part'] == 'decoders':
        return _eval_decoders(case)
    if case['part'] == 'history':
        return _eval_history(case)
    if case['part'] == 'eta':
        return _eval_eta(case)
    if case['part'] == 'direction-fn':
        return _eval_direction_fn(case)
    import warnings
    warnings.filterwarnings('ignore')
    if case['part'] == 'range':
        return _eval_range(case)
    return _eval_generate(case)
