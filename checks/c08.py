"""C08  Clifford deformation is one consistent single-qubit relabelling.

Static part: for every (class, size, deformation name, axis) the per-qubit
table is a fixed permutation (Hadamard exactly on the chosen axis for XZZX,
Y<->Z everywhere for XY), the deformed matrices are the relabelled undeformed
ones, n/k/rank are preserved, the deformed code sees D(e) as the undeformed
code sees e, and the noise model deformed by the same name has
p_def[sigma] = p_undef[D(sigma)].
History part (explicit-state search): all sequences of deform(...) calls and
property accesses on ONE code object up to a depth; after every history the
canonical state equals that of a fresh object deformed by the last deform.
"""
import hashlib
import itertools

import numpy as np

from mc import families as F
from mc import gf2

PROPERTY = 'C08'
LEVEL = 'model_checking'
DESIGN_REF = 'DESIGN.md §4 C08'
TECHNIQUE = ('explicit-state breadth-first exploration of all deform/access operation histories on one live code '
             'object up to a depth (canonical-state comparison with a fresh object), plus bounded exhaustive '
             'enumeration of all (class, size, deformation, axis) for the relabelling identities')
LEVEL_TEXT = ('History independence is a statement about all operation sequences on a stateful object whose caches '
              'are fully observable, so exhaustive search over histories with a canonical state form decides it up '
              'to the depth; the relabelling identities are decided per configuration on a basis (linearity: C03).')
LEVEL_NOTE = ('Trusted: mc/gf2.py and the hand-written Hadamard / Y<->Z tables. Not covered: histories longer than '
              'the depth, sizes above the qubit bound; names other than XZZX/XY are only required to be a fixed '
              'per-qubit permutation applied consistently (the statement names no table for them).')
RULE = ('static: every deformed (class, size, name, axis) in the C01 domain; history: every sequence over '
        '{deform(c) for each offered c} u {7 property accesses} up to the depth on the smallest family size of '
        'each class; states = distinct canonical forms (deformation, kwargs, H, Lx, Lz, coordinates) reached, '
        'transitions = operations applied; non-trivial = histories containing at least one deform')
ASSUMPTIONS = ['size family per class as fixed in DESIGN.md §3', 'GF(2) reference mc/gf2.py',
               'linearity of syndrome/logical effect (C03/C04) extends basis checks to all errors']
BOUNDS = {'quick': {'max_n': 100, 'l_max_2d': 5, 'l_max_3d': 3, 'depth': 3},
          'thorough': {'max_n': 600, 'l_max_2d': 8, 'l_max_3d': 5, 'depth': 4}}

HADAMARD = {'X': 'Z', 'Y': 'Y', 'Z': 'X'}
IDENT = {'X': 'X', 'Y': 'Y', 'Z': 'Z'}
YZ = {'X': 'X', 'Y': 'Z', 'Z': 'Y'}
DEFAULT_AXIS = {'Toric2DCode': 'y', 'Planar2DCode': 'y', 'RotatedPlanar2DCode': 'y', 'Toric3DCode': 'y',
                'RotatedToric3DCode': 'y', 'Planar3DCode': 'z', 'RotatedPlanar3DCode': 'z', 'XCubeCode': 'z'}
ACCESSES = ['stabilizer_matrix', 'logicals_x', 'logicals_z', 'Hx', 'd', 'qubit_index', 'x_indices']
DIRECTIONS = [(0.1, 0.2, 0.7), (1.0, 0.0, 0.0), (0.0, 0.0, 1.0), (1 / 3, 1 / 3, 1 / 3), (0.5, 0.5, 0.0),
              # every pair of equal rates with the third different, and the remaining vertex / faces
              (0.25, 0.5, 0.25), (0.4, 0.4, 0.2), (0.2, 0.4, 0.4), (0.0, 1.0, 0.0), (0.5, 0.0, 0.5), (0.0, 0.5, 0.5)]


def cases(tier, seed):
    b = BOUNDS[tier]
    out = []
    cfgs = F.configs(b['max_n'], F.CLASSES_2D, l_max=b['l_max_2d']) + \
        F.configs(b['max_n'], F.CLASSES_3D, l_max=b['l_max_3d'])
    for c in cfgs:
        if c['deformation']:
            out.append(dict(c, part='static'))
    for name in F.CLASSES:
        defs = F.deformations(name)
        if not defs:
            continue
        size = F.sizes(name, 0, min_count=1)[0]
        if name == 'Color666ToricCode':
            size = [1, 1]
        # shard the history tree by its first operation
        nops = len(defs) + len(ACCESSES)
        for first in range(nops):
            out.append({'part': 'history', 'cls': name, 'size': size, 'depth': b['depth'], 'first': first})
    out.append({'part': 'apply_deformation'})
    return out


def permute_row(v, n, tables):
    """Apply per-qubit relabelling tables[i] : {X,Y,Z}->{X,Y,Z} to a BSF int."""
    s = gf2.int_to_pauli_string(v, n)
    return gf2.pauli_string_to_int(''.join('I' if ch == 'I' else tables[i][ch] for i, ch in enumerate(s)))


def eval_static(cfg):
    from panqec.error_models import PauliErrorModel
    res = {'evals': 1, 'nontrivial': 0, 'violations': [], 'outcomes': [], 'samples': [], 'extra': {}}
    if F.known_invalid(cfg):
        res['skipped'] = 1
        return res
    V = res['violations']
    name, kw = cfg['deformation']
    base_key = {'part': 'static', 'cls': cfg['cls'], 'size': list(cfg['size']), 'deformation': name,
                'axis': kw.get('deformation_axis', 'default')}

    def bad(kind, **detail):
        if len(V) < 5 and not any(v['key']['kind'] == kind for v in V):
            V.append({'key': dict(base_key, kind=kind), 'detail': detail})

    und = F.build(dict(cfg, deformation=None))
    dfm = F.build(cfg)
    n = und.n
    qc = list(und.qubit_coordinates)
    if list(dfm.qubit_coordinates) != qc or list(dfm.stabilizer_coordinates) != list(und.stabilizer_coordinates):
        bad('coordinates-changed-by-deformation')
        return res
    # --- the table: a fixed permutation per qubit
    tables = []
    for i, loc in enumerate(qc):
        t1 = dfm.get_deformation(loc, name, **kw)
        t2 = und.get_deformation(loc, name, **kw)
        t3 = dfm.get_deformation(loc, name, **kw)
        if not isinstance(t1, dict) or sorted(t1.keys()) != ['X', 'Y', 'Z'] or sorted(t1.values()) != ['X', 'Y', 'Z']:
            bad('table-not-a-permutation', qubit=i, table=str(t1))
            return res
        if dict(t1) != dict(t2) or dict(t1) != dict(t3):
            bad('table-not-fixed', qubit=i)
        tables.append(dict(t1))
    if name == 'XZZX':
        axis = kw.get('deformation_axis', DEFAULT_AXIS.get(cfg['cls']))
        for i, loc in enumerate(qc):
            want = HADAMARD if und.qubit_axis(loc) == axis else IDENT
            if tables[i] != want:
                bad('XZZX-not-hadamard-exactly-on-axis', qubit=i, coord=str(loc), qubit_axis=und.qubit_axis(loc),
                    axis=axis, table=str(tables[i]))
                break
        if not any(und.qubit_axis(loc) == axis for loc in qc):
            res['extra']['xzzx_axis_without_qubits'] = 1
    if name == 'XY':
        if any(t != YZ for t in tables):
            bad('XY-not-Y<->Z-everywhere')
    # --- matrices are the relabelled undeformed ones
    H0 = gf2.matrix_rows(und.stabilizer_matrix)
    H1 = gf2.matrix_rows(dfm.stabilizer_matrix)
    if [permute_row(h, n, tables) for h in H0] != H1:
        bad('deformed-generators-not-relabelled-undeformed')
    for nm in ('logicals_x', 'logicals_z'):
        L0 = gf2.matrix_rows(getattr(und, nm))
        L1 = gf2.matrix_rows(getattr(dfm, nm))
        if [permute_row(l, n, tables) for l in L0] != L1:
            bad('deformed-%s-not-relabelled-undeformed' % nm)
    if dfm.n != und.n or dfm.k != und.k or gf2.rank(H1) != gf2.rank(H0):
        bad('n-k-rank-not-preserved', n=[und.n, dfm.n], k=[und.k, dfm.k])
    if int(dfm.d) != int(und.d):
        bad('distance-changed', d=[int(und.d), int(dfm.d)])
    # --- the deformed code sees D(e) exactly as the original sees e (real methods, basis of errors)
    for i in range(n):
        for p in 'XYZ':
            e = gf2.pauli_string_to_int('I' * i + p + 'I' * (n - i - 1))
            De = permute_row(e, n, tables)
            ve = np.array(gf2.int_to_vec(e, 2 * n), dtype='uint8')
            vDe = np.array(gf2.int_to_vec(De, 2 * n), dtype='uint8')
            if not np.array_equal(und.measure_syndrome(ve), dfm.measure_syndrome(vDe)):
                bad('syndrome-of-relabelled-error-differs', qubit=i, pauli=p)
                break
            if not np.array_equal(und.logical_errors(ve), dfm.logical_errors(vDe)):
                bad('logical-effect-of-relabelled-error-differs', qubit=i, pauli=p)
                break
        else:
            continue
        break
    # --- noise side: p_def[sigma][i] == p_undef[D_i(sigma)]
    for r in DIRECTIONS:
        for code in (und, dfm):
            m0 = PauliErrorModel(*r)
            m1 = PauliErrorModel(*r, deformation_name=name, deformation_kwargs=dict(kw))
            p0 = dict(zip('IXYZ', m0.probability_distribution(code, 0.1)))
            p1 = dict(zip('IXYZ', m1.probability_distribution(code, 0.1)))
            res['evals'] += 1
            for i in range(n):
                if abs(p1['I'][i] - p0['I'][i]) > 1e-15 or any(
                        abs(p1[s][i] - p0[tables[i][s]][i]) > 1e-15 for s in 'XYZ'):
                    bad('noise-deformation-inconsistent-with-code-deformation', qubit=i, direction=list(r),
                        table=str(tables[i]), p_def=[float(p1[s][i]) for s in 'XYZ'],
                        p_undef=[float(p0[s][i]) for s in 'XYZ'])
                    break
    # --- whole-error clause: P_deformed(e) == P_undeformed(D(e)) through the real error_probability (the
    # quantity the splitting method consumes); reference = product of the undeformed per-qubit table
    strs = ['I' * i + p + 'I' * (n - i - 1) for i in range(n) for p in 'XYZ']
    strs += [p * n for p in 'XYZ'] + [''.join('XYZI'[(i + s) % 4] for i in range(n)) for s in range(4)]
    strs += [''.join('IXZY'[(i * i + 3 * i // 2 + s) % 4] for i in range(n)) for s in range(2)]
    for r in DIRECTIONS[:6]:
        m0 = PauliErrorModel(*r)
        m1 = PauliErrorModel(*r, deformation_name=name, deformation_kwargs=dict(kw))
        for rate in (0.1, 0.37):
            p0 = dict(zip('IXYZ', [np.asarray(a, dtype=float) for a in m0.probability_distribution(und, rate)]))
            for s in strs:
                e = gf2.pauli_string_to_int(s)
                De = permute_row(e, n, tables)
                sD = gf2.int_to_pauli_string(De, n)
                ve = np.array(gf2.int_to_vec(e, 2 * n), dtype='uint8')
                vDe = np.array(gf2.int_to_vec(De, 2 * n), dtype='uint8')
                ref = 1.0
                for i, ch in enumerate(sD):
                    ref *= float(p0[ch][i])
                got = float(m1.error_probability(ve, dfm, rate))
                und_got = float(m0.error_probability(vDe, und, rate))
                res['evals'] += 1
                if abs(got - ref) > 1e-12 * max(ref, 1e-300) + 1e-300 or abs(und_got - ref) > 1e-12 * max(ref, 1e-300) + 1e-300:
                    bad('deformed-error-probability-not-undeformed-probability-of-relabelled-error',
                        direction=list(r), rate=rate, error=s[:120], deformed_model=got, undeformed_model_on_De=und_got,
                        reference=ref)
                    break
            else:
                continue
            break
    res['nontrivial'] = 1
    nh = sum(1 for t in tables if t != IDENT)
    res['outcomes'] = ['%s|%s|%d/%d' % (cfg['cls'], name, nh, n)]
    res['samples'].append({'config': F.cfg_label(cfg), 'qubits_relabelled': nh, 'n': n})
    return res


# ------------------------------------------------------------------ histories
def canon(code):
    parts = [repr(code.deformation_name), repr(code.deformation_kwargs), repr(bool(code.is_deformed)),
             repr(list(code.qubit_coordinates)), repr(list(code.stabilizer_coordinates)),
             repr(gf2.matrix_rows(code.stabilizer_matrix)), repr(gf2.matrix_rows(code.logicals_x)),
             repr(gf2.matrix_rows(code.logicals_z)), repr([bool(t) for t in code.x_indices]),
             repr([bool(t) for t in code.z_indices]), repr(int(code.d)), repr(bool(code.is_css))]
    return hashlib.sha1('|'.join(parts).encode()).hexdigest()


def apply_op(code, op):
    if op[0] == 'deform':
        code.deform(op[1], **op[2])
    else:
        try:
            getattr(code, op[1])
        except ValueError:
            pass            # Hx on a non-CSS (deformed) code: refusal is by design


def eval_history(case):
    res = {'evals': 0, 'nontrivial': 0, 'violations': [], 'outcomes': [], 'samples': [], 'extra': {}}
    cls = F.get_class(case['cls'])
    size = case['size']
    defs = F.deformations(case['cls'])
    ops = [('deform', d[0], d[1]) for d in defs] + [('access', a) for a in ACCESSES]
    # expected canonical state after "last deform = c"
    expect = {None: canon(cls(*size))}
    for d in defs:
        c = cls(*size)
        c.deform(d[0], **d[1])
        expect[(d[0], tuple(sorted(d[1].items())))] = canon(c)
    states = set()
    transitions = 0
    nontrivial = 0
    first = ops[case['first']]
    for depth in range(1, case['depth'] + 1):
        for tail in itertools.product(range(len(ops)), repeat=depth - 1):
            hist = [first] + [ops[t] for t in tail]
            code = cls(*size)
            for op in hist:
                apply_op(code, op)
                transitions += 1
            res['evals'] += 1
            last = None
            for op in hist:
                if op[0] == 'deform':
                    last = (op[1], tuple(sorted(op[2].items())))
            ndef = sum(1 for op in hist if op[0] == 'deform')
            nontrivial += 1 if ndef else 0
            got = canon(code)
            states.add(got)
            if got != expect[last] and len(res['violations']) < 3:
                res['violations'].append({
                    'key': {'part': 'history', 'kind': 'state-depends-on-history', 'cls': case['cls'],
                            'n_deforms': ndef, 'length': len(hist)},
                    'detail': {'history': [list(map(str, op)) for op in hist], 'size': size}})
    res['state_ids'] = sorted(states)
    res['transitions'] = transitions
    res['nontrivial'] = nontrivial
    res['outcomes'] = sorted(states)[:50]
    res['samples'].append({'cls': case['cls'], 'size': size,
                           'history': [list(map(str, first)), list(map(str, ops[0]))]})
    return res


def eval_apply_deformation(case):
    from panqec.bpauli import apply_deformation
    res = {'evals': 0, 'nontrivial': 0, 'violations': [], 'outcomes': [], 'samples': [], 'extra': {}}
    for n in (1, 2, 3):
        for mask in itertools.product([False, True], repeat=n):
            tables = [HADAMARD if m else IDENT for m in mask]
            rows = []
            for e in range(4 ** n):
                vec = np.array(gf2.int_to_vec(e, 2 * n), dtype='uint8')
                rows.append(vec)
                res['evals'] += 1
                for idx in (list(mask), np.array(mask)):
                    keep = vec.tobytes()
                    got = gf2.vec_to_int(apply_deformation(idx, vec))
                    if vec.tobytes() != keep and len(res['violations']) < 3:
                        res['violations'].append({'key': {'part': 'apply_deformation',
                                                          'kind': 'relabelling-modifies-its-argument'},
                                                  'detail': {'mask': list(mask), 'n': n, 'shape': '1-D'}})
                        vec = np.array(gf2.int_to_vec(e, 2 * n), dtype='uint8')
                    if got != permute_row(e, n, tables) and len(res['violations']) < 2:
                        res['violations'].append({'key': {'part': 'apply_deformation', 'kind': 'not-hadamard-on-index-set'},
                                                  'detail': {'op': gf2.int_to_pauli_string(e, n), 'mask': list(mask)}})
            M = np.array(rows, dtype='uint8')
            before = M.tobytes()
            got = apply_deformation(list(mask), M)
            again = apply_deformation(list(mask), M)
            # the relabelling is a function of its argument: the stack handed in (e.g. a code's cached
            # logicals) is left as it was, so relabelling the same stack twice gives the same image
            if (M.tobytes() != before or not np.array_equal(got, again)) and len(res['violations']) < 3:
                res['violations'].append({'key': {'part': 'apply_deformation',
                                                  'kind': 'relabelling-modifies-its-argument'},
                                          'detail': {'mask': list(mask), 'n': n}})
                M = np.array(rows, dtype='uint8')
                got = apply_deformation(list(mask), M.copy())
            if [gf2.vec_to_int(r) for r in got] != [permute_row(e, n, tables) for e in range(4 ** n)] \
                    and len(res['violations']) < 3:
                res['violations'].append({'key': {'part': 'apply_deformation', 'kind': 'stack-not-hadamard-on-index-set'},
                                          'detail': {'mask': list(mask)}})
    res['nontrivial'] = res['evals']
    res['outcomes'] = ['apply_deformation']
    res['samples'].append({'op': 'XYZ', 'mask': [True, False, True]})
    return res


def eval_case(case):
    return {'static': eval_static, 'history': eval_history,
            'apply_deformation': eval_apply_deformation}[case['part']](case)
