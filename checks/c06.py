"""C06  Decoding is a pure function of the syndrome.

Explicit exploration of call histories on live decoder objects.  For a tiny
code and a decoder configuration the alphabet is a set of *symbols*
(syndrome, tie-break answers); the explored system is the decoder object, its
operations are `decode(symbol)`.

 exact mode  every history s_1..s_L (L = 2, or 3 for small alphabets) is run
             from the initial state on its own decoder object (ldpc /
             pymatching objects cannot be cloned, so a prefix is re-executed
             for each of its extensions); every call of every history is
             compared with the table of fresh-decoder outcomes.
 walk mode   ONE decoder object is driven through a de Bruijn walk in which
             every ordered pair of symbols occurs as two consecutive calls
             (|S|^2 + 1 calls on one object, as a simulation would do); every
             call is compared with the same table.

 pass mode   alphabets too large for pair histories ({0} + all weight-1 errors
             + all weight-2 pure-X / pure-Z errors on larger lattices, i.e.
             multi-cluster syndromes with competing corrections), cut into
             slices; per slice object A decodes the slice forward then
             backward, object B the slice rotated by half, and finally every
             symbol once on a newly built object in the by then used process;
             every call is compared with a clean-process reference.  Several
             independently prepared histories per symbol inside ONE case.

Reference ("fresh decoder"): a newly built decoder object per symbol.  In the
walk and pass cases with writable arguments each reference decode runs in its own
forked child of the still-clean case process (the runner forks one process
per case), so state that panqec keeps outside the decoder object (module
globals, mutable default arguments, class attributes) cannot leak into the
reference; elsewhere the reference objects are built in the case's process.

Oracle (differential, no panqec code decides anything):
 (i)   outcome after a history == outcome of a fresh decoder (dtype, shape and
       bytes of the returned array, or the exception type);
 (ii)  sweep decoders: their generator is replaced by mc.env_rng.ChoiceRNG; for
       every complete tie-break answer script the reused and the fresh decoder
       must return the same bytes and consult the generator at the same points;
       validity (gf2 syndrome of the correction == syndrome) is then equal too;
 (iii) the argument array is byte-identical after the call (uint8, int64); a
       read-only argument that makes decode raise 'read-only' while the writable
       one does not is a write attempt and reported as a mutation;
 (iv)  the bytes of error_model.probability_distribution(code, p) (also p=0.5,
       which MBP reads) and get_weights(code, p) are identical after every call.
"""
import hashlib
import os
import pickle
import traceback

import numpy as np

# imported here, in the runner's parent process, so that the per-case forked children do not pay for it
import panqec.codes        # noqa: F401
import panqec.decoders     # noqa: F401
import panqec.error_models  # noqa: F401

from mc import gf2
from mc.env_rng import ChoiceRNG

PROPERTY = 'C06'
LEVEL = 'model_checking'
DESIGN_REF = 'DESIGN.md §4 C06, §5 D10/D15'
TECHNIQUE = ('explicit-state exploration of all decode() call histories of bounded length over a complete syndrome '
             'alphabet on live decoder objects (plus one pair-covering de Bruijn walk on a single object), tie-break '
             'RNG answers enumerated as environment choices; differential oracle against fresh-decoder outcomes')
LEVEL_TEXT = ('The decoder object is treated as a state machine whose only operation is decode(s). All histories of '
              'length 2 (3 for alphabets of at most 16 symbols, thorough: 64) over the complete alphabet of a tiny code are '
              'executed on the real decoder objects and each call is compared bitwise with what a freshly built decoder '
              'returns; for the randomised sweep decoders every tie-break answer sequence is enumerated, so reused and '
              'fresh decoders are compared under identical environment answers. State carried between calls (third-party '
              'buffers, cached tables, in-place edits of the argument) can only show along multi-call histories, which '
              'is exactly what is enumerated.')
LEVEL_NOTE = ('Trusted: mc/gf2.py (alphabet = image of the syndrome map, validity), mc/env_rng.ChoiceRNG, numpy '
              'tobytes(). The decoder state is opaque (ldpc/pymatching objects): a state is identified with the history '
              'prefix that produced it and is observed only through outputs, the argument and the noise tables. Not '
              'covered: histories longer than the bound other than the de Bruijn walk; codes larger than the listed ones; '
              'state that shows only through timing or memory.')
RULE = ('symbols = (syndrome, complete tie-break script); alphabet = all 2^rank valid syndromes (codes with <= 64) or '
        '{0} + syndromes of all weight-1 X/Y/Z errors (3-D codes and union-find/quick; the sector-wise zero syndromes '
        'are the pure-X / pure-Z ones; alphabet w1x = weight-1 X errors only, used on non-cubic X-cube lattices) + for '
        'sweep decoders the first weight-2 Z-error syndromes that reach a '
        'tie-break, each with every answer script. exact mode: every history of the stated length from the initial '
        'state, each on its own decoder object (a prefix is re-executed for each extension; it is judged every time but '
        'counted once); walk mode: ONE object, de Bruijn walk covering every ordered pair of symbols as consecutive '
        'calls; pass mode (alphabet w2 = w1 + all weight-2 pure-X and pure-Z errors, sliced): per slice three long '
        'histories on live objects (forward+backward, rotated) and one new object per symbol in the used process. '
        'The decoder state is opaque, so states = distinct history prefixes executed (walk: positions of the '
        'walk); transitions = distinct decode calls made on an object that had already decoded (exact: one per history '
        'prefix of length >= 2; walk: every call but the first). A history is non-trivial when it contains a non-zero '
        'syndrome and its last call returned a correction; distinct = distinct symbol sequence of length >= 2 (walk: '
        'distinct consecutive pair, kept in a set), counted while enumerating. Outcomes that raise in the fresh and in '
        'the reused decoder alike (D9 tie-break TypeError, D16 MBP on uint8) are equal outcomes, counted in '
        'calls_raising_like_fresh, and belong to C05.')
ASSUMPTIONS = [
    'a fresh decoder built on the same (code, error model, rate, parameters) is the reference for "pure function"; '
    'in the writable walk cases it runs in a forked child of the clean per-case process (runner ISOLATE), so a case '
    'must start in a process that has not decoded anything',
    'stabilizer_matrix of the tiny codes is correct (C01/C02); the alphabet is the span of single-qubit syndromes under mc/gf2',
    'for the sweep decoders the generator reached through _rng is the only source of randomness (any other draw would '
    'show as a fresh/fresh or fresh/reused difference)',
    'decoder state is observed only through decode() results, the argument array and the noise tables',
]
BOUNDS = {
    'quick': {'history_length': '2; 3 where the alphabet has <= 8 symbols, and for the 16-symbol alphabet in the uint8 '
                                'form (Matching; BP-OSD with osd_order 10)',
              'depth3_max_alphabet': 16, 'depth3_all_forms_max': 8, 'full_alphabet_max': 64,
              'tie_syndromes_max': 3, 'tie_scripts_per_syndrome_max': 81, 'mbp_max_bp_iter': 3,
              'union_find_alphabet': 'weight-1', 'forms_exact': ['uint8', 'int64'],
              'forms_walk': ['uint8', 'int64', 'uint8-ro', 'int64-ro'],
              'noise': 'PauliErrorModel(0.2, 0.3, 0.5), p = 0.1; BP-OSD also with XZZX-deformed noise: (0.05, 0.05, 0.9) on '
                       'all four 2-D codes and (0.2, 0.3, 0.5) on Toric2D 2x2, channel_update off and on',
              'codes': 'RotatedPlanar2D 2x2 (8 syndromes), Planar2D 2x2 (16), RotatedPlanar2D 3x2 (32), Toric2D 2x2 (64); '
                       'weight-1 alphabets: XCube 2x2x2, Toric3D 2x2x2, Planar3D 2x2x2, RotatedPlanar3D 2x2x2; '
                       'weight-1 X-error alphabet: XCube 4x2x2 (non-cubic); pass mode (weight <= 2): union-find on '
                       'Toric2D 3x3 and 4x4, Matching and BP-OSD (plain and XZZX-deformed biased noise) on Toric2D 3x3'},
    'thorough': {'history_length': '2; 3 where the alphabet has <= 32 symbols (MBP: <= 16), and for the 64-symbol '
                                   'alphabet in the uint8 form (Matching; BP-OSD with osd_order 10)',
                 'depth3_max_alphabet': 64, 'depth3_all_forms_max': 32, 'full_alphabet_max': 64,
                 'tie_syndromes_max': 200, 'tie_scripts_per_syndrome_max': 81, 'mbp_max_bp_iter': 3,
                 'union_find_alphabet': 'full', 'forms_exact': ['uint8', 'int64'],
                 'forms_walk': ['uint8', 'int64', 'uint8-ro', 'int64-ro'],
                 'noise': 'PauliErrorModel(0.2, 0.3, 0.5) and its XZZX-deformed version (Matching, BP-OSD), XZZX-deformed '
                          '(0.05, 0.05, 0.9) (BP-OSD, channel_update off and on), p = 0.1',
                 'codes': 'quick list + RotatedPlanar2D 2x3, Toric2D 3x3 (union-find, weight-1), BP-OSD with weight-1 '
                          'alphabets on the smallest size of 14 further classes (undeformed and first deformation), '
                          'sweep decoders on Toric3D 2x2x3 / 3x3x3, RotatedToric3D 2x2x2, RotatedPlanar3D 3x3x3 and the '
                          'bare sweepers; non-cubic X-cube lattices 4x2x2 and 2x3x2 (weight-1), 3x3x2 and 4x3x2 '
                          '(weight-1 X errors); pass mode also: union-find Toric2D 5x5 and 3x4, Matching Toric2D 5x5 and '
                          'Planar2D 4x4, BP-OSD Toric2D 4x4 and XZZX-deformed Toric2D 3x3, XCube 3x2x2'},
}
ISOLATE = True            # one forked process per case: module-level state of panqec starts clean
BUDGET_S = {'quick': 900, 'thorough': 10800}
LEAF_CAP = 81            # tie-break scripts per syndrome (a hit sets 'capped')
NOISE = [0.2, 0.3, 0.5]
BIASED = [0.05, 0.05, 0.9]       # with the XZZX deformation: strongly non-uniform per-qubit flip probabilities
P = 0.1
FORMS = {'uint8': (np.uint8, False), 'int64': (np.int64, False),
         'uint8-ro': (np.uint8, True), 'int64-ro': (np.int64, True)}
RANDOMISED = ('SweepMatchDecoder', 'RotatedSweepMatchDecoder', 'SweepDecoder3D', 'RotatedSweepDecoder3D')
TABLE_NAMES = ['p_i@p', 'p_x@p', 'p_y@p', 'p_z@p', 'p_i@0.5', 'p_x@0.5', 'p_y@0.5', 'p_z@0.5',
               'weights_x@p', 'weights_z@p']


# ------------------------------------------------------------------ case list
def _cfg(decoder, cls, size, alphabet, deformation=None, noise_deformation=None, params=None, ties=0, noise=None):
    return {'decoder': decoder, 'cls': cls, 'size': list(size), 'deformation': deformation,
            'noise': list(noise or NOISE), 'noise_deformation': noise_deformation, 'params': params or {},
            'alphabet': alphabet, 'ties': ties}


def _emit(out, cfg, depth, exact_forms, walk_forms, shards):
    for form in exact_forms:
        for i in range(shards):
            c = dict(cfg)
            c.update({'mode': 'exact', 'depth': depth, 'form': form, 'shard': [i, shards]})
            out.append(c)
    for form in walk_forms:
        c = dict(cfg)
        c.update({'mode': 'walk', 'depth': 2, 'form': form, 'shard': [0, 1]})
        out.append(c)


def _emit_pass(out, cfg, forms, shards):
    for form in forms:
        for i in range(shards):
            c = dict(cfg)
            c.update({'mode': 'pass', 'depth': 2, 'form': form, 'shard': [i, shards]})
            out.append(c)


def cases(tier, seed):
    b = BOUNDS[tier]
    quick = tier == 'quick'
    fe, fw = b['forms_exact'], b['forms_walk']
    ties = b['tie_syndromes_max']
    out = []
    codes2d = [('RotatedPlanar2DCode', [2, 2], 8), ('Planar2DCode', [2, 2], 16),
               ('RotatedPlanar2DCode', [3, 2], 32), ('Toric2DCode', [2, 2], 64)]
    if not quick:
        codes2d.insert(3, ('RotatedPlanar2DCode', [2, 3], 32))

    def depth_shards(n_sym, ms, form, deep_ok=True, d3max=None):
        """History length and number of shards (by first symbol) from a measured cost per history."""
        d3 = b['depth3_max_alphabet'] if d3max is None else d3max
        depth = 3 if n_sym <= d3 else 2
        # the largest alphabet gets length-3 histories only in the primary argument form of selected configurations
        if depth == 3 and n_sym > b['depth3_all_forms_max'] and not (form == 'uint8' and deep_ok):
            depth = 2
        cost = (n_sym ** depth) * ms / 1000.0
        return depth, max(1, min(n_sym, int(cost / 3.0) + 1))

    def emit_2d(cfg, n_sym, ms, deep_ok=True, d3max=None, walk=None):
        for form in fe:
            depth, sh = depth_shards(n_sym, ms, form, deep_ok, d3max)
            _emit(out, cfg, depth, [form], [], sh)
        _emit(out, cfg, 2, [], fw if walk is None else walk, 1)

    # --- Matching
    for cls, size, n_sym in codes2d:
        for nd in ([None] if quick else [None, 'XZZX']):
            emit_2d(_cfg('MatchingDecoder', cls, size, 'full', noise_deformation=nd), n_sym, 2.5, deep_ok=nd is None)
    # --- BP-OSD, CSS and non-CSS (XZZX-deformed code), channel_update x osd_order
    for cls, size, n_sym in codes2d:
        for deformation in (None, 'XZZX'):
            for cu in (False, True):
                for osd in (0, 10):
                    emit_2d(_cfg('BeliefPropagationOSDDecoder', cls, size, 'full', deformation=deformation,
                                 params={'channel_update': cu, 'osd_order': osd}), n_sym, 1.2, deep_ok=osd == 10)
    # non-uniform per-qubit priors (Clifford-deformed noise, moderately and strongly biased): a decoder whose first
    # call runs on another prior than its later calls is invisible with uniform priors (min-sum BP is scale invariant)
    for cls, size, n_sym in codes2d:
        for noise in ((NOISE, BIASED) if (n_sym == 64 or not quick) else (BIASED,)):
            for cu in (False, True):
                emit_2d(_cfg('BeliefPropagationOSDDecoder', cls, size, 'full', noise=noise, noise_deformation='XZZX',
                             params={'channel_update': cu, 'osd_order': 10}), n_sym, 1.2,
                        deep_ok=(noise is BIASED and n_sym <= 16))
    # --- MBP (tiny n, max_bp_iter=3), CSS and non-CSS
    mbp = [('RotatedPlanar2DCode', [2, 2], 8, 8.0), ('Planar2DCode', [2, 2], 16, 9.0)]
    if not quick:
        mbp += [('RotatedPlanar2DCode', [3, 2], 32, 10.0), ('Toric2DCode', [2, 2], 64, 25.0)]
    for cls, size, n_sym, ms in mbp:
        for deformation in (None, 'XZZX'):
            emit_2d(_cfg('MemoryBeliefPropagationDecoder', cls, size, 'full', deformation=deformation,
                         params={'max_bp_iter': b['mbp_max_bp_iter']}), n_sym, ms, d3max=8 if quick else 16,
                    walk=['uint8-ro', 'int64-ro'] if quick else fw)
    # --- Union-find (slow): weight-1 alphabet in quick, all 64 syndromes in thorough
    if quick:
        _emit(out, _cfg('UnionFindDecoder', 'Toric2DCode', [2, 2], 'w1'), 2, ['uint8'], ['int64', 'uint8-ro'], 8)
    else:
        _emit(out, _cfg('UnionFindDecoder', 'Toric2DCode', [2, 2], 'full'), 2, fe, fw, 64)
        _emit(out, _cfg('UnionFindDecoder', 'Toric2DCode', [3, 3], 'w1'), 2, ['uint8'], ['int64', 'uint8-ro'], 28)
    # --- pass mode: alphabets too large for pair histories (all errors of weight <= 2 on larger lattices, i.e.
    # syndromes with several defect clusters and competing corrections).  Every symbol of a shard is decoded after
    # three independently prepared long histories on live objects and compared with a clean-process reference.
    _emit_pass(out, _cfg('UnionFindDecoder', 'Toric2DCode', [3, 3], 'w2'), ['uint8', 'int64'], 2)
    _emit_pass(out, _cfg('UnionFindDecoder', 'Toric2DCode', [4, 4], 'w2'), ['uint8'] if quick else fe, 8)
    _emit_pass(out, _cfg('MatchingDecoder', 'Toric2DCode', [3, 3], 'w2'), ['uint8'], 1)
    for noise, nd in ((NOISE, None), (BIASED, 'XZZX')):
        _emit_pass(out, _cfg('BeliefPropagationOSDDecoder', 'Toric2DCode', [3, 3], 'w2', noise=noise,
                             noise_deformation=nd, params={'channel_update': False, 'osd_order': 10}), ['uint8'], 1)
    if not quick:
        _emit_pass(out, _cfg('UnionFindDecoder', 'Toric2DCode', [5, 5], 'w2'), fe, 32)
        _emit_pass(out, _cfg('UnionFindDecoder', 'Toric2DCode', [3, 4], 'w2'), ['uint8'], 4)
        _emit_pass(out, _cfg('MatchingDecoder', 'Toric2DCode', [5, 5], 'w2'), ['uint8'], 8)
        _emit_pass(out, _cfg('MatchingDecoder', 'Planar2DCode', [4, 4], 'w2'), ['uint8'], 4)
        _emit_pass(out, _cfg('BeliefPropagationOSDDecoder', 'Toric2DCode', [4, 4], 'w2', noise=BIASED,
                             noise_deformation='XZZX', params={'channel_update': True, 'osd_order': 10}), ['uint8'], 4)
        _emit_pass(out, _cfg('BeliefPropagationOSDDecoder', 'Toric2DCode', [3, 3], 'w2', deformation='XZZX',
                             params={'channel_update': False, 'osd_order': 10}), ['uint8'], 2)
        _emit_pass(out, _cfg('XCubeMatchingDecoder', 'XCubeCode', [3, 2, 2], 'w2'), ['uint8'], 16)
    # --- XCube matching (embeds three matching decoders and a BP-OSD decoder)
    _emit(out, _cfg('XCubeMatchingDecoder', 'XCubeCode', [2, 2, 2], 'w1'), 2,
          ['uint8'] if quick else fe, fw, 16)
    # non-cubic X-cube lattices: the three projection grids differ in shape (state kept per grid shape, or per
    # process, only shows here); (4,2,2) is the smallest size on which a stale grid cell changes a weight-1 answer
    _emit(out, _cfg('XCubeMatchingDecoder', 'XCubeCode', [4, 2, 2], 'w1x'), 2, ['uint8'], ['int64', 'uint8-ro'], 16)
    if not quick:
        _emit(out, _cfg('XCubeMatchingDecoder', 'XCubeCode', [4, 2, 2], 'w1'), 2, ['uint8'], ['int64'], 64)
        _emit(out, _cfg('XCubeMatchingDecoder', 'XCubeCode', [2, 3, 2], 'w1'), 2, ['uint8'], ['int64'], 48)
        _emit(out, _cfg('XCubeMatchingDecoder', 'XCubeCode', [3, 3, 2], 'w1x'), 2, ['uint8'], ['int64'], 24)
        _emit(out, _cfg('XCubeMatchingDecoder', 'XCubeCode', [4, 3, 2], 'w1x'), 2, ['uint8'], ['int64'], 32)
    # --- BP-OSD on 3-D codes, weight-1 alphabet
    bp3 = [('Toric3DCode', [2, 2, 2]), ('XCubeCode', [2, 2, 2])]
    if not quick:
        bp3 += [('Planar3DCode', [2, 2, 2]), ('RotatedPlanar3DCode', [2, 2, 2]), ('RotatedToric3DCode', [2, 2, 2]),
                ('RhombicToricCode', [2, 2, 2]), ('RhombicPlanarCode', [2, 2, 2]), ('HollowPlanar3DCode', [2, 2, 2]),
                ('HollowRhombicCode', [2, 2, 3]), ('Toric3DCode', [2, 2, 3]), ('Color666PlanarCode', [2, 2]),
                ('Color488Code', [1, 2]), ('Color666ToricCode', [1, 1]), ('Color3DCode', [2, 2, 2])]
    for cls, size in bp3:
        import panqec.codes as C
        names = list(getattr(C, cls).deformation_names)
        for deformation in ([None] if quick else [None] + names[:1]):
            _emit(out, _cfg('BeliefPropagationOSDDecoder', cls, size, 'w1', deformation=deformation,
                            params={'channel_update': False, 'osd_order': 10}), 2, ['uint8'], ['int64', 'uint8-ro'],
                  4 if quick else (32 if cls == 'Color3DCode' else 8))
    # --- sweep decoders: tie-break answers enumerated through ChoiceRNG
    sweeps = [('SweepMatchDecoder', 'Toric3DCode', [2, 2, 2], 12), ('SweepMatchDecoder', 'Planar3DCode', [2, 2, 2], 8),
              ('RotatedSweepMatchDecoder', 'RotatedPlanar3DCode', [2, 2, 2], 8)]
    if not quick:
        sweeps += [('RotatedSweepMatchDecoder', 'RotatedToric3DCode', [2, 2, 2], 24),
                   ('SweepMatchDecoder', 'Toric3DCode', [2, 2, 3], 48),
                   ('SweepDecoder3D', 'Toric3DCode', [2, 2, 2], 16),
                   ('RotatedSweepDecoder3D', 'RotatedPlanar3DCode', [2, 2, 2], 8),
                   ('SweepMatchDecoder', 'Toric3DCode', [3, 3, 3], 64),
                   ('RotatedSweepMatchDecoder', 'RotatedPlanar3DCode', [3, 3, 3], 48)]
    for dec, cls, size, sh in sweeps:
        t = 0 if max(size) >= 3 and size != [2, 2, 3] else ties
        _emit(out, _cfg(dec, cls, size, 'w1+ties' if t else 'w1', ties=t), 2, ['uint8'],
              ['int64'] if quick else ['int64', 'uint8-ro'], sh)
    return out


# ------------------------------------------------------------------ exploration context
class _Ctx:
    def __init__(self, case):
        import panqec.codes as C
        import panqec.decoders as D
        from panqec.error_models import PauliErrorModel
        self.case = case
        self.code = getattr(C, case['cls'])(*case['size'])
        if case['deformation']:
            self.code.deform(case['deformation'])
        self.em = PauliErrorModel(*case.get('noise', NOISE), deformation_name=case['noise_deformation'])
        self.dec_cls = getattr(D, case['decoder'])
        self.params = dict(case['params'])
        self.random = case['decoder'] in RANDOMISED
        # reference outcomes from clean child processes: in the walk cases with writable arguments (one or two per
        # configuration; a fork costs ~10 ms, so not in every shard).  Elsewhere the reference decoders are new
        # objects in this case's own process, which starts clean but accumulates whatever panqec keeps globally.
        self.clean_reference = case['mode'] in ('walk', 'pass') and not case['form'].endswith('-ro')
        self.n = self.code.n
        self.H = gf2.matrix_rows(self.code.stabilizer_matrix)
        self.m = len(self.H)
        self.evals = 0
        self.last_msg = ''
        self.table_ref = self.tables()
        self._vec = {}

    def tables(self):
        parts = []
        for rate in (P, 0.5):
            for arr in self.em.probability_distribution(self.code, rate):
                parts.append(np.asarray(arr).tobytes())
        for arr in self.em.get_weights(self.code, P):
            parts.append(np.asarray(arr).tobytes())
        return parts

    def table_diff(self):
        now = self.tables()
        for i, (a, b2) in enumerate(zip(self.table_ref, now)):
            if a != b2:
                return TABLE_NAMES[i]
        return None

    def new(self):
        return self.dec_cls(self.code, self.em, P, **self.params)

    def arg(self, s, form):
        dt, ro = FORMS[form]
        v = self._vec.get(s)
        if v is None:
            v = self._vec[s] = gf2.int_to_vec(s, self.m)
        a = np.array(v, dtype=dt)
        if ro:
            a.setflags(write=False)
        return a

    def call(self, d, sym, form):
        """One decode.  Returns (outcome, argument_mutated).  outcome is hashable and compared whole."""
        s, script = sym
        a = self.arg(s, form)
        ref = a.tobytes()
        rng = None
        if self.random:
            rng = ChoiceRNG(script)
            d._rng = rng
            if hasattr(d, 'sweeper'):
                d.sweeper._rng = rng
        try:
            r = np.asarray(d.decode(a))
            oc = ('ok', r.dtype.str, tuple(r.shape), r.tobytes())
        except Exception as exc:             # outcome, judged by comparison with the fresh decoder
            oc = ('raise', type(exc).__name__, None, None)
            self.last_msg = str(exc)
        self.evals += 1
        pts = tuple(rng.points) if rng is not None else ()
        mutated = (a.tobytes() != ref) or a.dtype != FORMS[form][0] or a.shape != (self.m,)
        return oc + (pts,), mutated

    def clean_call(self, sym, form):
        """decode sym on a newly built decoder inside a forked child of this process.  While the fresh table is
        built this process has not decoded anything, so the child is a clean process: state that panqec keeps outside
        the decoder object (module globals, default arguments, class attributes) cannot leak between reference runs.
        Returns (outcome, argument_mutated, name of a changed noise table or None)."""
        def job():
            oc, mut = self.call(self.new(), sym, form)
            return oc, mut, self.last_msg, self.table_diff()
        if not self.clean_reference:
            return job()[:2] + (self.table_diff(),)
        oc, mut, msg, td = _in_child(job)
        self.evals += 1
        self.last_msg = msg
        return oc, mut, td

    def valid(self, oc, s):
        if oc[0] != 'ok':
            return None
        r = np.frombuffer(oc[3], dtype=np.dtype(oc[1]))
        if r.shape[0] != 2 * self.n or np.any(r > 1):
            return False
        return gf2.syndrome(self.H, gf2.vec_to_int(r), self.n) == s


def _in_child(fn):
    """Run fn() in a forked child and return its (picklable) result; a failing child is a harness error."""
    r, w = os.pipe()
    pid = os.fork()
    if pid == 0:
        status = 0
        try:
            os.close(r)
            try:
                data = pickle.dumps(('ok', fn()))
            except BaseException:
                data = pickle.dumps(('error', traceback.format_exc()))
            view = memoryview(data)
            while view:
                k = os.write(w, view[:1 << 16])
                view = view[k:]
            os.close(w)
        except BaseException:
            status = 1
        finally:
            os._exit(status)
    os.close(w)
    chunks = []
    with os.fdopen(r, 'rb') as f:
        while True:
            c = f.read(1 << 16)
            if not c:
                break
            chunks.append(c)
    os.waitpid(pid, 0)
    data = b''.join(chunks)
    if not data:
        raise RuntimeError('reference child process died without an answer')
    tag, val = pickle.loads(data)
    if tag != 'ok':
        raise RuntimeError('reference child process failed:\n' + val)
    return val


def _alphabet(ctx, kind):
    n, H = ctx.n, ctx.H
    gens = []
    for q in range(n):
        x, z = 1 << q, 1 << (n + q)
        if kind == 'w1x':
            gens.append(gf2.syndrome(H, x, n))
            continue
        gens += [gf2.syndrome(H, x, n), gf2.syndrome(H, z, n), gf2.syndrome(H, x | z, n)]
    if kind == 'full':
        S = set(gf2.span(gens))
    else:
        S = set([0] + gens)
    if kind == 'w2':
        # + all weight-2 pure-X and pure-Z errors (sector-wise zero syndromes with up to four defects)
        for q in range(n):
            for r in range(q + 1, n):
                S.add(gf2.syndrome(H, (1 << q) | (1 << r), n))
                S.add(gf2.syndrome(H, (1 << (n + q)) | (1 << (n + r)), n))
    return sorted(S, key=lambda v: (gf2.popcount(v), v))


def _leaves(ctx, s, form):
    """All complete tie-break scripts of syndrome s, each on a fresh decoder in a clean child process
    -> [(script, outcome, mutated, changed table)], capped."""
    out, stack, capped = [], [()], 0
    while stack:
        sc = stack.pop()
        oc, mut, td = ctx.clean_call((s, sc), form)
        pts = oc[4]
        if len(pts) > len(sc):
            for a in reversed(range(pts[len(sc)])):
                stack.append(sc + (a,))
        else:
            if len(out) >= LEAF_CAP:
                capped = 1
                break
            out.append((sc, oc, mut, td))
    return out, capped


def _digest(oc):
    return hashlib.sha1(repr(oc).encode()).hexdigest()[:8]


def _de_bruijn_pairs(k):
    """Cyclic sequence over range(k) in which every ordered pair occurs once consecutively (FKM, order 2),
    closed by repeating its first element."""
    seq = []
    for a in range(k):
        seq.append(a)
        for b in range(a + 1, k):
            seq += [a, b]
    return seq + seq[:1]


# ------------------------------------------------------------------ one case
def eval_case(case):
    ctx = _Ctx(case)
    form = case['form']
    dt_name = form.split('-')[0]
    readonly = form.endswith('-ro')
    res = {'evals': 0, 'nontrivial': 0, 'states': 0, 'transitions': 0, 'traces': 0, 'capped': 0,
           'violations': [], 'outcomes': [], 'samples': [],
           'extra': {'history_dependent_calls': 0, 'syndrome_mutations': 0, 'table_mutations': 0,
                     'calls_raising_like_fresh': 0, 'tie_points_answered': 0,
                     'syndromes_validity_varies_with_tiebreak': 0, 'symbols_sum': 0}}
    X = res['extra']
    found = {}            # (kind, history_len, exc) -> violation, first = simplest
    outcomes = set()

    def key_of(kind, hlen, **kw):
        # 'readonly' says whether the argument of the offending call was a read-only array
        k = {'kind': kind, 'decoder': case['decoder'], 'cls': case['cls'], 'size': list(case['size']),
             'deformation': case['deformation'], 'noise': list(case.get('noise', NOISE)),
             'noise_deformation': case['noise_deformation'],
             'params': dict(case['params']), 'css': bool(ctx.code.is_css), 'alphabet': case['alphabet'],
             'form': dt_name, 'readonly': readonly, 'mode': case['mode'], 'history_len': hlen}
        k.update(kw)
        return k

    def report(kind, hlen, detail, count=True, **kw):
        tag = (kind, hlen, kw.get('exc'), kw.get('readonly'))
        if tag in found:
            found[tag]['detail']['occurrences_in_case'] += int(count)
            return
        detail['occurrences_in_case'] = 1
        found[tag] = {'key': key_of(kind, hlen, **kw), 'detail': detail}

    def show(sym):
        return {'syndrome': gf2.int_to_vec(sym[0], ctx.m), 'tie_answers': list(sym[1])}

    def finish():
        res['evals'] = ctx.evals
        vs = sorted(found.values(), key=lambda v: (v['key']['history_len'], v['key']['kind']))
        res['violations'] = vs[:6]
        res['outcomes'] = sorted(outcomes)[:50]
        return res

    # ---- alphabet of symbols and table of fresh-decoder outcomes (reference form: writable, same dtype)
    syndromes = _alphabet(ctx, case['alphabet'] if case['alphabet'] in ('full', 'w1x', 'w2') else 'w1')
    if case['mode'] == 'pass':
        i0, k = case['shard']
        syndromes = syndromes[i0::k]           # each shard: its own slice of the alphabet, its own objects
    if case['alphabet'] == 'full' and len(syndromes) > 64:
        raise AssertionError('full alphabet larger than the stated bound')
    symbols, fresh, fresh_valid = [], {}, {}

    def add_syndrome(s, only_if_tie=False):
        leaves, capped = _leaves(ctx, s, dt_name)
        if only_if_tie and not any(len(lf[1][4]) for lf in leaves):
            return False
        res['capped'] |= capped
        vals = set()
        for sc, oc, mut, td in leaves:
            sym = (s, sc)
            if td:
                X['table_mutations'] += 1
                report('table-mutated', 1, {'history': [show(sym)], 'table': td,
                                            'message': 'noise table bytes changed by the first decode of a fresh decoder'})
            symbols.append(sym)
            fresh[sym] = oc
            outcomes.add(_digest(oc[:4]))
            if mut:
                X['syndrome_mutations'] += 1
                report('syndrome-mutated', 1, {'history': [show(sym)], 'message': 'argument bytes changed by decode '
                                               '(fresh decoder, writable argument)'}, readonly=False)
            if ctx.random:
                v = fresh_valid[sym] = ctx.valid(oc, s)
                vals.add(v)
        if len(vals) > 1:
            X['syndromes_validity_varies_with_tiebreak'] += 1
        return True

    for s in syndromes:
        add_syndrome(s)
    if ctx.random and case['ties']:
        known = set(syndromes)
        n_tie = 0
        for q in range(ctx.n):
            for r in range(q + 1, ctx.n):
                if n_tie >= case['ties']:
                    break
                s = gf2.syndrome(ctx.H, (1 << (ctx.n + q)) | (1 << (ctx.n + r)), ctx.n)
                if s in known:
                    continue
                known.add(s)
                if add_syndrome(s, only_if_tie=True):
                    n_tie += 1
    N = len(symbols)
    X['symbols_sum'] = N
    td = ctx.table_diff()
    if td:
        X['table_mutations'] += 1
        report('table-mutated', 1, {'table': td, 'message': 'noise table bytes changed while building the fresh table'})
        return finish()
    # two fresh decoders must agree (otherwise "fresh decoder" is not a reference): probe the first symbols again,
    # now in this process (the first of these calls is still the first decode of the process)
    for sym in ([] if case['mode'] == 'pass' else symbols[:4]):      # (pass mode does this for every symbol, below)
        oc, _ = ctx.call(ctx.new(), sym, dt_name)
        if oc != fresh[sym]:
            report('history-dependence', 1, {'history': [show(sym)],
                                             'message': 'two freshly built decoders disagree on the same syndrome'},
                   state_outside_object=True)

    def check(d, sym, hist, hlen, first_time=True):
        """decode sym on d, which has decoded hist[:-1] (hist ends with sym; for the walk only the last two
        symbols are kept).  first_time is False when this history prefix was already executed on another
        object (re-execution for a longer history): judged again, not counted again.
        Returns the outcome, or None when exploration must stop."""
        oc, mut = ctx.call(d, sym, form)
        c = int(first_time)
        X['tie_points_answered'] += len(oc[4]) * c
        if mut:
            X['syndrome_mutations'] += c
            report('syndrome-mutated', hlen, {'history': [show(h) for h in hist],
                                              'message': 'argument bytes changed by decode'}, count=first_time)
        want = fresh[sym]
        if oc != want:
            if readonly and oc[0] == 'raise' and want[0] == 'ok' and 'read-only' in ctx.last_msg:
                X['syndrome_mutations'] += c
                report('syndrome-mutated', hlen,
                       {'history': [show(h) for h in hist],
                        'message': 'decode writes into the caller\'s array: ' + ctx.last_msg[:120]},
                       count=first_time, exc=oc[1])
            else:
                X['history_dependent_calls'] += c
                det = {'history': [show(h) for h in hist],
                       'reused': _describe(oc), 'fresh': _describe(want)}
                if oc[0] == 'raise':
                    det['message'] = ctx.last_msg[:160]
                if ctx.random:
                    det['valid_reused'] = ctx.valid(oc, sym[0])
                    det['valid_fresh'] = fresh_valid.get(sym)
                    det['tie_points_reused'] = list(oc[4])
                    det['tie_points_fresh'] = list(want[4])
                kw = {'exc': oc[1]} if oc[0] == 'raise' else {}
                if hlen == 1:
                    # first call on a newly built object, yet not the answer of a clean process: the state that
                    # differs lives outside the decoder object (module / class / default-argument level)
                    kw['state_outside_object'] = True
                    det['message'] = ('a newly built decoder in a process that has decoded other syndromes before '
                                      'answers differently from a newly built decoder in a clean process')
                report('history-dependence', hlen, det, count=first_time, **kw)
        elif oc[0] == 'raise':
            X['calls_raising_like_fresh'] += c
        t = ctx.table_diff()
        if t:
            X['table_mutations'] += 1
            report('table-mutated', hlen, {'history': [show(h) for h in hist], 'table': t})
            return None
        return oc

    # ---- exploration
    if case['mode'] == 'exact':
        i0, k = case['shard']
        depth = case['depth']
        firsts = list(range(i0, N, k))
        if i0 == 0:
            res['states'] += 1                     # the initial state
        for i1 in firsts:
            res['states'] += 1                     # prefix (s1)
            for i2 in range(N):
                res['states'] += 1                 # prefix (s1, s2)
                res['transitions'] += 1
                thirds = range(N) if depth == 3 else [None]
                for i3 in thirds:
                    hist = [symbols[i1], symbols[i2]] + ([symbols[i3]] if i3 is not None else [])
                    d = ctx.new()
                    ocs = []
                    for pos in range(len(hist)):
                        # prefix (s1) is new for the first (i2, i3), prefix (s1, s2) for the first i3
                        new_prefix = (pos == len(hist) - 1) or (pos == 1 and i3 == 0) \
                            or (pos == 0 and i2 == 0 and i3 in (None, 0))
                        oc = check(d, hist[pos], hist[:pos + 1], pos + 1, new_prefix)
                        if oc is None:
                            return finish()
                        ocs.append(oc)
                    res['traces'] += 1
                    if i3 is not None:
                        res['states'] += 1
                        res['transitions'] += 1
                        if i3 == 0 and ocs[1][0] == 'ok' and (hist[0][0] or hist[1][0]):
                            res['nontrivial'] += 1         # the length-2 history (s1, s2), counted once
                    if oc[0] == 'ok' and any(h[0] for h in hist):
                        res['nontrivial'] += 1
                    outcomes.add(_digest(oc[:4]))
                    if len(res['samples']) < 1 and i2 == N - 1 and (i3 is None or i3 == N - 1):
                        res['samples'].append({'decoder': case['decoder'], 'code': '%s%s' % (case['cls'], tuple(case['size'])),
                                               'form': form, 'history': [show(h) for h in hist],
                                               'equal_to_fresh': oc == fresh[hist[-1]], 'outcome': _describe(oc)})
    elif case['mode'] == 'pass':
        # three independently prepared long histories, each on its own live object: the slice forward and then
        # backward on object A (every symbol after two different histories), and rotated by half on object B
        half = N // 2
        plans = [('forward-then-backward', list(range(N)) + list(range(N - 1, -1, -1))),
                 ('rotated', list(range(half, N)) + list(range(half)))]
        seen_nt = set()
        for name, order in plans:
            d = ctx.new()
            res['states'] += 1
            for pos, i in enumerate(order):
                sym = symbols[i]
                hist = [symbols[order[pos - 1]], sym] if pos else [sym]
                oc = check(d, sym, hist, len(hist))
                if oc is None:
                    return finish()
                res['states'] += 1
                if pos:
                    res['transitions'] += 1
                    if oc[0] == 'ok' and (symbols[order[pos - 1]][0] or sym[0]):
                        seen_nt.add((order[pos - 1], i))
                outcomes.add(_digest(oc[:4]))
            res['traces'] += 1
        # and every symbol once more on a newly built object in this, by now much used, process: a difference here
        # is state kept outside the decoder object (history_len 1, state_outside_object)
        for i in range(N):
            oc = check(ctx.new(), symbols[i], [symbols[i]], 1)
            if oc is None:
                return finish()
            res['traces'] += 1
        res['nontrivial'] = len(seen_nt)
        res['samples'].append({'decoder': case['decoder'], 'code': '%s%s' % (case['cls'], tuple(case['size'])),
                               'form': form, 'symbols_in_slice': N, 'calls_on_live_objects': 3 * N,
                               'example_symbol': show(symbols[-1])})
    else:
        walk = _de_bruijn_pairs(N)
        d = ctx.new()
        res['states'] += 1
        pairs = set()
        seen_nt = set()
        for pos, i in enumerate(walk):
            sym = symbols[i]
            # history_len 2 in a walk key means "after at least one earlier call"; the detail shows the
            # last two symbols, the object itself carries the whole walk up to this position
            hist = [symbols[walk[pos - 1]], sym] if pos else [sym]
            oc = check(d, sym, hist, len(hist))
            if oc is None:
                return finish()
            res['states'] += 1
            if pos:
                res['transitions'] += 1
                pairs.add((walk[pos - 1], i))
                if oc[0] == 'ok' and (symbols[walk[pos - 1]][0] or sym[0]):
                    seen_nt.add((walk[pos - 1], i))
            outcomes.add(_digest(oc[:4]))
        res['traces'] += 1
        res['nontrivial'] = len(seen_nt)
        X['walk_pairs_covered'] = len(pairs)
        X['walk_pairs_expected'] = N * N
        if len(pairs) != N * N:
            raise AssertionError('de Bruijn walk does not cover all ordered pairs')
        res['samples'].append({'decoder': case['decoder'], 'code': '%s%s' % (case['cls'], tuple(case['size'])),
                               'form': form, 'walk_length': len(walk), 'ordered_pairs_covered': len(pairs)})
    return finish()


def _describe(oc):
    if oc[0] == 'raise':
        return {'raises': oc[1]}
    r = np.frombuffer(oc[3], dtype=np.dtype(oc[1]))
    return {'dtype': oc[1], 'correction': [int(v) for v in r][:240]}
