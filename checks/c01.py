"""C01  Every library code is a valid [[n,k]] stabilizer code.

Alphabet: 16 exported classes x family sizes (DESIGN §3) x {undeformed} u
{deformation name x axis}.  Oracle: mc/gf2.py on the matrices the object
exposes.
"""
from mc import families as F
from mc import gf2
from mc import session

PROPERTY = 'C01'
LEVEL = 'exploration'
DESIGN_REF = 'DESIGN.md §4 C01, §3'
TECHNIQUE = ('bounded exhaustive enumeration of every (code class, lattice size in the supported family, '
             'deformation name, axis) up to a qubit bound; stabilizer-code axioms decided per configuration by '
             'an independent GF(2) reference algebra')
LEVEL_TEXT = ('All configurations below the qubit bound are built with the real constructors and every axiom '
              '(commutation of generators, logicals vs generators, canonical anticommutation, rank n-k, binary '
              'entries) is decided exactly by integer GF(2) algebra that shares no code with panqec. The defects '
              'this property guards against live at particular (non-cubic, odd, deformed) sizes the suite never '
              'builds, which a complete sweep of the small sizes reaches.')
LEVEL_NOTE = ('Trusted: mc/gf2.py (self-tested), the size-family table of DESIGN §3. Not covered: sizes above the '
              'qubit bound / per-axis length bound stated in the evidence.')
RULE = ('every (class, size, deformation) with size in the DESIGN §3 family, n <= bound and L <= l_max (at '
        'least the 3 smallest family sizes per class), plus Color666PlanarCode with L_y != L_x and the thin lattices (one or two sides of length 1) of '
        'the five open-boundary classes that accept them; each configuration is distinct by construction and '
        'non-trivial (n >= 1 qubits, at least one generator); every deformed configuration additionally as a '
        '"used object" (all derived data read, deformed by another offered name, read again, then deformed); one '
        'session per class builds several sizes/deformations one after the other in one process')
ASSUMPTIONS = ['size family per class as fixed in DESIGN.md §3',
               'GF(2) reference algebra mc/gf2.py']
BOUNDS = {'quick': {'max_n': 150, 'l_max_2d': 6, 'l_max_3d': 4, 'l_thin': 4},
          'thorough': {'max_n': 1500, 'l_max_2d': 9, 'l_max_3d': 6, 'l_thin': 6}}


def cases(tier, seed):
    b = BOUNDS[tier]
    out = F.configs(b['max_n'], F.CLASSES_2D, l_max=b['l_max_2d'], used=True)
    out += F.configs(b['max_n'], F.CLASSES_3D, l_max=b['l_max_3d'], used=True)
    # thin lattices (a side of length 1) of the open-boundary classes: accepted by the constructors
    out += F.thin_configs(b['max_n'], l_max=b['l_thin'], deformed=True)
    out += F.ignored_parameter_configs(b['max_n'], l_max=b['l_thin'], deformed=True)   # Color666Planar, L_y != L_x
    # sessions: objects of several sizes / deformations of one class built in ONE process
    sess = [{'part': 'session', 'cfgs': seq} for seq in session.interleave_by_size(out)]
    sess += [{'part': 'session', 'cfgs': seq} for seq in session.across_classes(out)]
    return out + sess


def key_of(cfg, kind, **kw):
    d = cfg.get('deformation')
    k = {'kind': kind, 'cls': cfg['cls'], 'size': list(cfg['size']),
         'square': len(set(cfg['size'])) == 1,
         'deformation': d[0] if d else None,
         'axis': (d[1].get('deformation_axis', 'default') if d else None),
         'object': 'used' if cfg.get('pre') else 'fresh'}
    k.update(kw)
    return k


def eval_case(cfg):
    if cfg.get('part') == 'session':
        return session.run(cfg['cfgs'], eval_case, F.cfg_label)
    res = {'evals': 1, 'nontrivial': 0, 'violations': [], 'outcomes': [], 'samples': []}
    V = res['violations']
    try:
        code = F.build(cfg)
        n = code.n
        H = gf2.matrix_rows(code.stabilizer_matrix)
        LX = gf2.matrix_rows(code.logicals_x)
        LZ = gf2.matrix_rows(code.logicals_z)
        k = code.k
    except Exception as exc:
        V.append({'key': key_of(cfg, 'construction-raises', exc=type(exc).__name__),
                  'detail': {'message': str(exc)[:200]}})
        return res
    m = len(H)
    if n < 1 or m < 1:
        V.append({'key': key_of(cfg, 'empty-code'), 'detail': {'n': n, 'm': m}})
        return res
    res['nontrivial'] = 1
    if code.stabilizer_matrix.shape != (m, 2 * n) or code.logicals_x.shape[1] != 2 * n \
            or code.logicals_z.shape[1] != 2 * n:
        V.append({'key': key_of(cfg, 'shape'), 'detail': {}})
        return res
    if len(LX) != len(LZ) or len(LX) != k:
        V.append({'key': key_of(cfg, 'k-mismatch'),
                  'detail': {'kx': len(LX), 'kz': len(LZ), 'k': k}})
        return res
    if k < 1:
        V.append({'key': key_of(cfg, 'no-logical-qubit'), 'detail': {}})
    # generators pairwise commute; logicals commute with generators
    for i, h in enumerate(H):
        s = gf2.syndrome(H, h, n)
        if s:
            j = (s & -s).bit_length() - 1
            V.append({'key': key_of(cfg, 'generators-anticommute'),
                      'detail': {'rows': [i, j], 'coords': [str(code.stabilizer_coordinates[i]),
                                                            str(code.stabilizer_coordinates[j])]}})
            break
    for name, L in (('logical-x', LX), ('logical-z', LZ)):
        for i, l in enumerate(L):
            s = gf2.syndrome(H, l, n)
            if s:
                j = (s & -s).bit_length() - 1
                V.append({'key': key_of(cfg, name + '-anticommutes-with-generator'),
                          'detail': {'logical': i, 'generator': j,
                                     'coord': str(code.stabilizer_coordinates[j])}})
                break
    # canonical relations
    bad = None
    for i in range(k):
        for j in range(k):
            if gf2.symp(LX[i], LZ[j], n) != (1 if i == j else 0):
                bad = bad or ('xz', i, j)
            if gf2.symp(LX[i], LX[j], n):
                bad = bad or ('xx', i, j)
            if gf2.symp(LZ[i], LZ[j], n):
                bad = bad or ('zz', i, j)
    if bad:
        V.append({'key': key_of(cfg, 'logical-pairing'), 'detail': {'first': list(bad)}})
    r = gf2.rank(H)
    if r != n - k:
        V.append({'key': key_of(cfg, 'rank'), 'detail': {'rank': r, 'n': n, 'k': k}})
    r2 = gf2.rank(H + LX + LZ)
    if r2 != r + 2 * k:
        V.append({'key': key_of(cfg, 'logicals-dependent'), 'detail': {'rank_all': r2, 'rank_H': r, 'k': k}})
    if any(h == 0 for h in H):
        V.append({'key': key_of(cfg, 'empty-generator'), 'detail': {}})
    res['outcomes'].append('%s|%d|%d|%d|%d' % (cfg['cls'], n, k, m, r))
    res['samples'].append({'config': F.cfg_label(cfg), 'n': n, 'k': k, 'generators': m, 'rank': r})
    return res
