"""C14  run-parallel executes exactly the requested trials per input.

Alphabet: (number of input files, N nodes, C cores, requested trials, job
index).  The real click callback `panqec.cli.run_parallel` is executed for
every job index of every configuration in the box; process creation is the
environment (multiprocessing.Process / cpu_count are recorders).
Oracle: summed over all tasks of all nodes every input file gets exactly the
requested trials; every task has >= 1 trial; result and log files are
pairwise distinct; every process is started; nothing raises.
"""
import contextlib
import io
import os
import shutil
import tempfile

PROPERTY = 'C14'
LEVEL = 'exploration'
DESIGN_REF = 'DESIGN.md §4 C14'
TECHNIQUE = ('bounded exhaustive enumeration of all (inputs, nodes, cores, trials, job index) configurations, '
             'each executed on the real run-parallel callback with process creation recorded')
LEVEL_TEXT = ('Every configuration of a complete box is executed on the real callback for every job index and the '
              'launched tasks are summed per input. The property is integer arithmetic over a small configuration '
              'space, so complete enumeration decides it inside the box.')
LEVEL_NOTE = ('Trusted: the recorder replacing multiprocessing.Process; run_file(n) running exactly n trials '
              '(C11/C12). Not covered: configurations outside the box.')
RULE = ('complete box of (n_inputs, nodes, cores, trials) with nodes*cores >= n_inputs and '
        'trials >= max tasks per input; for each, the real run_parallel callback runs for every job '
        'index with multiprocessing.Process/cpu_count recorded; a configuration is non-trivial when '
        'tasks-per-input does not divide trials or tasks do not divide evenly over inputs '
        '(a remainder path is exercised); distinct = distinct (n_inputs, nodes, cores, trials); the smallest and '
        'largest trial count of every configuration also run with --delete-existing (jobs one after the other, '
        'every task leaving its result file, all files must survive) and with n_cores omitted; part '
        'nodes-as-processes: every job index in its own interpreter with its own PYTHONHASHSEED (several '
        'assignments of seeds to nodes), tasks summed over the nodes')
ASSUMPTIONS = [
    'glob returns the same set of input files on every node (same shared directory)',
    'run_file(input, output, n) runs exactly n trials (that is C11/C12)',
]
BOUNDS = {
    'quick': {'n_inputs': [1, 6], 'nodes': [1, 5], 'cores': [1, 7], 'trials_max': 50,
              'procs': [(4, 4, 1, 3), (3, 2, 2, 5), (5, 3, 2, 7)], 'proc_rounds': 3},
    'thorough': {'n_inputs': [1, 8], 'nodes': [1, 7], 'cores': [1, 10], 'trials_max': 150,
                 'procs': [(4, 4, 1, 3), (3, 2, 2, 5), (5, 3, 2, 7), (6, 4, 2, 9), (7, 5, 2, 11), (2, 3, 1, 4),
                           (5, 5, 1, 6)], 'proc_rounds': 8},
}


def cases(tier, seed):
    b = BOUNDS[tier]
    out = []
    for n_inputs in range(b['n_inputs'][0], b['n_inputs'][1] + 1):
        for nodes in range(b['nodes'][0], b['nodes'][1] + 1):
            for cores in range(b['cores'][0], b['cores'][1] + 1):
                if nodes * cores < n_inputs:
                    continue
                out.append({'n_inputs': n_inputs, 'nodes': nodes, 'cores': cores,
                            'trials_max': b['trials_max']})
    # every node is its own interpreter process, as on a cluster: the hash seed of each node is an
    # environment answer (PYTHONHASHSEED), enumerated over a few assignments of distinct seeds to nodes
    for (n_inputs, nodes, cores, trials) in b['procs']:
        for rnd in range(b['proc_rounds']):
            out.append({'part': 'procs', 'n_inputs': n_inputs, 'nodes': nodes, 'cores': cores, 'trials': trials,
                        'seeds': [1 + 97 * rnd + 13 * j for j in range(nodes)]})
    return out


class _Recorder:
    launched = []

    def __init__(self, target=None, args=(), kwargs=None, **kw):
        self.rec = {'target': getattr(target, '__name__', str(target)), 'args': args,
                    'kwargs': kwargs or {}, 'started': 0, 'joined': 0}
        _Recorder.launched.append(self.rec)

    def start(self):
        self.rec['started'] += 1
        # what the launched run_file leaves behind when it completes: its result file
        try:
            with open(self.rec['args'][1], 'w') as f:
                f.write('[]')
        except OSError:
            pass

    def join(self, *a):
        self.rec['joined'] += 1


_CHILD = r'''
import sys, json, os, contextlib, io
import panqec.cli as cli
L = []
class R:
    def __init__(self, target=None, args=(), kwargs=None, **kw):
        L.append([os.path.basename(args[0]), os.path.basename(args[1]), args[2], getattr(target, "__name__", "?")])
    def start(self): pass
    def join(self, *a): pass
cli.multiprocessing.Process = R
cli.multiprocessing.cpu_count = lambda: 64
d, trials, nodes, job, cores = sys.argv[1], int(sys.argv[2]), int(sys.argv[3]), int(sys.argv[4]), int(sys.argv[5])
with contextlib.redirect_stdout(io.StringIO()):
    cli.run_parallel.callback(d, trials, nodes, job, cores, False)
print("TASKS " + json.dumps(L))
'''


def eval_procs(case):
    """Each job index runs in its own interpreter with its own hash seed (a node of a cluster); the tasks
    all nodes launch together must give every input exactly the requested trials."""
    import json
    import subprocess
    import sys
    n_inputs, nodes, cores, trials = case['n_inputs'], case['nodes'], case['cores'], case['trials']
    res = {'evals': 0, 'nontrivial': 0, 'violations': [], 'samples': [], 'outcomes': []}
    d = tempfile.mkdtemp(prefix='c14p_', dir='/dev/shm' if os.path.isdir('/dev/shm') else None)
    try:
        os.makedirs(os.path.join(d, 'inputs'))
        # names whose order is not the creation order and whose hashes are unrelated to it
        names = ['%s_L%d.json' % (['toric', 'planar', 'rotated', 'xcube', 'rhombic', 'color', 'hollow'][i], 3 + 2 * i)
                 for i in range(n_inputs)]
        for nm in names[::-1]:
            with open(os.path.join(d, 'inputs', nm), 'w') as f:
                f.write('{}')
        L, errs = [], []
        for job, hs in zip(range(1, nodes + 1), case['seeds']):
            env = dict(os.environ, PYTHONHASHSEED=str(hs))
            r = subprocess.run([sys.executable, '-c', _CHILD, d, str(trials), str(nodes), str(job), str(cores)],
                               capture_output=True, text=True, env=env)
            res['evals'] += 1
            line = [l for l in r.stdout.splitlines() if l.startswith('TASKS ')]
            if r.returncode != 0 or not line:
                errs.append('job %d: %s' % (job, (r.stderr.strip().splitlines() or ['?'])[-1][:150]))
                continue
            L += [dict(zip(('input', 'output', 'n', 'target'), t), job=job) for t in json.loads(line[0][6:])]
        per = {nm: 0 for nm in names}
        for t in L:
            per[t['input']] = per.get(t['input'], 0) + t['n']
        problems = []
        if errs:
            problems.append(('exception', '; '.join(errs)[:300]))
        else:
            if len(L) != nodes * cores:
                problems.append(('task-count', 'launched %d tasks, expected %d' % (len(L), nodes * cores)))
            if any(per.get(nm) != trials for nm in names) or set(per) != set(names):
                problems.append(('trial-count', 'per-input totals %s, requested %d' % (per, trials)))
            if len({t['output'] for t in L}) != len(L):
                problems.append(('shared-result-file', 'two tasks write the same result file'))
            if any(t['n'] < 1 for t in L):
                problems.append(('zero-trials', 'a task got fewer than 1 trial'))
        for kind, msg in problems:
            res['violations'].append({
                'key': {'part': 'nodes-as-processes', 'kind': kind, 'n_inputs': n_inputs, 'nodes': nodes,
                        'cores': cores, 'trials': trials, 'hash_seeds': list(case['seeds'])},
                'detail': {'message': msg,
                           'launched': [[t['job'], t['input'], t['output'], t['n']] for t in L][:24]}})
        res['nontrivial'] = 1
        res['outcomes'] = ['procs|%s' % sorted(per.values())]
        res['samples'].append({'part': 'nodes-as-processes', 'n_inputs': n_inputs, 'nodes': nodes, 'cores': cores,
                               'trials': trials, 'hash_seeds': case['seeds'], 'per_input': per})
    finally:
        shutil.rmtree(d, ignore_errors=True)
    return res


def eval_case(case):
    if case.get('part') == 'procs':
        return eval_procs(case)
    import panqec.cli as cli
    n_inputs, nodes, cores = case['n_inputs'], case['nodes'], case['cores']
    n_tasks = nodes * cores
    tpi_max = n_tasks // n_inputs + n_tasks % n_inputs
    res = {'evals': 0, 'nontrivial': 0, 'violations': [], 'samples': [], 'outcomes': []}
    fn = cli.run_parallel.callback
    saved = (cli.multiprocessing.Process, cli.multiprocessing.cpu_count)
    d = tempfile.mkdtemp(prefix='c14_', dir='/dev/shm' if os.path.isdir('/dev/shm') else None)
    try:
        cli.multiprocessing.Process = _Recorder
        cli.multiprocessing.cpu_count = lambda: 64
        os.makedirs(os.path.join(d, 'inputs'))
        names = ['in%d.json' % i for i in range(n_inputs)]
        for nm in names:
            with open(os.path.join(d, 'inputs', nm), 'w') as f:
                f.write('{}')
        # variants: plain; --delete-existing (jobs run one after the other, each leaving its result
        # files); n_cores omitted (None -> all cpu_count() cores)
        plan = []
        for trials in range(max(1, tpi_max), case['trials_max'] + 1):
            ends = trials in (max(1, tpi_max), case['trials_max'])
            for variant in (('plain', 'delete-existing', 'default-cores') if ends else ('plain',)):
                plan.append((trials, variant))
        for trials, variant in plan:
            _Recorder.launched = []
            err = None
            shutil.rmtree(os.path.join(d, 'results'), ignore_errors=True)
            cli.multiprocessing.cpu_count = (lambda: cores) if variant == 'default-cores' else (lambda: 64)
            try:
                with contextlib.redirect_stdout(io.StringIO()):
                    for job in range(1, nodes + 1):
                        fn(d, trials, nodes, job, None if variant == 'default-cores' else cores,
                           variant == 'delete-existing')
            except Exception as exc:          # "no configuration ... raises"
                err = '%s: %s' % (type(exc).__name__, str(exc)[:120])
            res['evals'] += 1
            L = _Recorder.launched
            per = {nm: 0 for nm in names}
            bad_input = False
            for r in L:
                nm = os.path.basename(r['args'][0])
                if nm in per:
                    per[nm] += r['args'][2]
                else:
                    bad_input = True
            problems = []
            if err:
                problems.append(('exception', err))
            else:
                if len(L) != n_tasks:
                    problems.append(('task-count', 'launched %d tasks, expected %d' % (len(L), n_tasks)))
                if bad_input:
                    problems.append(('unknown-input', 'a task was given an input that is not in inputs/'))
                if any(per[nm] != trials for nm in names):
                    problems.append(('trial-count', 'per-input totals %s, requested %d' % (per, trials)))
                if any(r['args'][2] < 1 for r in L):
                    problems.append(('zero-trials', 'a task got %d trials' % min(r['args'][2] for r in L)))
                outs = [r['args'][1] for r in L]
                if len(set(outs)) != len(outs):
                    problems.append(('shared-result-file', 'two tasks write the same result file'))
                logs = [r['kwargs'].get('log_file') for r in L]
                if len(set(logs)) != len(logs):
                    problems.append(('shared-log-file', 'two tasks write the same log file'))
                if any(r['started'] != 1 for r in L):
                    problems.append(('not-started', 'a process was not started exactly once'))
                if any(r['target'] != 'run_file' for r in L):
                    problems.append(('wrong-target', 'task does not call run_file'))
                missing = [os.path.basename(o) for o in outs if not os.path.exists(o)]
                if missing:
                    problems.append(('result-file-removed-by-another-job',
                                     'after all jobs ran, result files %s no longer exist' % missing[:4]))
            nontrivial = (n_tasks % n_inputs != 0) or any(
                trials % t for t in {n_tasks // n_inputs, tpi_max})
            res['nontrivial'] += int(nontrivial)
            res['outcomes'].append('%s|%s' % (sorted(r['args'][2] for r in L)[-3:], len(L)))
            for kind, msg in problems:
                res['violations'].append({
                    'key': {'kind': kind, 'n_inputs': n_inputs, 'nodes': nodes, 'cores': cores,
                            'trials': trials},
                    'detail': {'message': msg,
                               'launched': [[os.path.basename(r['args'][0]),
                                             os.path.basename(r['args'][1]), r['args'][2]] for r in L][:24]}})
            if trials == case['trials_max']:
                res['samples'].append({'n_inputs': n_inputs, 'nodes': nodes, 'cores': cores,
                                       'trials': trials,
                                       'task_trials': [r['args'][2] for r in L]})
    finally:
        cli.multiprocessing.Process, cli.multiprocessing.cpu_count = saved
        shutil.rmtree(d, ignore_errors=True)
    res['outcomes'] = list(set(res['outcomes']))[:50]
    return res
