"""C15  Analysis aggregates are conserved however results are split.

Alphabet: a fixed multiset of trials for two parameter points (same code, noise, decoder; error
rates 0.1 and 0.2): point A has 5 labelled trials, point B has 3.  Every set partition of A's
5 trials (Bell(5) = 52) into non-empty result files x a container kind per file in
{plain .json, .json.gz, member of a .zip, merged into one list by the real `merge-results`
command} x orders in which the files are presented (all permutations for <= 3 files, plus the
"give Analysis the directory" form, in which files sit in nested sub-directories and every second
base name carries extra dots, e.g. p0.05/run_p0.05.v0.json, batch.2/deep/res.2.json.gz, also for
the zip archive, its members and the merged file); B's trials are dealt round-robin over the same files, so a
parameter point repeats over several files and most files hold records of both points.  Records are
written by the real DirectSimulation/BatchSimulation.save_file code (trial outcomes injected).
k in {1, 2, 3} (Planar2DCode 2x2, Toric2DCode 2x2, Toric3DCode 2x2x2); the trial sets walk through
all (effective error, codespace) types: all 8 for k=1, the first ones of a fixed stride order for
k=2, 3 (thorough: all 32 for k=2).

A third parameter point C (2 trials, dealt from the last file backwards) has A's code, decoder and
error rate but a noise direction that differs from A's at the 1e-8 level only: A and C must stay
separate rows (rows are identified by error rate AND exact noise direction).  A 'large count'
family adds one parameter point with 600 trials (repeating pattern: per logical qubit 300 hits of one
Pauli type, 60 of each other, every fifth trial outside the codespace) split into 2 or 3 files of
unequal length in 6 container combinations x {explicit paths, directory}.

An identical-content family stores the same records in 2 or 3 distinct files (different names,
directories, plain/gz/zip member/merged) next to at most one other file, the equal files at every
position: the pooled numbers count every file.

A merge-history family runs sequences of real `merge-results` commands on 3 (thorough also 4) part
files - ordered input selections, output = a fresh path or any one of the inputs (incremental
merging), merged files merged again - and analyses the output after every command: it must report
the pooled counts of exactly the parts that went in.

Oracle (plain Python on the pooled trial list, no panqec code): one row per error rate; n_trials,
n_fail, p_est = n_fail/n, p_se = sqrt(p(1-p)/(n+1)); n_trials_X/Z = k * #codespace, n_fail_X/Z =
flagged X/Z bits among codespace trials; p_word = 1-(1-p)^(1/k) and (1/k)(1-p)^(1/k-1) p_se;
single_qubit_p_est[i, c] = fraction of pooled trials whose i-th logical qubit carries (any, X, Y, Z)
and single_qubit_p_se[i, c] = sqrt(q(1-q)/(n+1)).  In addition every layout's table must be equal
to the table obtained from the unsplit single plain file (differential oracle).
"""
import itertools
import math
import os
import shutil
import tempfile
import traceback
import warnings
import zipfile

PROPERTY = 'C15'
LEVEL = 'exploration'
DESIGN_REF = 'DESIGN.md §4 C15, §5 D6'
TECHNIQUE = ('bounded exhaustive enumeration of all set partitions of a 5-trial multiset into result files x '
             'container kind per file x file orders, each analysed by the real Analysis pipeline and compared with '
             'hand-pooled counts and with the unsplit layout')
LEVEL_TEXT = ('Every way of splitting the fixed trial multiset over files/containers inside the stated bound is '
              'written with the real result writers, read back by the real Analysis pipeline (find_files, '
              'read_files, read_entry, aggregate, calculate_*_error_rates, sector counts) and compared column by '
              'column with counts and formulas evaluated by hand on the pooled trial list. The property is about '
              'bookkeeping (grouping, summing, concatenating, masks, formulas), whose defects show on tiny inputs; '
              'a complete sweep of small splittings decides it inside the bound, not beyond.')
LEVEL_NOTE = ('Trusted: the oracle arithmetic in this file; the injection of chosen trial outcomes into real '
              'DirectSimulation objects (the outcomes themselves are C11\'s subject). Analysis.calculate_thresholds '
              '(the fit, C16) is replaced by a no-op on the instance so that calculate_sector_thresholds only '
              'computes the sector count columns. Not covered: more than 5 trials per point, files with zero '
              'trials, nested containers (zip inside zip, merged file inside zip), splitting-method records, '
              'p_est = 1 with k > 1 (the stated word-error propagation formula is undefined there).')
RULE = ('one sub-case = (k, trial set, set partition of the 5 trials of point A into f files, container kind per '
        'file, presentation order); all distinct by construction; all 52 partitions in every mode. '
        'Mode t: all 4^f kind assignments; all f! orders + the directory form for f <= 3, identity/reversed/'
        'directory for f >= 4. Mode q: all 4^f kind assignments for f <= 3 (f >= 4: the 4 uniform and 4 cyclic '
        'ones); all orders + directory form for f <= 2 and for uniform kinds at f = 3 (mixed kinds at f = 3: '
        'identity order; f >= 4: identity/reversed/directory). Mode r: as q but at f = 3 only the uniform and '
        'cyclic kind assignments. quick: k=1 two trial sets in mode q (all 8 trial types), k=2 and k=3 one trial '
        'set each in mode r. thorough: mode t for the first two trial sets of every k, mode q for the further '
        'ones (k=2: 8 sets = all 32 trial types, k=3: 3 sets). Every layout also carries points B (other error '
        'rate) and C (same rate as A, noise direction 1e-8 away). Both tiers add the large-count family: per k, '
        '600 trials of one point in files of lengths [150,450] and [100,257,243] x 6 kind combinations x '
        '{explicit paths, directory}. Identical-content family (both tiers): 2..4 distinct files of which 2 or 3 '
        'hold equal records (same inputs, outcomes, wall_time), the equal ones at every position, two record '
        'contents (same-seed chunks / all-success chunks), 6 container assignments x {explicit paths, nested '
        'directories}; every file counts. Merge-history family (both tiers): the trial multiset in 3 part '
        'files (thorough, k=1: also 4); every sequence of merge-results commands, each = an ordered selection of '
        '>= 2 present files x output in {fresh path, each of its inputs}, consumed inputs removed, until one file '
        'is left; the output is analysed after every command (quick adds, for k=1, 4 parts merged pairwise and '
        'then together). A sub-case is counted non-trivial when the layout '
        'holds more result records than parameter points (a point is repeated over files, so pooling has to '
        'happen) or uses a container other than plain json; counted as distinct (kinds, order) layouts per work '
        'item (work items are disjoint).')
ASSUMPTIONS = [
    'a result record is what DirectSimulation.get_results_to_save produces; trial outcomes are injected, not simulated',
    'success of a trial = zero effective error and in codespace (definition used by run_once)',
    'Analysis.calculate_thresholds (curve fit, property C16) stubbed on the instance; sector count columns are '
    'computed by the real calculate_sector_thresholds before that call',
    'float comparisons use absolute tolerance 1e-12 (all quantities are ratios of integers <= 15 and one sqrt/pow)',
]
BOUNDS = {
    'quick': {'trials_point_A': 5, 'trials_point_B': 3, 'partitions': 52, 'error_rates': [0.1, 0.2],
              'trials_point_C': 2, 'noise_offset_point_C': 1e-8, 'large_family_trials': 600,
              'large_family_file_lengths': [[150, 450], [100, 257, 243]],
              'merge_parts': {'1': [3], '2': [3], '3': [3]},
              'trial_sets': {'1': 2, '2': 1, '3': 1}, 'mode': {'1': 'qq', '2': 'r', '3': 'r'}},
    'thorough': {'trials_point_A': 5, 'trials_point_B': 3, 'partitions': 52, 'error_rates': [0.1, 0.2],
                 'trials_point_C': 2, 'noise_offset_point_C': 1e-8, 'large_family_trials': 600,
                 'large_family_file_lengths': [[150, 450], [100, 257, 243]],
                 'merge_parts': {'1': [3, 4], '2': [3], '3': [3]},
                 'trial_sets': {'1': 2, '2': 8, '3': 3}, 'mode': {'1': 'tt', '2': 'ttq', '3': 'ttq'}},
}
BUDGET_S = {'quick': 600, 'thorough': 7200}

KINDS = ['json', 'gz', 'zip', 'merged']
RATES = [0.1, 0.2]
N_A = 5
N_B = 3
N_C = 2
# noise directions: A and B use NOISE[0]; point C has A's code, decoder and error rate but a direction that
# differs from A's at the 1e-8 level only (still a valid direction: sums to 1) - a different parameter point
NOISE = [(1 / 3, 1 / 3, 1 / 3), (1 / 3 + 1e-8, 1 / 3, 1 / 3 - 1e-8)]
POINTS = {'A': (RATES[0], 0), 'B': (RATES[1], 0), 'C': (RATES[0], 1)}
# 'large count' family: one parameter point with N_LARGE trials (a repeating pattern of LARGE_PERIOD trial
# types), split into files of unequal length; per logical qubit 300 hits of one Pauli type (more than any
# 8-bit counter holds), 60 of each other type, 180 clean
N_LARGE = 600
LARGE_PERIOD = 10
LARGE_SPLITS = [[150, 450], [100, 257, 243]]
LARGE_KINDS = {2: [(0, 0), (1, 1), (2, 2), (3, 3), (0, 1), (2, 3)],
               3: [(0, 0, 0), (1, 1, 1), (2, 2, 2), (3, 3, 3), (0, 1, 2), (1, 2, 3)]}
TOL = 1e-12
CODES = {1: ('Planar2DCode', (2, 2)), 2: ('Toric2DCode', (2, 2)), 3: ('Toric3DCode', (2, 2, 2))}
STRIDE = {1: 3, 2: 7, 3: 37}
MAX_ITEM = 200


# --------------------------------------------------------------------------- the trial multisets

def _type(t, k):
    """Trial type number t -> (effective error bits, codespace, success).

    Low 2k bits of t = effective error (bit j = column j, X block first), top bit = NOT in codespace.
    t = 0 is the only successful type."""
    ee = [(t >> j) & 1 for j in range(2 * k)]
    cs = not ((t >> (2 * k)) & 1)
    return (ee, cs, (not any(ee)) and cs)


def _sequence(k):
    n = 2 ** (2 * k + 1) - 1            # number of non-success types (7, 31, 127: all coprime to the stride)
    assert math.gcd(STRIDE[k], n) == 1
    return [1 + (i * STRIDE[k]) % n for i in range(n)]


def trial_sets(k, s):
    """Trials of point A (5) and B (3) of trial set s: type numbers."""
    seq = _sequence(k)
    n = len(seq)
    chunk = seq[4 * s:4 * s + 4]
    a = [0] + chunk + [0] * (4 - len(chunk))
    mid = 0 if (s % 2 == 0 or k > 1) else seq[(4 * s + 2) % n]
    b = [seq[(4 * s + 6) % n], mid, seq[(4 * s + 11) % n]]
    c = [seq[(4 * s + 9) % n], 0]
    return a, b, c


def large_trials(k):
    """N_LARGE trial type numbers: trial j puts on logical qubit i the Pauli PAT[(j + i) % 10] (X and Z swapped
    on odd qubits); every fifth trial is outside the codespace.  Trial j = 7 (mod 10) is a success."""
    pat = ['X', 'X', 'X', 'X', 'X', 'Y', 'Z', 'I', 'I', 'I']
    bits = {'I': (0, 0), 'X': (1, 0), 'Y': (1, 1), 'Z': (0, 1)}
    out = []
    for j in range(N_LARGE):
        t = 0
        for i in range(k):
            x, z = bits[pat[(j + i) % LARGE_PERIOD]]
            if i % 2 == 1:
                x, z = z, x
            t |= (x << i) | (z << (k + i))
        if j % 5 == 4:
            t |= 1 << (2 * k)
        out.append(t)
    return out


def partitions(xs):
    """All set partitions of the list xs (blocks ordered by smallest element)."""
    if not xs:
        yield []
        return
    first, rest = xs[0], xs[1:]
    for p in partitions(rest):
        yield [[first]] + p
        for i in range(len(p)):
            yield p[:i] + [[first] + p[i]] + p[i + 1:]


def _canon_part(p):
    return sorted(sorted(b) for b in p)


# --------------------------------------------------------------------------- layouts of one partition

def _orders(nb, which):
    perms = [list(p) for p in itertools.permutations(range(nb))]
    ident = list(range(nb))
    if which == 'all':
        return perms + ['dir']
    if which == 'ends':
        out = [ident]
        if nb > 1:
            out.append(ident[::-1])
        return out + ['dir']
    if which == 'rest':                  # everything but the identity
        return [p for p in perms if p != ident] + ['dir']
    return [ident]


def layouts(nb, mode):
    """Deterministic list of (kinds tuple, order) for nb files."""
    out = []
    every = list(itertools.product(range(4), repeat=nb))
    uniform = [tuple([c] * nb) for c in range(4)]
    if mode == 't':
        for kinds in every:
            for o in _orders(nb, 'all' if nb <= 3 else 'ends'):
                out.append((kinds, o))
    else:
        if nb <= 2:
            for kinds in every:
                for o in _orders(nb, 'all'):
                    out.append((kinds, o))
        elif nb == 3:
            cyc = [tuple((i + s) % 4 for i in range(nb)) for s in range(4)]
            for kinds in (every if mode == 'q' else uniform + cyc):
                out.append((kinds, list(range(nb))))
            for kinds in uniform:
                for o in _orders(nb, 'rest'):
                    out.append((kinds, o))
        else:
            cyc = [tuple((i + s) % 4 for i in range(nb)) for s in range(4)]
            for kinds in uniform + cyc:
                for o in _orders(nb, 'ends'):
                    out.append((kinds, o))
    return out


def cases(tier, seed):
    b = BOUNDS[tier]
    parts = sorted((_canon_part(p) for p in partitions(list(range(N_A)))), key=lambda p: (len(p), p))
    assert len(parts) == 52
    out = []
    for part in parts:
        nb = len(part)
        for k in (1, 2, 3):
            for s in range(b['trial_sets'][str(k)]):
                modes = b['mode'][str(k)]
                mode = modes[min(s, len(modes) - 1)]
                lay = layouts(nb, mode)
                plen = 0
                while True:
                    groups = {}
                    for kinds, o in lay:
                        groups.setdefault(kinds[:plen], 0)
                        groups[kinds[:plen]] += 1
                    if max(groups.values()) <= MAX_ITEM or plen == nb:
                        break
                    plen += 1
                for prefix in sorted(groups):
                    out.append({'k': k, 'set': s, 'part': part, 'mode': mode, 'prefix': list(prefix)})
    out.sort(key=lambda c: (len(c['part']), c['k'], c['set'], c['part'], c['prefix']))
    for k in (1, 2, 3):
        for split in LARGE_SPLITS:
            out.append({'family': 'large', 'k': k, 'split': split})
    # identical-content family: several distinct files hold equal records
    for k in (1, 2, 3):
        for variant in ('same-seed', 'all-success'):
            for seq in DUP_SEQUENCES:
                out.append({'family': 'dup', 'k': k, 'variant': variant, 'seq': seq})
    # merge histories: one work item per (k, ordered input selection of the first merge command)
    for k in (1, 2, 3):
        for n_parts in b['merge_parts'][str(k)]:
            for r in range(2, n_parts + 1):
                for first in itertools.permutations(range(n_parts), r):
                    out.append({'family': 'merge', 'k': k, 'n_parts': n_parts, 'first': list(first)})
        if 4 not in b['merge_parts'][str(k)] and k == 1:
            # two separately merged files merged again (all outputs at each of the three steps)
            out.append({'family': 'merge', 'k': k, 'n_parts': 4, 'first': [0, 1], 'second': [3, 2]})
    return out


# --------------------------------------------------------------------------- oracle (no panqec code)

def _se(p, n):
    return math.sqrt(p * (1 - p) / (n + 1))


def oracle_row(trials, k):
    """Expected columns for one parameter point from the pooled list of (ee, cs, success)."""
    n = len(trials)
    n_fail = sum(1 for ee, cs, ok in trials if not ok)
    p = n_fail / n
    se = _se(p, n)
    row = {'n_trials': n, 'n_fail': n_fail, 'p_est': p, 'p_se': se}
    inside = [ee for ee, cs, ok in trials if cs]
    row['n_trials_X'] = k * len(inside)
    row['n_trials_Z'] = k * len(inside)
    row['n_fail_X'] = sum(sum(ee[:k]) for ee in inside)
    row['n_fail_Z'] = sum(sum(ee[k:]) for ee in inside)
    row['p_word_est'] = 1 - (1 - p) ** (1 / k)
    # the stated propagation formula is undefined at p = 1 for k > 1 (0 to a negative power): not compared
    # (cannot happen for the full trial sets, only for partial contents in the merge-history family)
    row['p_word_se'] = None if (p == 1 and k > 1) else (1 / k) * (1 - p) ** (1 / k - 1) * se
    est, ses = [], []
    for i in range(k):
        pairs = [(ee[i], ee[k + i]) for ee, cs, ok in trials]
        q = [sum(1 for x in pairs if x != (0, 0)) / n,
             sum(1 for x in pairs if x == (1, 0)) / n,
             sum(1 for x in pairs if x == (1, 1)) / n,
             sum(1 for x in pairs if x == (0, 1)) / n]
        est.append(q)
        ses.append([_se(x, n) for x in q])
    row['single_qubit_p_est'] = est
    row['single_qubit_p_se'] = ses
    return row


INT_COLS = ['n_trials', 'n_fail', 'n_trials_X', 'n_fail_X', 'n_trials_Z', 'n_fail_Z']
FLOAT_COLS = ['p_est', 'p_se', 'p_word_est', 'p_word_se']
ARRAY_COLS = ['single_qubit_p_est', 'single_qubit_p_se']
ALL_COLS = INT_COLS + FLOAT_COLS + ARRAY_COLS


def _close(a, b):
    if isinstance(a, list):
        return len(a) == len(b) and all(_close(x, y) for x, y in zip(a, b))
    if isinstance(a, float) or isinstance(b, float):
        if math.isnan(a) or math.isnan(b):
            return False
        return abs(a - b) <= TOL
    return a == b


# --------------------------------------------------------------------------- running the real code

def _in_panqec(exc):
    for fs in traceback.extract_tb(exc.__traceback__):
        f = fs.filename.replace('\\', '/')
        if '/panqec/' in f and '/verif/' not in f:
            return True
    return False


class _MissingColumns(Exception):
    pass


class _Ctx:
    """Per-case panqec objects (built fresh inside eval_case)."""

    def __init__(self, k):
        import numpy as np
        import panqec.codes as codes
        from panqec.error_models import PauliErrorModel
        from panqec.decoders import BeliefPropagationOSDDecoder
        from panqec.simulation import DirectSimulation, BatchSimulation
        from panqec.analysis import Analysis
        from panqec.cli import cli
        from click.testing import CliRunner
        self.np = np
        name, size = CODES[k]
        self.k = k
        self.code = getattr(codes, name)(*size)
        assert self.code.k == k
        self.ems = [PauliErrorModel(*r) for r in NOISE]
        self.dec = BeliefPropagationOSDDecoder(self.code, self.ems[0], 0.1)
        self.DirectSimulation = DirectSimulation
        self.BatchSimulation = BatchSimulation
        self.Analysis = Analysis
        self.cli = cli
        self.CliRunner = CliRunner

    def write(self, path, records, bare=False, ulp=False):
        """records: list of (point label, [trial types]) -> one result file written by the real writer."""
        np = self.np
        batch = self.BatchSimulation(path, verbose=False)
        for label, types in records:
            rate, noise = POINTS[label]
            if ulp:
                # the same requested rate as another float path produces it (np.linspace / arange give
                # 0.30000000000000004 for 0.3): one unit in the last place away, still the same point
                rate = float(np.nextafter(rate, 1.0))
            sim = self.DirectSimulation(self.code, self.ems[noise], self.dec, rate, verbose=False)
            for t in types:
                ee, cs, ok = _type(t, self.k)
                # exactly what DirectSimulation._run appends from run_once's dict
                sim._results['effective_error'].append(np.array(ee))
                sim._results['success'].append(ok)
                sim._results['codespace'].append(bool(cs))
                sim._results['n_runs'] += 1
            sim._results['wall_time'] = 0.25 * len(types)
            batch.append(sim)
        batch.save_file()
        if bare and len(records) == 1:
            # the same record as a bare {'inputs', 'results'} dict at top level (read_entry accepts a dict as
            # well as a list): a legitimate plain container holding one repeated-run record
            import gzip
            import json
            opener = gzip.open if path.endswith('.gz') else open
            with opener(path, 'rt') as f:
                data = json.load(f)
            if isinstance(data, list) and len(data) == 1:
                with opener(path, 'wt') as f:
                    json.dump(data[0], f)

    def analyse(self, paths):
        """Run the real pipeline; return {point label: {column: value}} and the number of raw records."""
        a = self.Analysis(paths)
        a.calculate_thresholds = lambda *args, **kw: None       # the fit is C16's subject
        a.calculate_sector_thresholds()
        df = a.get_results()
        missing = [c for c in ['error_rate'] + ALL_COLS if c not in df.columns]
        if missing:
            raise _MissingColumns(missing)
        table = {}
        rates = []
        for _, r in df.iterrows():
            rate = float(r['error_rate'])
            params = r['error_model_params'] if 'error_model_params' in df.columns else {}
            direction = tuple(params.get(c) for c in ('r_x', 'r_y', 'r_z'))
            # a row is identified by (error rate, noise direction) - exact parameter values, no rounding
            label = [lb for lb, (pr, pn) in POINTS.items() if pr == rate and NOISE[pn] == direction]
            label = label[0] if label else 'rate=%r direction=%r' % (rate, direction)
            if label in table:
                label += ' (row %d)' % len(rates)
            rates.append(label)
            row = {'error_rate': rate, 'direction': list(direction)}
            for c in INT_COLS:
                row[c] = int(r[c])
            for c in FLOAT_COLS:
                row[c] = float(r[c])
            for c in ARRAY_COLS:
                arr = self.np.asarray(r[c], dtype=float)
                row[c] = [[float(x) for x in line] for line in arr.tolist()] if arr.ndim == 2 else arr.tolist()
            table[label] = row
        return table, rates, len(a.raw)


def _file_records(part, a_types, b_types, c_types):
    """Per file (block of the partition) the list of records, in file-internal order.  A's trials follow the
    partition, B's are dealt round-robin from the first file on, C's from the last file backwards."""
    nb = len(part)
    files = []
    for i, block in enumerate(part):
        rec_a = ('A', [a_types[j] for j in block])
        b_here = [b_types[j] for j in range(N_B) if j % nb == i]
        c_here = [c_types[j] for j in range(N_C) if (nb - 1 - j) % nb == i]
        recs = [rec_a]
        if b_here:
            rec_b = ('B', b_here)
            recs = [rec_a, rec_b] if i % 2 == 0 else [rec_b, rec_a]
        if c_here:
            rec_c = ('C', c_here)
            recs = recs + [rec_c] if (i + nb) % 2 == 0 else [rec_c] + recs
        files.append(recs)
    return files


def _build(ctx, d, files, kinds, order, identical=False):
    """Write the layout into directory d; return the argument for Analysis()."""
    perm = list(range(len(files))) if order == 'dir' else order
    plain = {}
    zipped, merged = [], []
    for pos, i in enumerate(perm):
        kind = KINDS[kinds[i]]
        ext = '.json.gz' if (kind == 'gz' or (kind in ('zip', 'merged') and i % 2 == 1)) else '.json'
        base, nest = 'f%d' % i, ''
        if order == 'dir':
            # a results directory as users lay it out: nested sub-directories and base names carrying
            # parameter values / run numbers with dots; find_files globs '*.zip', '*.json.gz', '*.json'
            # recursively, so every such file belongs to the analysed set
            if i % 2 == 0:
                base = ('run_p0.05.v%d' if kind != 'gz' else 'res.%d') % i
            nest = ['', 'p0.05', os.path.join('batch.2', 'deep')][i % 3]
        sub = os.path.join(d, nest) if kind in ('json', 'gz') else os.path.join(d, 'tmp', nest)
        os.makedirs(sub, exist_ok=True)
        path = os.path.join(sub, base + ext)
        if identical:
            # files with equal records are written byte for byte alike (no bare/ulp variation)
            ctx.write(path, files[i])
        else:
            ctx.write(path, files[i], bare=(len(files[i]) == 1 and (i + len(files)) % 2 == 0), ulp=(i % 2 == 1))
        if kind == 'zip':
            zipped.append((pos, path))
        elif kind == 'merged':
            merged.append((pos, path))
        else:
            plain[pos] = path
    units = dict(plain)
    if zipped:
        zpath = os.path.join(d, 'archive.zip')
        if order == 'dir':
            os.makedirs(os.path.join(d, 'p0.05'), exist_ok=True)
            zpath = os.path.join(d, 'p0.05', 'archive.v1.zip')
        tmp = os.path.join(d, 'tmp')
        with zipfile.ZipFile(zpath, 'w') as z:
            for _, p in zipped:
                # member names keep their (possibly nested, dotted) relative path inside the archive
                z.write(p, os.path.relpath(p, tmp).replace(os.sep, '/'))
        units[zipped[0][0]] = zpath
    if merged:
        mpath = os.path.join(d, 'merged-results.json.gz' if order != 'dir' else 'merged.p0.1.json.gz')
        r = ctx.CliRunner().invoke(ctx.cli, ['merge-results'] + [p for _, p in merged] + ['-o', mpath])
        if r.exit_code != 0 or not os.path.isfile(mpath):
            if r.exception is not None and not isinstance(r.exception, SystemExit):
                raise r.exception
            raise RuntimeError('merge-results exit code %s: %s' % (r.exit_code, r.output[-200:]))
        units[merged[0][0]] = mpath
    shutil.rmtree(os.path.join(d, 'tmp'), ignore_errors=True)
    if order == 'dir':
        return d
    return [units[pos] for pos in sorted(units)]


def _digest(table):
    import hashlib
    import json
    return hashlib.sha1(json.dumps(table, sort_keys=True).encode()).hexdigest()[:10]


DUP_SEQUENCES = ['XX', 'XXX', 'XXY', 'XYX', 'YXX', 'XXXY', 'XXYX', 'XYXX', 'YXXX']


def dup_contents(k, variant):
    """Record lists X (the content carried by several distinct files) and Y (another content)."""
    a, b, c = trial_sets(k, 0)
    if variant == 'same-seed':           # chunks that ran the same seed: equal records, mixed outcomes
        return {'X': [('A', [a[1], a[0]]), ('B', [b[0], 0])], 'Y': [('A', [a[2], a[3]]), ('C', [c[0], 0])]}
    return {'X': [('A', [0, 0])], 'Y': [('A', [a[1]]), ('B', [0])]}      # equal chunks of an all-success run


def dup_kinds(nb):
    return [tuple([c] * nb) for c in range(4)] + [tuple((i + sh) % 3 for i in range(nb)) for sh in (0, 1)]


MERGE_PARTITION = {3: [[0, 1], [2], [3, 4]], 4: [[0], [1, 2], [3], [4]]}


def _merge_ops(state):
    """All merge commands on the present files: an ordered selection of >= 2 files x output in {a fresh path,
    each of the inputs}.  state: {file name: frozenset of part ids it holds} (contents are pairwise disjoint, so
    every trial goes in once)."""
    names = sorted(state)
    for r in range(2, len(names) + 1):
        for inputs in itertools.permutations(names, r):
            for out in (None,) + inputs:
                yield list(inputs), out


def _eval_merge(case):
    """Merge histories through the real merge-results command.

    The trial multiset (trial set 0 of k: points A, B, C) is written to n_parts part files; a history is a sequence
    of merge commands, each taking an ordered selection of the present files and writing either a fresh path or
    one of its own inputs (incremental merging: merged = merge(merged, next), at every input position); inputs
    other than the output are consumed (removed), so every trial is in exactly one file at any time.  After each
    command the output file is analysed: it must report exactly the pooled counts of all parts that went in."""
    k, n_parts, first = case['k'], case['n_parts'], case['first']
    res = {'evals': 0, 'nontrivial': 0, 'violations': [], 'samples': [], 'outcomes': [],
           'extra': {'analyses': 0, 'violations_total': 0, 'layouts_with_violation': 0, 'raw_records_read': 0,
                     'merge_commands': 0, 'merge_history_analyses': 0, 'merge_output_is_input': 0}}
    V = res['violations']
    a_types, b_types, c_types = trial_sets(k, 0)
    files = _file_records(MERGE_PARTITION[n_parts], a_types, b_types, c_types)
    ctx = _Ctx(k)
    root = tempfile.mkdtemp(prefix='c15_', dir='/dev/shm' if os.path.isdir('/dev/shm') else None)
    seen = set()
    outcomes = set()
    counter = [0]

    def part_name(i):
        return 'part%d%s' % (i, '.json.gz' if i % 2 else '.json')

    def emit(key, detail):
        res['extra']['violations_total'] += 1
        if len(V) < 5 and not any(v['key'] == key for v in V):
            V.append({'key': key, 'detail': detail})

    def explore(d, state, hist, forced=()):
        # forced: input selections prescribed for the first steps (all outputs are still enumerated)
        ops = list(_merge_ops(state))
        if len(hist) < len(forced):
            ops = [(i, o) for i, o in ops if i == forced[len(hist)]]
        for inputs, out in ops:
            counter[0] += 1
            d2 = os.path.join(root, 'h%d' % counter[0])
            shutil.copytree(d, d2)
            fresh = out is None
            # fresh outputs alternate between the default compressed name and a plain .json name
            out_name = out if not fresh else ('merged%d%s' % (len(hist), '.json' if len(inputs) % 2 else '.json.gz'))
            cmd = ['merge-results'] + inputs + ['-o', out_name]
            step = {'inputs': inputs, 'output': out_name, 'output_is_input': not fresh,
                    'output_position': None if fresh else inputs.index(out)}
            hist2 = hist + [step]
            content = frozenset().union(*[state[f] for f in inputs])
            pooled = {}
            for i in sorted(content):
                for lb, ts in files[i]:
                    pooled.setdefault(lb, []).extend(ts)
            labels = sorted(pooled)
            expected = {lb: oracle_row([_type(t, k) for t in pooled[lb]], k) for lb in labels}
            key0 = {'family': 'merge', 'k': k, 'n_parts': n_parts, 'step': len(hist2), 'n_inputs': len(inputs),
                    'output_is_input': not fresh, 'output_position': step['output_position']}
            where = {'history': ['panqec merge-results %s -o %s' % (' '.join(h['inputs']), h['output'])
                                 for h in hist2],
                     'part_files': {part_name(i): [[lb, ts] for lb, ts in files[i]] for i in range(n_parts)},
                     'parts_in_output': sorted(content),
                     'pooled_n_trials': {lb: len(pooled[lb]) for lb in labels}}
            table = None
            cwd = os.getcwd()
            try:
                os.chdir(d2)
                with warnings.catch_warnings():
                    warnings.simplefilter('ignore')
                    try:
                        r = ctx.CliRunner().invoke(ctx.cli, cmd)
                        if r.exit_code != 0 or not os.path.isfile(out_name):
                            if r.exception is not None and not isinstance(r.exception, SystemExit):
                                raise r.exception
                            raise RuntimeError('merge-results exit code %s: %s' % (r.exit_code, r.output[-200:]))
                        for f in inputs:
                            if f != out_name:
                                os.remove(f)
                        table, rows, n_raw = ctx.analyse([os.path.join(d2, out_name)])
                    except _MissingColumns as exc:
                        emit(dict(key0, kind='missing-column', column=exc.args[0][0]),
                             dict(where, missing_columns=exc.args[0]))
                        outcomes.add('merge|%d|missing' % k)
                    except Exception as exc:
                        if not _in_panqec(exc):
                            raise
                        emit(dict(key0, kind='raises', exc=type(exc).__name__),
                             dict(where, message=str(exc)[:300], traceback=traceback.format_exc()[-1200:]))
                        outcomes.add('merge|%d|raises|%s' % (k, type(exc).__name__))
            finally:
                os.chdir(cwd)
            res['evals'] += 1
            res['extra']['merge_commands'] += 1
            res['extra']['merge_output_is_input'] += int(not fresh)
            seen.add(repr([(h['inputs'], h['output']) for h in hist2]))
            before = res['extra']['violations_total']
            if table is not None:
                res['extra']['analyses'] += 1
                res['extra']['merge_history_analyses'] += 1
                res['extra']['raw_records_read'] += n_raw
                outcomes.add('merge|%d|%s|%d|%s' % (k, sorted(content), n_raw, _digest(table)))
                if sorted(rows) != labels:
                    emit(dict(key0, kind='rows', n_rows=len(rows), n_points=len(labels)),
                         dict(where, rows_reported=[{'row': lb, 'n_trials': table[lb]['n_trials']} for lb in rows]))
                else:
                    for lb in labels:
                        for col in ALL_COLS:
                            got, want = table[lb][col], expected[lb][col]
                            if want is not None and not _close(got, want):
                                emit(dict(key0, kind='value', column=col, point=lb),
                                     dict(where, point=lb, reported=got, hand_pooled=want))
                if len(res['samples']) < 2 and not fresh:
                    res['samples'].append({'family': 'merge', 'k': k, 'history': where['history'],
                                           'reported_n_trials': {lb: table[lb]['n_trials'] for lb in table},
                                           'pooled_n_trials': where['pooled_n_trials']})
            if res['extra']['violations_total'] > before or table is None:
                res['extra']['layouts_with_violation'] += 1
            state2 = {f: c for f, c in state.items() if f not in inputs}
            state2[out_name] = content
            if table is not None and len(state2) > 1:
                explore(d2, state2, hist2, forced)
            shutil.rmtree(d2, ignore_errors=True)

    try:
        d0 = os.path.join(root, 'start')
        os.makedirs(d0)
        for i in range(n_parts):
            ctx.write(os.path.join(d0, part_name(i)), files[i], ulp=(i % 2 == 1))
        forced = [[part_name(i) for i in sel] for sel in [first] + ([case['second']] if 'second' in case else [])]
        explore(d0, {part_name(i): frozenset([i]) for i in range(n_parts)}, [], forced)
    finally:
        shutil.rmtree(root, ignore_errors=True)
    res['nontrivial'] = len(seen)          # every history prefix pools >= 2 files through the real command
    res['outcomes'] = sorted(outcomes)[:50]
    return res


def eval_case(case):
    if case.get('family') == 'merge':
        return _eval_merge(case)
    k = case['k']
    fam = case.get('family')
    large = fam == 'large'
    res = {'evals': 0, 'nontrivial': 0, 'violations': [], 'samples': [], 'outcomes': [],
           'extra': {'analyses': 0, 'violations_total': 0, 'layouts_with_violation': 0,
                     'raw_records_read': 0, 'merge_commands': 0, 'zip_archives': 0, 'large_count_analyses': 0}}
    V = res['violations']
    if large:
        s, mode, prefix = 0, None, ()
        split = case['split']
        nb = len(split)
        part = split                     # reported as the file lengths
        pooled = {'A': large_trials(k)}
        assert sum(split) == N_LARGE
        files, at = [], 0
        for n in split:
            files.append([('A', pooled['A'][at:at + n])])
            at += n
        plan = [(kinds, o) for kinds in LARGE_KINDS[nb] for o in (list(range(nb)), 'dir')]
    elif fam == 'dup':
        s, mode, prefix = 0, None, ()
        seq = case['seq']
        nb = len(seq)
        part = seq                       # reported as the content letter per file
        content = dup_contents(k, case['variant'])
        files = [[(lb, list(ts)) for lb, ts in content[c]] for c in seq]
        pooled = {}
        for f in files:
            for lb, ts in f:
                pooled.setdefault(lb, []).extend(ts)
        plan = [(kinds, o) for kinds in dup_kinds(nb) for o in (list(range(nb)), 'dir')]
    else:
        s, part, mode, prefix = case['set'], case['part'], case['mode'], tuple(case['prefix'])
        nb = len(part)
        a_types, b_types, c_types = trial_sets(k, s)
        pooled = {'A': a_types, 'B': b_types, 'C': c_types}
        files = _file_records(part, a_types, b_types, c_types)
        plan = [(kinds, o) for kinds, o in layouts(nb, mode) if kinds[:len(prefix)] == prefix]
    labels = sorted(pooled)
    expected = {lb: oracle_row([_type(t, k) for t in pooled[lb]], k) for lb in labels}
    # the split must be a split of exactly the fixed multiset (harness self-check)
    for lb in labels:
        assert sorted(t for f in files for r, ts in f if r == lb for t in ts) == sorted(pooled[lb])
    ctx = _Ctx(k)
    root = tempfile.mkdtemp(prefix='c15_', dir='/dev/shm' if os.path.isdir('/dev/shm') else None)
    nontrivial = set()
    outcomes = set()

    def brief(recs):
        """Records of one file for the report: trial types, or their number when there are many."""
        return [[lb, ts if len(ts) <= 8 else '%d trials' % len(ts)] for lb, ts in recs]

    def emit(key, detail):
        # at most 4 oracle mismatches + 2 split-dependence reports per case (first = simplest); all are counted
        res['extra']['violations_total'] += 1
        if fam:
            key = dict(key, family=fam)
        split_dep = key['kind'] == 'split-dependence'
        same = sum(1 for v in V if (v['key']['kind'] == 'split-dependence') == split_dep)
        if same < (2 if split_dep else 4) and not any(v['key'] == key for v in V):
            V.append({'key': key, 'detail': detail})

    def run(label, file_recs, kinds, order):
        """One layout -> observed table (or None); all comparisons with the hand-pooled oracle."""
        d = tempfile.mkdtemp(prefix='l_', dir=root)
        where = {'k': k, 'trial_set': s, 'layout': label,
                 'kinds': [KINDS[c] for c in kinds], 'order': order,
                 'records_per_file': [brief(f) for f in file_recs],
                 'points': {lb: {'error_rate': POINTS[lb][0], 'direction': list(NOISE[POINTS[lb][1]]),
                                 'n_trials': len(pooled[lb])} for lb in labels}}
        if large:
            where['file_lengths'] = part if label != 'unsplit' else [N_LARGE]
        elif fam == 'dup':
            where['content_per_file'] = part if label != 'unsplit' else 'all records in one file'
            where['variant'] = case['variant']
        else:
            where['partition'] = part if label != 'unsplit' else [list(range(N_A))]
        base_key = {'k': k, 'n_files': len(file_recs)}
        before = res['extra']['violations_total']
        n_records = sum(len(f) for f in file_recs)
        if n_records > len(labels) or any(KINDS[c] != 'json' for c in kinds):
            nontrivial.add('%s|%s|%s' % (label, kinds, order))
        try:
            with warnings.catch_warnings():
                warnings.simplefilter('ignore')
                try:
                    arg = _build(ctx, d, file_recs, kinds, order, identical=(fam == 'dup'))
                    table, rows, n_raw = ctx.analyse(arg)
                except _MissingColumns as exc:
                    emit(dict(base_key, kind='missing-column', column=exc.args[0][0]),
                         dict(where, missing_columns=exc.args[0]))
                    res['extra']['layouts_with_violation'] += 1
                    res['evals'] += 1
                    outcomes.add('%d|%d|missing|%s' % (k, s, exc.args[0][0]))
                    return None
                except Exception as exc:
                    if not _in_panqec(exc):
                        raise
                    emit(dict(base_key, kind='raises', exc=type(exc).__name__),
                         dict(where, message=str(exc)[:300], traceback=traceback.format_exc()[-1200:]))
                    res['extra']['layouts_with_violation'] += 1
                    res['evals'] += 1
                    outcomes.add('%d|%d|raises|%s' % (k, s, type(exc).__name__))
                    return None
        finally:
            shutil.rmtree(d, ignore_errors=True)
        res['evals'] += 1
        res['extra']['analyses'] += 1
        res['extra']['large_count_analyses'] += int(large)
        res['extra']['raw_records_read'] += n_raw
        res['extra']['merge_commands'] += int(any(KINDS[c] == 'merged' for c in kinds))
        res['extra']['zip_archives'] += int(any(KINDS[c] == 'zip' for c in kinds))
        outcomes.add('%d|%d|%d|%s' % (k, s, n_raw, _digest(table)))
        # exactly one row per (code, noise, decoder, error rate)
        if sorted(rows) != labels:
            emit(dict(base_key, kind='rows', n_rows=len(rows), n_points=len(labels)),
                 dict(where, rows_reported=[{'row': lb, 'error_rate': table[lb]['error_rate'],
                                             'direction': table[lb]['direction'],
                                             'n_trials': table[lb]['n_trials']} for lb in rows]))
        else:
            for lb in labels:
                for col in ALL_COLS:
                    got, want = table[lb][col], expected[lb][col]
                    if want is None or _close(got, want):
                        continue
                    key = dict(base_key, kind='value', column=col, point=lb)
                    if col.endswith('_se'):
                        est = table[lb][col[:-3] + '_est']
                        key['se_equals_estimate'] = bool(_close(got, est))
                    detail = dict(where, point=lb, reported=got, hand_pooled=want)
                    if len(pooled[lb]) <= 8:
                        detail['pooled_trials'] = [list(_type(t, k)) for t in pooled[lb]]
                    else:
                        detail['pooled_trials'] = ('%d trials: types %s repeated'
                                                   % (len(pooled[lb]), pooled[lb][:LARGE_PERIOD]))
                    emit(key, detail)
        if res['extra']['violations_total'] > before:
            res['extra']['layouts_with_violation'] += 1
        return table

    try:
        # reference layout: the whole multiset in one plain json file
        unsplit = [[(lb, list(pooled[lb])) for lb in labels]]
        ref = run('unsplit', unsplit, (0,), [0])
        for kinds, order in plan:
            table = run('split', files, kinds, order)
            if len(res['samples']) < 2 and (order == 'dir' or len(set(kinds)) > 1 or nb == 1):
                res['samples'].append({
                    'k': k, 'trial_set': s, 'family': fam or 'partitions',
                    'partition_or_file_lengths': part, 'kinds': [KINDS[c] for c in kinds], 'order': order,
                    'records_per_file': [brief(f) for f in files],
                    'reported': None if table is None else {
                        str(r): {c: table[r][c] for c in INT_COLS + ['p_est', 'p_se']} for r in table}})
            if table is None or ref is None:
                continue
            where = {'k': k, 'trial_set': s, 'partition_or_file_lengths': part,
                     'kinds': [KINDS[c] for c in kinds], 'order': order}
            if sorted(table) != sorted(ref):
                emit({'kind': 'split-dependence', 'what': 'rows', 'k': k, 'n_files': nb},
                     dict(where, rows_unsplit=sorted(ref), rows_split=sorted(table)))
                continue
            for lb in ref:
                bad = [c for c in ALL_COLS if not _close(table[lb][c], ref[lb][c])]
                if bad:
                    emit({'kind': 'split-dependence', 'what': 'value', 'column': bad[0], 'k': k, 'n_files': nb},
                         dict(where, point=lb, columns=bad,
                              unsplit={c: ref[lb][c] for c in bad}, split={c: table[lb][c] for c in bad}))
                    break
    finally:
        shutil.rmtree(root, ignore_errors=True)
    res['nontrivial'] = len(nontrivial)
    res['outcomes'] = sorted(outcomes)[:50]
    return res
