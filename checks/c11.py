"""C11  Monte-Carlo trials are self-consistent, reproducible and calibrated.

Part 'trial' (RNG as environment).  For every (code with n <= bound, decoder
allowed on it, noise configuration, error rate) EVERY per-qubit Pauli class
script of positive probability (all 4^n for full-support noise) is turned
into variates lying inside the I,X,Y,Z cumulative intervals and pushed through
the real `panqec.simulation.run_once` with ONE decoder object reused over the
enumeration (as a real simulation does).  Each record is judged by integer
GF(2) algebra:  error == scripted Pauli string, exactly n variates consumed,
syndrome == H (sympl.) error, effective_error == logical effect of
error+correction, codespace <=> zero residual syndrome, success <=> codespace
and zero effect.  Calibration: sum_script mass(script) (1 - success) must equal
sum_e P(e) [reference pipeline with a FRESH decoder fails on e] -- an identity
between two complete sums (checked per shard of consecutive scripts with a
tolerance of 1e-12 x shard mass, therefore within 1e-12 in total).

Part 'structured': the same per-trial oracle (no calibration) on the decoders
whose smallest code exceeds the full-enumeration bound, over all scripts of
weight <= w.

Part 'sampler': every deformation configuration (name and axis) of every
exported class on its smallest family members, noise directions with
r_x != r_z: all scripts of weight <= 1 plus the "every qubit non-identity"
scripts through run_once; the error drawn must be the one the per-qubit
reference channel (deformation read per qubit from a FRESH code object)
assigns to the variates.  The same configurations, with single-Pauli
directions (2^n scripts), also enter the exact part 'trial' on the smallest
member of each class when n <= 8.

Part 'histories': DirectSimulation under a scripted stream; operations run(k),
k in {0,1,2,3}; all operation sequences of length <= 4 with total <= 4 trials.

Part 'seeds': two fresh (code, noise, decoder, default_rng(seed)) runs of 20
trials must be bitwise equal, for every registered decoder, and equal to the
sequence of 20 run_once records drawn from the same seed at the simulated rate.

Clause 'sampler-ignores-the-generator-it-was-given' (all parts, evaluated
first): the generator handed in must be consumed -- n draws per trial on a
scripted generator, a changed state on a numpy one.  Zero draws while errors
are produced is the violation; recorded values are then not compared (they are
not a function of the environment).  Seeds part: every seeding style whose
object offers .random(): default_rng(s), RandomState(s), the np.random module
after np.random.seed(s); the style is in the key.

Axis 'decoder prior != simulated rate' (histories and seeds): the decoder is
built with a prior error rate different from the rate that is simulated (a
mismatched decoder is a legitimate configuration), including simulated p = 0
(exact failure probability 0: no trial may fail) and p = 1.  The noise model
is wrapped so that the rate every error is sampled at is recorded.

Part 'estimator': calculate_logical_error_rate(code, noise, decoder, p, n_runs)
for n_runs = 1..k and every stream of scripted errors (the error model is the
environment: it hands out the scripted errors and counts the draws): exactly
n_runs errors drawn at rate p, estimate == reference n_fail / n_runs.
"""
import hashlib
import io
import itertools
import math
import contextlib
import random

import numpy as np

from mc import families as F
from mc import gf2
from mc.env_rng import ScriptedRNG, ScriptExhausted, class_intervals, variate_for

PROPERTY = 'C11'
LEVEL = 'model_checking'
DESIGN_REF = 'DESIGN.md §4 C11, §5 (D9, D10, D15, D16)'
TECHNIQUE = ('exhaustive enumeration of the random-number environment (every per-qubit Pauli class script of '
             'positive mass, 4^n for full-support noise) through the real run_once, with an exact two-sided '
             'summation of the failure probability; exhaustive enumeration of run(k) operation histories of '
             'DirectSimulation under scripted streams (decoder prior equal to and different from the simulated '
             'rate, incl. p = 0 and p = 1); exhaustive (decoder, code, seed) box for reproducibility against the '
             'run_once sequence of the same seed; exhaustive scripted-error streams through '
             'calculate_logical_error_rate for n_runs = 1..k')
LEVEL_TEXT = ('The random generator is the only environment of a trial; on codes with n <= 6 (8) every answer '
              'sequence it can give, up to the class of each variate, is enumerated and executed on the real '
              'pipeline, so the per-trial identities are decided for every error and the unbiasedness claim '
              'becomes an identity between two complete finite sums instead of a statistical test. The accounting '
              'claim is a statement about histories of run(k) calls; all histories within the bound are executed '
              'and their canonical states compared, which is model checking of the implementation itself.')
LEVEL_NOTE = ('Trusted: mc/gf2.py, mc/env_rng.py, the I,X,Y,Z cumulative stacking (C07; re-verified here for '
              'every script: the generated error must equal the script), code.get_deformation as the definition '
              'of the noise deformation (C08), H and the logicals as the definition of the code (C01). The '
              'decoder is part of the triple (code, noise, decoder) whose failure probability is defined; the '
              'reference pipeline calls a freshly constructed decoder once per distinct syndrome. One variate '
              'per class (interval midpoint) is used: interval boundaries are C07. Not covered: n > 8 for the '
              'exact sum; histories with more than 4 trials / 4 operations; seeds > 4; BatchSimulation (C12).')
RULE = ('trial: (class,size) with n <= n_full x decoders {Matching, BP-OSD, UnionFind} allowed on the class x '
        'noise configurations x p; scripts = mixed-radix enumeration of the per-qubit classes with positive '
        'probability, cut into shards of consecutive scripts (one reused decoder per shard); non-trivial = '
        'distinct non-identity scripts executed. structured: all scripts of weight <= w. histories: all '
        'sequences over run(0..3) of length <= 4 and total <= 4, for every 4-trial stream over the letters of '
        'the configuration (I = identity, L = first logical X operator, S = Y on the last qubit; a Matching '
        'decoder restricted to one error type makes S a trial outside the codespace); non-trivial = '
        'distinct (config, stream, sequence) with at least two run(k>0) calls; states = distinct canonical '
        '(config, stream, n_runs, lists, rng position); transitions = run() calls. seeds: (decoder, code, seed) '
        'box incl. decoders whose prior differs from the simulated rate; non-trivial = seeded runs containing '
        'both a failure and a success or raising. Stream letters m/h/q are raw variate levels (0.6 / 0.97 on '
        'all qubits; 0.97 on qubit 0 and 0.25 elsewhere) classified by the reference intervals at the '
        'simulated rate. estimator: n_runs = 1..k x every stream over the letters of length n_runs, errors '
        'handed out by a scripted, counting error model; non-trivial = streams with n_runs >= 2. sampler: '
        'every (class, one of its smallest valid sizes, deformation name+axis, direction in {X.2Y.3Z.5, pureZ}); '
        'scripts of weight <= 1 and all-qubits-non-identity, zero-probability classes skipped and counted; trial '
        'additionally holds every deformation name+axis x {pureZ, pureX} on the smallest member (n <= 8) of '
        'each class.')
ASSUMPTIONS = [
    'GF(2) reference algebra mc/gf2.py; H, logicals_x, logicals_z of the code object define the code (C01)',
    'cumulative stacking order I,X,Y,Z of the sampler (C07), re-verified per script by error == script',
    'code.get_deformation defines the per-qubit permutation of the deformed channel (C08)',
    'a freshly constructed decoder is a function of the syndrome only, so the fresh-decoder reference is '
    'evaluated once per distinct syndrome (C06 checks history independence of a fresh object)',
    'zero-probability classes cannot be produced by any variate and are not scripted (counted)',
]

DIRECTIONS = {
    'depol': (1 / 3, 1 / 3, 1 / 3),
    'X.2Y.3Z.5': (0.2, 0.3, 0.5),
    'pureZ': (0.0, 0.0, 1.0),
    'pureX': (1.0, 0.0, 0.0),
}
# (direction, noise deformed?)  -- depolarising noise is invariant under the deformation, so the sixth
# configuration is pure-X deformed instead of depolarising deformed
NOISES = [('depol', False), ('X.2Y.3Z.5', False), ('X.2Y.3Z.5', True), ('pureZ', False), ('pureZ', True),
          ('pureX', True)]
RATES = [0.05, 0.3]
TRIAL_DECODERS = ['MatchingDecoder', 'BeliefPropagationOSDDecoder', 'UnionFindDecoder']
SHARD = 1024
TOL = 1e-12
IGNORED = 'sampler-ignores-the-generator-it-was-given'
SEED_STYLES = ['default_rng', 'RandomState', 'np.random-module']

BOUNDS = {
    'quick': {'n_full': 6, 'noises': NOISES, 'rates': RATES, 'shard': SHARD, 'shard_slow': 256, 'uf_noises': NOISES,
              'n_all_noises': 5,
              'noises_above': [('depol', False), ('X.2Y.3Z.5', True), ('pureZ', False), ('pureZ', True),
                               ('pureX', True)],
              'deformed_code_n': 0, 'structured_weight': 1, 'estimator_max_runs': 4, 'exact_n': 8, 'sampler_sizes': 2, 'sampler_n': 40,
              'history_total': 4,
              'history_len': 4, 'seeds': 5, 'seeds_all_styles': 2, 'seed_trials': 20},
    'thorough': {'n_full': 8, 'noises': NOISES, 'rates': RATES, 'shard': SHARD, 'shard_slow': 256, 'n_all_noises': 6,
                 'noises_above': [('depol', False), ('X.2Y.3Z.5', True), ('pureZ', False), ('pureZ', True),
                                  ('pureX', True)],
                 'uf_noises': [('depol', False), ('X.2Y.3Z.5', True), ('pureZ', True)],
                 'deformed_code_n': 6, 'structured_weight': 2, 'estimator_max_runs': 6, 'exact_n': 8, 'sampler_sizes': 4, 'sampler_n': 100,
                 'history_total': 4,
                 'history_len': 4, 'seeds': 5, 'seeds_all_styles': 5, 'seed_trials': 20},
}
BUDGET_S = {'quick': 900, 'thorough': 7200}

# structured part: decoders whose smallest code is beyond the full-enumeration bound (and two in-bound ones on
# larger codes).  (decoder, cls, size, params, weight override or None)
STRUCTURED = {
    'quick': [
        ('XCubeMatchingDecoder', 'XCubeCode', [2, 2, 2], {}, None),
        ('SweepMatchDecoder', 'Toric3DCode', [2, 2, 2], {}, None),
        ('SweepMatchDecoder', 'Planar3DCode', [2, 2, 2], {}, None),
        ('RotatedSweepMatchDecoder', 'RotatedPlanar3DCode', [2, 2, 2], {}, None),
        ('RotatedSweepMatchDecoder', 'RotatedToric3DCode', [2, 2, 2], {}, None),
        ('UnionFindDecoder', 'Toric2DCode', [2, 2], {}, 2),
        ('MatchingDecoder', 'Toric2DCode', [3, 3], {}, None),
        ('BeliefPropagationOSDDecoder', 'Toric2DCode', [3, 3], {}, None),
        ('BeliefPropagationOSDDecoder', 'Color666PlanarCode', [1, 1], {}, 2),
    ],
    'thorough': [
        ('XCubeMatchingDecoder', 'XCubeCode', [2, 2, 2], {}, None),
        ('XCubeMatchingDecoder', 'XCubeCode', [3, 3, 3], {}, 1),
        ('SweepMatchDecoder', 'Toric3DCode', [2, 2, 2], {}, None),
        ('SweepMatchDecoder', 'Toric3DCode', [3, 3, 3], {}, 1),
        ('SweepMatchDecoder', 'Planar3DCode', [2, 2, 2], {}, None),
        ('RotatedSweepMatchDecoder', 'RotatedPlanar3DCode', [2, 2, 2], {}, None),
        ('RotatedSweepMatchDecoder', 'RotatedPlanar3DCode', [3, 3, 3], {}, 1),
        ('RotatedSweepMatchDecoder', 'RotatedToric3DCode', [2, 2, 2], {}, 1),      # 75 ms per trial
        ('UnionFindDecoder', 'Toric2DCode', [2, 2], {}, None),
        ('UnionFindDecoder', 'Toric2DCode', [3, 3], {}, 1),
        ('MatchingDecoder', 'Toric2DCode', [3, 3], {}, None),
        ('MatchingDecoder', 'Planar2DCode', [3, 3], {}, None),
        ('BeliefPropagationOSDDecoder', 'Toric2DCode', [3, 3], {}, None),
        ('BeliefPropagationOSDDecoder', 'Color666PlanarCode', [1, 1], {}, None),
        ('BeliefPropagationOSDDecoder', 'Toric3DCode', [2, 2, 2], {}, None),
        ('MemoryBeliefPropagationDecoder', 'RotatedPlanar2DCode', [3, 3], {'max_bp_iter': 3}, 1),
    ],
}
STRUCTURED_NOISE = ('X.2Y.3Z.5', False)
STRUCTURED_RATE = 0.1

# (decoder, cls, size, noise, decoder params, stream letters, simulated rate, decoder prior or None = same).
# A MatchingDecoder restricted to X errors leaves Z-type syndromes uncorrected, which gives trials outside the
# codespace (letter S) on a repaired tree too.  Letters I/L/S are Pauli scripts, m/h/q raw variate levels.
HISTORY_CONFIGS = {
    'quick': [
        ('MatchingDecoder', 'RotatedPlanar2DCode', [2, 2], ('X.2Y.3Z.5', False), {}, 'IL', 0.3, None),
        ('BeliefPropagationOSDDecoder', 'RotatedPlanar2DCode', [2, 2], ('X.2Y.3Z.5', False), {}, 'IL', 0.3, None),
        ('MatchingDecoder', 'Planar2DCode', [2, 2], ('X.2Y.3Z.5', True), {'error_type': 'X'}, 'ILS', 0.3, None),
        # decoder prior != simulated rate
        ('MatchingDecoder', 'RotatedPlanar2DCode', [2, 2], ('X.2Y.3Z.5', False), {}, 'Lq', 0.3, 0.05),
        ('MatchingDecoder', 'Planar2DCode', [2, 2], ('depol', False), {}, 'mq', 0.0, 0.5),
    ],
    'thorough': [
        ('MatchingDecoder', 'RotatedPlanar2DCode', [2, 2], ('X.2Y.3Z.5', False), {}, 'ILS', 0.3, None),
        ('BeliefPropagationOSDDecoder', 'RotatedPlanar2DCode', [2, 2], ('X.2Y.3Z.5', False), {}, 'ILS', 0.3, None),
        ('MatchingDecoder', 'Planar2DCode', [2, 2], ('X.2Y.3Z.5', True), {'error_type': 'X'}, 'ILS', 0.3, None),
        ('MatchingDecoder', 'RotatedPlanar2DCode', [2, 3], ('X.2Y.3Z.5', True), {'error_type': 'Z'}, 'ILS', 0.3,
         None),
        ('BeliefPropagationOSDDecoder', 'RotatedToric3DCode', [2, 2, 1], ('depol', False), {}, 'ILS', 0.3, None),
        ('UnionFindDecoder', 'Toric2DCode', [2, 2], ('X.2Y.3Z.5', False), {}, 'ILS', 0.3, None),
        # decoder prior != simulated rate
        ('MatchingDecoder', 'RotatedPlanar2DCode', [2, 2], ('X.2Y.3Z.5', False), {}, 'ILq', 0.3, 0.05),
        ('MatchingDecoder', 'Planar2DCode', [2, 2], ('depol', False), {}, 'Imq', 0.0, 0.5),
        ('BeliefPropagationOSDDecoder', 'RotatedPlanar2DCode', [2, 2], ('X.2Y.3Z.5', True), {}, 'ILh', 0.05, 0.3),
        ('BeliefPropagationOSDDecoder', 'Planar2DCode', [2, 2], ('depol', False), {}, 'Imh', 0.0, 0.3),
        ('MatchingDecoder', 'RotatedPlanar2DCode', [2, 2], ('depol', False), {}, 'mhq', 1.0, 0.3),
    ],
}

# estimator part: (decoder, cls, size, noise, params, letters, simulated rate, decoder prior or None)
ESTIMATOR_CONFIGS = {
    'quick': [
        ('MatchingDecoder', 'RotatedPlanar2DCode', [2, 2], ('X.2Y.3Z.5', False), {}, 'ILS', 0.3, None),
        ('BeliefPropagationOSDDecoder', 'Planar2DCode', [2, 2], ('depol', False), {}, 'ILS', 0.3, 0.05),
        ('MatchingDecoder', 'Toric2DCode', [3, 3], ('pureX', False), {}, 'IL', 0.5, 0.05),
    ],
}
ESTIMATOR_CONFIGS['thorough'] = ESTIMATOR_CONFIGS['quick'] + [
    ('MatchingDecoder', 'Planar2DCode', [2, 2], ('X.2Y.3Z.5', True), {'error_type': 'X'}, 'ILS', 0.3, None),
    ('UnionFindDecoder', 'Toric2DCode', [2, 2], ('depol', False), {}, 'IL', 0.1, None),      # 15 ms per trial
    ('BeliefPropagationOSDDecoder', 'RotatedToric3DCode', [2, 2, 1], ('depol', False), {}, 'ILS', 0.0, 0.3),
]

# seeds part: every registered decoder on small allowed codes. (decoder, cls, size, p, params[, decoder prior])
SEED_CONFIGS = {
    'quick': [
        ('MatchingDecoder', 'Toric2DCode', [3, 3], 0.2, {}),
        ('MatchingDecoder', 'RotatedPlanar2DCode', [3, 3], 0.2, {}),
        ('BeliefPropagationOSDDecoder', 'Toric2DCode', [3, 3], 0.2, {}),
        ('BeliefPropagationOSDDecoder', 'RhombicPlanarCode', [2, 2, 1], 0.2, {}),
        ('UnionFindDecoder', 'Toric2DCode', [3, 3], 0.2, {}),
        ('SweepMatchDecoder', 'Toric3DCode', [2, 2, 2], 0.1, {}),
        ('SweepMatchDecoder', 'Toric3DCode', [3, 3, 3], 0.1, {}),
        ('SweepMatchDecoder', 'Planar3DCode', [2, 2, 2], 0.1, {}),
        ('RotatedSweepMatchDecoder', 'RotatedPlanar3DCode', [2, 2, 2], 0.1, {}),
        ('RotatedSweepMatchDecoder', 'RotatedPlanar3DCode', [3, 3, 3], 0.1, {}),
        ('XCubeMatchingDecoder', 'XCubeCode', [2, 2, 2], 0.1, {}),
        ('MemoryBeliefPropagationDecoder', 'RotatedPlanar2DCode', [3, 3], 0.1, {'max_bp_iter': 3}),
        # decoder prior != simulated rate (incl. p = 0, where the exact failure probability is 0)
        ('MatchingDecoder', 'Toric2DCode', [3, 3], 0.3, {}, 0.05),
        ('MatchingDecoder', 'Toric2DCode', [3, 3], 0.0, {}, 0.5),
        ('BeliefPropagationOSDDecoder', 'RotatedPlanar2DCode', [3, 3], 0.05, {}, 0.3),
    ],
}
SEED_CONFIGS['thorough'] = SEED_CONFIGS['quick'] + [
    ('MatchingDecoder', 'Planar2DCode', [4, 4], 0.2, {}),
    ('BeliefPropagationOSDDecoder', 'Color488Code', [1, 1], 0.2, {}),
    ('BeliefPropagationOSDDecoder', 'Toric3DCode', [2, 2, 2], 0.1, {}),
    ('UnionFindDecoder', 'Toric2DCode', [2, 3], 0.2, {}),
    ('SweepMatchDecoder', 'Planar3DCode', [3, 3, 3], 0.1, {}),
    ('RotatedSweepMatchDecoder', 'RotatedToric3DCode', [2, 2, 2], 0.1, {}),
    ('XCubeMatchingDecoder', 'XCubeCode', [3, 3, 3], 0.1, {}),
    ('UnionFindDecoder', 'Toric2DCode', [3, 3], 0.0, {}, 0.2),
    ('SweepMatchDecoder', 'Toric3DCode', [2, 2, 2], 0.2, {}, 0.02),
    ('BeliefPropagationOSDDecoder', 'Toric2DCode', [3, 3], 1.0, {}, 0.1),
]


# ------------------------------------------------------------------ helpers
def _decoder_class(name):
    import panqec.decoders as D
    return getattr(D, name)


def _allowed(dec_name, cls_name):
    a = _decoder_class(dec_name).allowed_codes
    return a is None or cls_name in a


def _noise_deformation_name(cls_name):
    names = list(F.get_class(cls_name).deformation_names)
    return names[0] if names else None


_NOISE_CLASSES = {}


def _noise_classes():
    """Subclasses of the real PauliErrorModel that observe the environment interface: RecordingNoise samples
    exactly like the real model and records the rate of every draw; ScriptedNoise hands out scripted errors
    (for entry points that do not accept a generator) and counts the draws."""
    if not _NOISE_CLASSES:
        from panqec.error_models import PauliErrorModel

        class RecordingNoise(PauliErrorModel):
            def generate(self, code, error_rate, rng=None):
                if not hasattr(self, 'rates'):
                    self.rates = []
                self.rates.append(float(error_rate))
                return super().generate(code, error_rate, rng=rng)

        class ScriptedNoise(PauliErrorModel):
            def generate(self, code, error_rate, rng=None):
                if not hasattr(self, 'rates'):
                    self.rates = []
                self.rates.append(float(error_rate))
                script = getattr(self, 'script', [])
                i = len(self.rates) - 1
                if i < len(script):
                    return np.array(script[i], dtype=np.uint8)
                return np.zeros(2 * code.n, dtype=np.uint8)      # beyond the script: counted by the caller

        _NOISE_CLASSES['rec'] = RecordingNoise
        _NOISE_CLASSES['scr'] = ScriptedNoise
    return _NOISE_CLASSES


def _error_model(direction, deformation_name, kind='rec', deformation_kwargs=None):
    em = _noise_classes()[kind](*DIRECTIONS[direction], deformation_name=deformation_name,
                                deformation_kwargs=dict(deformation_kwargs or {}) or None)
    em.rates = []
    return em


def _smallest_sizes(name, count):
    """The `count` smallest valid family sizes of a class, by qubit number."""
    szs = [sz for sz in F.sizes(name, 0, min_count=count + 2) if not F.known_invalid({'cls': name, 'size': sz})]
    szs.sort(key=lambda sz: (F.n_qubits(name, sz) or 10 ** 6, sz))
    return szs[:count]


def _build_code(case):
    return F.build({'cls': case['cls'], 'size': case['size'], 'deformation': case.get('deformation')})


def _ref_probs(case):
    """Reference channel of the case, read from a FRESH code object (never the simulated one)."""
    return ref_probabilities(_build_code(case), case['direction'], case['noise_deformation'], case['p'],
                             case.get('noise_deformation_kwargs'))


def ref_probabilities(code, direction, deformation_name, p, deformation_kwargs=None):
    """Per-qubit (p_I, p_X, p_Y, p_Z) from the definition of the (deformed) i.i.d. Pauli channel: an undeformed
    qubit suffers sigma with probability p*r_sigma; on a deformed qubit the single-qubit Clifford maps the
    Paulis by the permutation D (read PER QUBIT from a code object), and sigma occurs with probability
    p*r_{D(sigma)}.  Callers pass a code object that is not the one handed to the simulation."""
    r = dict(zip('XYZ', DIRECTIONS[direction]))
    out = []
    for i in range(code.n):
        if deformation_name is None:
            d = {'X': 'X', 'Y': 'Y', 'Z': 'Z'}
        else:
            d = code.get_deformation(code.qubit_coordinates[i], deformation_name,
                                     **dict(deformation_kwargs or {}))
            if sorted(d.keys()) != ['X', 'Y', 'Z'] or sorted(d.values()) != ['X', 'Y', 'Z']:
                raise ValueError('deformation is not a permutation of the Paulis: %r' % (d,))
        out.append((1.0 - p, p * r[d['X']], p * r[d['Y']], p * r[d['Z']]))
    return out


class _Env:
    """Per-case tables turning a class script into variates, error int, mass and channel probability."""

    def __init__(self, code, probs):
        self.n = n = code.n
        self.probs = probs
        self.allowed = []
        self.var = []
        self.mass = []
        for i in range(n):
            iv = class_intervals(probs[i])
            a = [c for c in range(4) if variate_for(probs[i], c) is not None]
            self.allowed.append(a)
            self.var.append([variate_for(probs[i], c) for c in range(4)])
            self.mass.append([hi - lo for lo, hi in iv])
        self.total = 1
        for a in self.allowed:
            self.total *= len(a)
        self.bits = [[0, 1 << i, (1 << i) | (1 << (n + i)), 1 << (n + i)] for i in range(n)]

    def script(self, index):
        """Mixed radix, qubit 0 least significant, digit -> class among the positive-probability classes."""
        s = []
        for a in self.allowed:
            index, d = divmod(index, len(a))
            s.append(a[d])
        return s

    def variates(self, script):
        return [self.var[i][c] for i, c in enumerate(script)]

    def error_int(self, script):
        e = 0
        for i, c in enumerate(script):
            e |= self.bits[i][c]
        return e

    def script_mass(self, script):
        m = 1.0
        for i, c in enumerate(script):
            m *= self.mass[i][c]
        return m

    def channel_probability(self, script):
        m = 1.0
        for i, c in enumerate(script):
            m *= self.probs[i][c]
        return m


class _Ref:
    """Reference view of one code: integer H, logicals, and the judged predicates."""

    def __init__(self, code):
        self.n, self.k = code.n, code.k
        self.H = gf2.matrix_rows(code.stabilizer_matrix)
        self.m = len(self.H)
        self.LX = gf2.matrix_rows(code.logicals_x)
        self.LZ = gf2.matrix_rows(code.logicals_z)

    def syndrome(self, e):
        return gf2.syndrome(self.H, e, self.n)

    def effect(self, t):
        n = self.n
        return [gf2.symp(t, l, n) for l in self.LZ] + [gf2.symp(t, l, n) for l in self.LX]

    def judge(self, e, c):
        t = e ^ c
        eff = self.effect(t)
        cs = self.syndrome(t) == 0
        return eff, cs, bool(cs and not any(eff))


def _bin_int(a, length):
    """0/1 array of the given length -> int, or None when it is not such an array."""
    a = np.asarray(a)
    if a.shape != (length,):
        return None
    try:
        return gf2.vec_to_int(a)
    except ValueError:
        return None


def _pauli(e, n):
    return gf2.int_to_pauli_string(e, n)


def _check_record(ref, r, e_script, rng, bad):
    """Per-trial oracle.  Returns (correction int or None, success as recorded)."""
    n, k = ref.n, ref.k
    if rng.pos == 0 and not rng.other_calls:
        bad(IGNORED, e_script, variates_consumed=0, expected=n)      # callers stop comparing values
        return None, r.get('success')
    if rng.pos != n or rng.other_calls:
        bad('rng-consumption', e_script, variates_consumed=rng.pos, expected=n,
            other_calls=[c[0] for c in rng.other_calls][:3])
    e = _bin_int(r['error'], 2 * n)
    if e != e_script:
        bad('generated-error-differs-from-script', e_script,
            generated=None if e is None else _pauli(e, n))
    if e is None:
        return None, r.get('success')
    s = _bin_int(r['syndrome'], ref.m)
    want_s = ref.syndrome(e)
    if s != want_s:
        bad('syndrome-differs-from-H-error', e_script, expected=gf2.int_to_vec(want_s, ref.m),
            got=np.asarray(r['syndrome']).astype(int).tolist()[:64])
    c = _bin_int(np.asarray(r['correction']) % 2, 2 * n)
    if c is None:
        bad('correction-not-a-2n-binary-vector', e_script, shape=list(np.asarray(r['correction']).shape))
        return None, r.get('success')
    eff, cs, ok = ref.judge(e, c)
    got_eff = np.asarray(r['effective_error'])
    if got_eff.shape != (2 * k,) or [int(x) for x in got_eff] != eff:
        bad('effective-error-wrong', e_script, expected=eff, got=got_eff.astype(int).tolist(),
            correction=_pauli(c, n))
    if bool(r['codespace']) != cs:
        bad('codespace-wrong', e_script, expected=cs, got=str(r['codespace']), correction=_pauli(c, n))
    if bool(r['success']) != ok:
        bad('success-wrong', e_script, expected=ok, got=str(r['success']), codespace=cs, effect=eff,
            correction=_pauli(c, n))
    return c, bool(r['success'])


def _base_key(case, ref=None):
    d = case.get('deformation')
    k = {'part': case['part'], 'decoder': case['decoder'], 'params': dict(case.get('params') or {}),
         'cls': case['cls'], 'size': list(case['size']),
         'code_deformation': d[0] if d else None, 'direction': case['direction'],
         'noise_deformation': case['noise_deformation'],
         'noise_deformation_axis': (case.get('noise_deformation_kwargs') or {}).get('deformation_axis'),
         'p': case['p'], 'decoder_p': _prior(case),
         'prior_differs': _prior(case) != case['p']}
    if ref is not None:
        k['n'] = ref.n
        k['k'] = ref.k
    return k


def _new_result():
    return {'evals': 0, 'nontrivial': 0, 'states': 0, 'transitions': 0, 'traces': 0, 'violations': [],
            'outcomes': [], 'samples': [], 'extra': {}}


# ------------------------------------------------------------------ case list
def cases(tier, seed):
    b = BOUNDS[tier]
    # ---- part 'trial'
    trial = []
    cfgs = F.configs(b['n_full'], min_count=0, deformed=False)
    if b['deformed_code_n']:
        for cfg in F.configs(b['deformed_code_n'], min_count=0, deformed=False):
            ds = F.deformations(cfg['cls'])
            if ds:
                cfgs.append(dict(cfg, deformation=ds[0]))
    for cfg in cfgs:
        if F.known_invalid(cfg):
            continue
        n = F.n_qubits(cfg['cls'], cfg['size'])
        for dec in TRIAL_DECODERS:
            if not _allowed(dec, cfg['cls']):
                continue
            if cfg['deformation'] and dec != 'BeliefPropagationOSDDecoder':
                continue            # CSS-only decoders are not handed deformed code objects (DESIGN C05)
            noises = b['noises'] if n <= b['n_all_noises'] else b['noises_above']
            if dec == 'UnionFindDecoder':
                noises = b['uf_noises']
            if cfg['deformation']:
                noises = [('X.2Y.3Z.5', False), ('pureZ', False)]
            dname = _noise_deformation_name(cfg['cls'])
            seen = set()
            for direction, deformed in noises:
                nd = dname if deformed else None        # a class without deformations: undeformed instead
                if (direction, nd) in seen:
                    continue
                seen.add((direction, nd))
                support = sum(1 for x in DIRECTIONS[direction] if x > 0) + 1
                total = support ** n
                for p in b['rates']:
                    shard = b['shard_slow'] if dec == 'UnionFindDecoder' else b['shard']
                    for lo in range(0, total, shard):
                        trial.append({'part': 'trial', 'cls': cfg['cls'], 'size': cfg['size'],
                                      'deformation': cfg['deformation'], 'decoder': dec, 'params': {},
                                      'direction': direction, 'noise_deformation': nd, 'p': p,
                                      'lo': lo, 'hi': min(total, lo + shard), 'n': n})
    # every deformation configuration (name and axis) every class offers, on the smallest member of the class
    # that can be enumerated exactly (n <= exact_n): single-Pauli directions, so 2^n scripts each
    for name in F.CLASSES:
        szs = _smallest_sizes(name, 1)
        if not szs or (F.n_qubits(name, szs[0]) or 99) > b['exact_n']:
            continue
        sz, n = szs[0], F.n_qubits(name, szs[0])
        have = {(c['decoder'], c['direction'], c['noise_deformation'], c['p']) for c in trial
                if c['cls'] == name and c['size'] == sz and c['deformation'] is None}
        for dn, dk in F.deformations(name):
            for dec in ('MatchingDecoder', 'BeliefPropagationOSDDecoder'):
                if not _allowed(dec, name):
                    continue
                for direction in ('pureZ', 'pureX'):
                    for p in b['rates']:
                        if not dk and (dec, direction, dn, p) in have:
                            continue
                        trial.append({'part': 'trial', 'cls': name, 'size': sz, 'deformation': None,
                                      'decoder': dec, 'params': {}, 'direction': direction,
                                      'noise_deformation': dn, 'noise_deformation_kwargs': dk, 'p': p,
                                      'lo': 0, 'hi': 2 ** n, 'n': n})
    trial.sort(key=lambda c: (c['n'], c['deformation'] is not None))       # stable: simplest first
    # ---- part 'sampler': classes too large for the exact sum included -- every deformation configuration of
    # every class on its smallest members, directions with r_x != r_z, trial-by-trial scripted reference
    sampler = []
    for name in F.CLASSES:
        szs = [sz for i, sz in enumerate(_smallest_sizes(name, b['sampler_sizes']))
               if i == 0 or (F.n_qubits(name, sz) or 10 ** 6) <= b['sampler_n']]
        for sz in szs:
            for dn, dk in F.deformations(name):
                for direction in ('X.2Y.3Z.5', 'pureZ'):
                    sampler.append({'part': 'sampler', 'cls': name, 'size': sz, 'deformation': None,
                                    'decoder': 'BeliefPropagationOSDDecoder', 'params': {},
                                    'direction': direction, 'noise_deformation': dn,
                                    'noise_deformation_kwargs': dk, 'p': 0.3, 'weight': 1,
                                    'n': F.n_qubits(name, sz)})
    sampler.sort(key=lambda c: c['n'])
    # ---- part 'structured'
    structured = []
    for dec, cls, size, params, w in STRUCTURED[tier]:
        structured.append({'part': 'structured', 'cls': cls, 'size': size, 'deformation': None, 'decoder': dec,
                           'params': params, 'direction': STRUCTURED_NOISE[0], 'noise_deformation': None,
                           'p': STRUCTURED_RATE, 'weight': w if w is not None else b['structured_weight']})
    # ---- part 'histories'
    hist = []
    for dec, cls, size, (direction, deformed), params, letters, p, dp in HISTORY_CONFIGS[tier]:
        for stream in itertools.product(letters, repeat=b['history_total']):
            hist.append({'part': 'histories', 'cls': cls, 'size': size, 'deformation': None, 'decoder': dec,
                         'params': params, 'direction': direction,
                         'noise_deformation': _noise_deformation_name(cls) if deformed else None,
                         'p': p, 'decoder_p': dp, 'stream': ''.join(stream), 'max_total': b['history_total'],
                         'max_len': b['history_len']})
    hist.sort(key=lambda c: c['decoder_p'] is not None)          # stable: matched priors first
    # ---- part 'estimator'
    estim = []
    for dec, cls, size, (direction, deformed), params, letters, p, dp in ESTIMATOR_CONFIGS[tier]:
        estim.append({'part': 'estimator', 'cls': cls, 'size': size, 'deformation': None, 'decoder': dec,
                      'params': params, 'direction': direction,
                      'noise_deformation': _noise_deformation_name(cls) if deformed else None,
                      'p': p, 'decoder_p': dp, 'letters': letters, 'max_runs': b['estimator_max_runs']})
    # ---- part 'seeds'
    seeds = []
    for cfg in SEED_CONFIGS[tier]:
        dec, cls, size, p, params = cfg[:5]
        for s in range(b['seeds']):
            # every seeding style for the first seeds, the Generator style for all of them
            for style in (SEED_STYLES if s < b['seeds_all_styles'] else SEED_STYLES[:1]):
                seeds.append({'part': 'seeds', 'cls': cls, 'size': size, 'deformation': None, 'decoder': dec,
                              'params': params, 'direction': 'X.2Y.3Z.5', 'noise_deformation': None, 'p': p,
                              'decoder_p': cfg[5] if len(cfg) > 5 else None, 'style': style,
                              'seed': s, 'trials': b['seed_trials']})
    # cheapest layer first (one seeded run of every decoder, the structured sweeps), then simplest first
    small = [c for c in trial if c['n'] <= 5]
    large = [c for c in trial if c['n'] > 5]
    seeds0 = [c for c in seeds if c['seed'] == 0]
    seeds1 = [c for c in seeds if c['seed'] != 0]
    return structured + estim + seeds0 + small + sampler + hist + seeds1 + large


def eval_case(case):
    random.seed(0)      # a sampler that falls back to Python's global stream is at least replayable
    res = {'trial': _eval_trial, 'structured': _eval_structured, 'histories': _eval_histories,
           'seeds': _eval_seeds, 'estimator': _eval_estimator, 'sampler': _eval_structured}[case['part']](case)
    for v in res['violations']:                 # per-kind totals of emitted violations, for the evidence
        nm = 'emitted_%s_%s' % (case['part'], v['key']['kind'].replace('-', '_'))
        res['extra'][nm] = res['extra'].get(nm, 0) + 1
    return res


# ------------------------------------------------------------------ part 'trial'
def _prior(case):
    dp = case.get('decoder_p')
    return case['p'] if dp is None else dp


def _fresh_decoder(case, code, noise_kind='rec'):
    """Fresh (error model, decoder); the decoder is built with its prior rate, which may differ from the
    simulated rate case['p']."""
    em = _error_model(case['direction'], case['noise_deformation'], noise_kind,
                      case.get('noise_deformation_kwargs'))
    return em, _decoder_class(case['decoder'])(code, em, _prior(case), **case.get('params', {}))


def _eval_trial(case):
    from panqec.simulation import run_once
    res = _new_result()
    X = res['extra']
    code = _build_code(case)
    ref_code = _build_code(case)                    # separate object for the reference pipeline
    ref = _Ref(code)
    n = ref.n
    probs = _ref_probs(case)
    env = _Env(code, probs)
    key0 = _base_key(case, ref)
    counts = {}
    V = res['violations']

    def bad(kind, e_script, **detail):
        counts[kind] = counts.get(kind, 0) + 1
        if counts[kind] == 1 and len(V) < 5:
            detail['script'] = _pauli(e_script, n)
            detail['shard'] = [case['lo'], case['hi']]
            V.append({'key': dict(key0, kind=kind), 'detail': detail})

    if case['hi'] > env.total:
        raise RuntimeError('case list and environment disagree on the number of scripts')
    X['trial_scripts_of_zero_mass_not_executable'] = (4 ** n - env.total) if case['lo'] == 0 else 0

    em, dec = _fresh_decoder(case, code)            # ONE decoder, reused over the whole shard
    fresh = {}                                      # syndrome -> correction of a fresh decoder (reference)

    def fresh_correction(s):
        if s not in fresh:
            _, d = _fresh_decoder(case, ref_code)
            with contextlib.redirect_stdout(io.StringIO()):
                c = d.decode(np.array(gf2.int_to_vec(s, ref.m), dtype=np.uint8))
            fresh[s] = _bin_int(np.asarray(c) % 2, 2 * n)
            X['trial_fresh_decoders_built'] = X.get('trial_fresh_decoders_built', 0) + 1
        return fresh[s]

    p_sim = 0.0
    p_ref = 0.0
    mass_sim = 0.0
    mass_ref = 0.0
    differ_success = 0
    differ_correction = 0
    first_differ = None
    outcomes = set()
    nontrivial = 0
    for index in range(case['lo'], case['hi']):
        script = env.script(index)
        e_script = env.error_int(script)
        rng = ScriptedRNG(env.variates(script))
        try:
            with contextlib.redirect_stdout(io.StringIO()):
                r = run_once(code, em, dec, case['p'], rng=rng)
        except ScriptExhausted as exc:
            bad('rng-consumption', e_script, message=str(exc)[:100])
            break
        except Exception as exc:
            bad('raises', e_script, exc=type(exc).__name__, message=str(exc)[:200])
            V[-1]['key']['exc'] = type(exc).__name__
            break
        res['evals'] += 1
        nontrivial += int(e_script != 0)
        c, success = _check_record(ref, r, e_script, rng, bad)
        if counts.get(IGNORED):
            break
        # ---- the two complete sums
        m = env.script_mass(script)
        mass_sim += m
        p_sim += m * (0.0 if success else 1.0)
        pe = env.channel_probability(script)
        c_ref = fresh_correction(ref.syndrome(e_script))
        if c_ref is None:
            ok_ref = False
            eff_ref, cs_ref = None, False
        else:
            eff_ref, cs_ref, ok_ref = ref.judge(e_script, c_ref)
        mass_ref += pe
        p_ref += pe * (0.0 if ok_ref else 1.0)
        if c is not None and c != c_ref:
            differ_correction += 1
        if bool(success) != ok_ref:
            differ_success += 1
            if first_differ is None:
                first_differ = {'script': _pauli(e_script, n), 'index': index,
                                'simulation': {'success': bool(success),
                                               'correction': None if c is None else _pauli(c, n)},
                                'fresh_decoder_reference': {'success': ok_ref, 'codespace': cs_ref,
                                                            'effect': eff_ref,
                                                            'correction': None if c_ref is None else
                                                            _pauli(c_ref, n)}}
        outcomes.add('%s|%s|%d%d|%s' % (case['cls'], case['decoder'][:5], int(bool(success)),
                                        int(bool(r['codespace'])),
                                        ''.join(str(int(x)) for x in np.asarray(r['effective_error']))))
    # tolerance proportional to the mass of the shard: summed over the shards of a configuration the two
    # complete sums then agree within TOL; the float error of either partial sum is <= ~2n*eps*mass
    tol = TOL * mass_ref
    if counts.get('rng-consumption') or counts.get(IGNORED):
        # the environment was not the scripted one: the two sums are not comparable (and the run would not
        # be deterministic); the consumption violation stands for the shard
        res['nontrivial'] = nontrivial
        res['traces'] = res['evals']
        res['capped'] = 0
        X['trial_shards_with_uncontrolled_rng'] = 1
        V[:] = [v for v in V if v['key']['kind'] in ('rng-consumption', IGNORED)]
        for v in V:
            v['detail'].pop('script', None)         # the first script of the shard; not part of the finding
        return res
    if abs(mass_sim - mass_ref) > tol:
        bad('script-mass-differs-from-channel-probability', 0, mass_sim=mass_sim, mass_ref=mass_ref)
    if abs(p_sim - p_ref) > tol:
        V.insert(0, {'key': dict(key0, kind='failure-expectation-differs-from-exact-failure-probability'),
                     'detail': {'shard': [case['lo'], case['hi']], 'P_simulation_reused_decoder': p_sim,
                                'P_reference_fresh_decoder': p_ref, 'difference': p_sim - p_ref,
                                'shard_mass': mass_ref, 'scripts_with_different_success': differ_success,
                                'scripts_with_correction_different_from_fresh_decoder': differ_correction,
                                'first': first_differ}})
        del V[5:]
    elif differ_success:
        V.insert(0, {'key': dict(key0, kind='trial-success-differs-from-fresh-decoder-reference'),
                     'detail': {'shard': [case['lo'], case['hi']], 'scripts_with_different_success': differ_success,
                                'first': first_differ}})
        del V[5:]
    X['trial_scripts_success_differs_from_fresh_reference'] = differ_success
    X['trial_scripts_correction_differs_from_fresh_reference'] = differ_correction
    for kk, vv in counts.items():
        X['trial_' + kk.replace('-', '_')] = vv
    res['nontrivial'] = nontrivial
    res['traces'] = res['evals']
    res['outcomes'] = sorted(outcomes)[:50]
    if case['lo'] == 0:
        res['samples'].append({'part': 'trial', 'config': '%s %s %s/%s p=%s' % (
            F.cfg_label(case), case['decoder'], case['direction'], case['noise_deformation'], case['p']),
            'scripts_total': env.total, 'shard': [case['lo'], case['hi']], 'P_fail_shard_simulation': p_sim,
            'P_fail_shard_reference': p_ref, 'shard_mass': mass_ref})
    return res


# ------------------------------------------------------------------ part 'structured'
def _eval_structured(case):
    from panqec.simulation import run_once
    res = _new_result()
    X = res['extra']
    code = _build_code(case)
    ref = _Ref(code)
    n = ref.n
    probs = _ref_probs(case)
    env = _Env(code, probs)
    key0 = dict(_base_key(case, ref), weight=case['weight'])
    counts = {}
    V = res['violations']

    def bad(kind, e_script, **detail):
        counts[kind] = counts.get(kind, 0) + 1
        if counts[kind] == 1 and len(V) < 5:
            detail['script'] = _pauli(e_script, n)
            V.append({'key': dict(key0, kind=kind), 'detail': detail})

    em, dec = _fresh_decoder(case, code)
    outcomes = set()

    def scripts():
        for w in range(case['weight'] + 1):
            for qs in itertools.combinations(range(n), w):
                for cl in itertools.product((1, 2, 3), repeat=w):
                    script = [0] * n
                    for q, c in zip(qs, cl):
                        script[q] = c
                    yield w, script
        if case['part'] == 'sampler':
            # every qubit non-identity at once: its r-th class of positive probability
            for r in range(3):
                nonid = [[c for c in env.allowed[i] if c != 0] for i in range(n)]
                if any(len(a) > r for a in nonid):
                    yield n, [a[r] if len(a) > r else 0 for a in nonid]

    for w, script in scripts():
        if any(env.var[i][c] is None for i, c in enumerate(script)):
            X['scripts_with_a_zero_probability_class_not_executable'] = \
                X.get('scripts_with_a_zero_probability_class_not_executable', 0) + 1
            continue
        e_script = env.error_int(script)
        rng = ScriptedRNG(env.variates(script))
        try:
            with contextlib.redirect_stdout(io.StringIO()):
                r = run_once(code, em, dec, case['p'], rng=rng)
        except ScriptExhausted as exc:
            bad('rng-consumption', e_script, message=str(exc)[:100])
            continue
        except Exception as exc:
            kind = 'raises'
            counts[kind] = counts.get(kind, 0) + 1
            if counts[kind] == 1:
                V.append({'key': dict(key0, kind=kind, exc=type(exc).__name__),
                          'detail': {'script': _pauli(e_script, n), 'message': str(exc)[:200]}})
            res['evals'] += 1
            continue
        res['evals'] += 1
        res['nontrivial'] += int(w > 0)
        _check_record(ref, r, e_script, rng, bad)
        if counts.get(IGNORED):
            break
        outcomes.add('%s|%s|%d%d|%s' % (case['cls'], case['decoder'][:5], int(bool(r['success'])),
                                        int(bool(r['codespace'])),
                                        ''.join(str(int(x)) for x in np.asarray(r['effective_error']))))
    for kk, vv in counts.items():
        X[case['part'] + '_' + kk.replace('-', '_')] = vv
    if counts.get('rng-consumption') or counts.get(IGNORED):    # environment not under control
        V[:] = [v for v in V if v['key']['kind'] in ('rng-consumption', IGNORED)]
    del V[5:]
    res['traces'] = res['evals']
    res['outcomes'] = sorted(outcomes)[:50]
    res['samples'].append({'part': case['part'], 'config': '%s %s %s/%s%s' % (
        F.cfg_label(case), case['decoder'], case['direction'], case['noise_deformation'],
        case.get('noise_deformation_kwargs') or ''), 'weight': case['weight'], 'scripts': res['evals']})
    return res


# ------------------------------------------------------------------ part 'histories'
def _letter_script(letter, code, ref):
    n = ref.n
    if letter == 'I':
        e = 0
    elif letter == 'L':
        e = ref.LX[0]                      # a logical operator: zero syndrome, non-trivial effect
    elif letter == 'S':
        e = (1 << (n - 1)) | (1 << (2 * n - 1))      # Y on the last qubit
    else:
        raise KeyError(letter)
    return [{'I': 0, 'X': 1, 'Y': 2, 'Z': 3}[ch] for ch in _pauli(e, n)], e


LEVELS = {'m': lambda i: 0.6, 'h': lambda i: 0.97, 'q': lambda i: 0.97 if i == 0 else 0.25}


def _ref_class(probs_i, x):
    """Class (0..3 = I,X,Y,Z) whose cumulative interval contains the variate x, by the reference stacking;
    the variate must lie well inside the interval (boundaries are C07)."""
    for c, (lo, hi) in enumerate(class_intervals(probs_i)):
        if hi > lo and lo <= x < hi:
            if min(x - lo, hi - x) < 1e-6:
                raise RuntimeError('stream variate %r too close to an interval boundary' % x)
            return c
    raise RuntimeError('variate %r outside [0, 1)' % x)


def _letter_variates(letter, code, ref, env):
    """One trial of a stream: (n variates, the error they must produce at the simulated rate)."""
    if letter in LEVELS:
        vs = [LEVELS[letter](i) for i in range(ref.n)]
        script = [_ref_class(env.probs[i], x) for i, x in enumerate(vs)]
        return vs, env.error_int(script)
    script, e = _letter_script(letter, code, ref)
    if any(env.var[i][c] is None for i, c in enumerate(script)):
        raise RuntimeError('history stream needs a zero-probability class')
    return env.variates(script), e


def _sequences(max_len, max_total):
    out = []
    for l in range(max_len + 1):
        for seq in itertools.product(range(4), repeat=l):
            if sum(seq) <= max_total:
                out.append(seq)
    return out


def _canonical(sim, rng):
    R = sim.results
    return (int(R['n_runs']),
            tuple(np.asarray(x).astype(int).tobytes() for x in R['effective_error']),
            tuple(bool(x) for x in R['success']),
            tuple(bool(x) for x in R['codespace']),
            rng.pos)


def _eval_histories(case):
    from panqec.simulation import run_once, DirectSimulation
    res = _new_result()
    X = res['extra']
    code = _build_code(case)
    ref = _Ref(code)
    n = ref.n
    probs = _ref_probs(case)
    env = _Env(code, probs)
    key0 = dict(_base_key(case, ref), stream=case['stream'])
    V = res['violations']
    counts = {}

    def bad(kind, seq, **detail):
        counts[kind] = counts.get(kind, 0) + 1
        if counts[kind] == 1 and len(V) < 5:
            detail['sequence'] = ['run(%d)' % k for k in seq]
            V.append({'key': dict(key0, kind=kind, sequence_len=len(seq), total=sum(seq)), 'detail': detail})

    stream = []
    errors = []
    for letter in case['stream']:
        vs, e = _letter_variates(letter, code, ref, env)
        stream += vs
        errors.append(e)
    T = case['max_total']

    # reference states from the sequence of single-trial records (run_once judged in part 'trial'), one
    # decoder reused, same stream: state after t trials = (t, first t records, t*n variates)
    em, dec = _fresh_decoder(case, code)
    rng = ScriptedRNG(stream)
    recs = []
    for t in range(T):
        with contextlib.redirect_stdout(io.StringIO()):
            r = run_once(code, em, dec, case['p'], rng=rng)
        recs.append(r)
        res['evals'] += 1
        if rng.pos != (t + 1) * n or rng.other_calls:
            break
        # recorded fields must be mutually consistent (cheap per-trial oracle)
        _check_record(ref, r, errors[t], ScriptedRNG_pos(n), lambda kind, e, **d: bad('reference-' + kind, (), **d))
    uncontrolled = rng.pos != T * n or bool(rng.other_calls)
    if uncontrolled:
        # the trials did not draw from the scripted stream: decided by the draw count alone; below only the
        # structural clauses (lengths, counts, estimator, draw counts) are evaluated, no recorded values
        if rng.pos == 0 and not rng.other_calls:
            bad(IGNORED, (), variates_consumed=0, expected=T * n, entry='run_once')
        else:
            bad('rng-consumption', (), variates_consumed=rng.pos, expected=T * n)
        recs = []
    want = {}
    for t in range(0 if uncontrolled else T + 1):
        want[t] = (t,
                   tuple(np.asarray(r['effective_error']).astype(int).tobytes() for r in recs[:t]),
                   tuple(bool(r['success']) for r in recs[:t]),
                   tuple(bool(r['codespace']) for r in recs[:t]),
                   t * n)

    state_ids = set()
    label = '%s|%s|%s|%s|%s|%s|%s' % (F.cfg_label(case), case['decoder'], case['direction'],
                                      case['noise_deformation'], case['p'], _prior(case), case['stream'])
    outcomes = set()
    nontrivial = set()
    for seq in _sequences(case['max_len'], T):
        em, dec = _fresh_decoder(case, code)
        rng = ScriptedRNG(stream)
        sim = DirectSimulation(code, em, dec, case['p'], rng=rng, verbose=False)
        done = 0
        ops = [None] + list(seq)
        for j, k in enumerate(ops):
            if k is not None:
                try:
                    with contextlib.redirect_stdout(io.StringIO()):
                        sim.run(k)
                except Exception as exc:
                    bad('raises', seq[:j], exc=type(exc).__name__, message=str(exc)[:200])
                    break
                done += k
                res['transitions'] += 1
                res['evals'] += 1
            st = _canonical(sim, rng)
            if rng.pos == 0 and done > 0 and not rng.other_calls:
                bad(IGNORED, seq[:j], variates_consumed=0, expected=done * n, entry='DirectSimulation.run')
                uncontrolled = True
            state_ids.add(hashlib.sha1((label + repr((st[0], st[4]) if uncontrolled else st)).encode())
                          .hexdigest()[:16])
            R = sim.results
            lens = [len(R['effective_error']), len(R['success']), len(R['codespace'])]
            if any(x != st[0] for x in lens):
                bad('list-length-differs-from-n_runs', seq[:j], n_runs=st[0], lengths=lens)
            if st[0] != done:
                bad('n_runs-differs-from-trials-requested', seq[:j], n_runs=st[0], requested=done)
            if not uncontrolled and st != want[done]:
                which = [nm for nm, a, b_ in zip(['n_runs', 'effective_error', 'success', 'codespace',
                                                  'rng_position'], st, want[done]) if a != b_]
                bad('state-differs-from-single-run-of-same-total', seq[:j], differs_in=which,
                    n_runs=st[0], rng_position=st[4], expected_rng_position=want[done][4],
                    success=list(st[2]), expected_success=list(want[done][2]))
            # estimator
            try:
                g = sim.get_results()
            except Exception as exc:
                bad('get_results-raises', seq[:j], exc=type(exc).__name__, message=str(exc)[:200])
                continue
            succ = [bool(x) for x in R['success']]
            nr = len(succ)
            nf = sum(1 for x in succ if not x)
            if nr:
                pe = nf / nr
                se = math.sqrt(pe * (1 - pe) / (nr + 1))
            else:
                pe = se = float('nan')

            def same(a, b_):
                a = float(a)
                return (math.isnan(a) and math.isnan(b_)) or abs(a - b_) <= 1e-15
            if int(g['n_runs']) != nr or int(g['n_fail']) != nf or int(g['n_success']) != nr - nf \
                    or not same(g['p_est'], pe) or not same(g['p_se'], se):
                bad('estimator-wrong', seq[:j], got={kk: float(vv) for kk, vv in g.items()},
                    expected={'n_runs': nr, 'n_fail': nf, 'p_est': pe, 'p_se': se})
            if case['p'] == 0 and nf:
                bad('failure-recorded-at-zero-error-rate', seq[:j], n_fail=nf, n_runs=nr, success=succ)
            outcomes.add('%d|%d|%s' % (nr, nf, st[4]))
        # every error of the history must have been sampled at the simulated rate, whatever the decoder prior
        if any(x != float(case['p']) for x in em.rates) or len(em.rates) != done:
            bad('noise-sampled-at-rate-other-than-simulated', seq, simulated_rate=case['p'],
                decoder_prior=_prior(case), rates_passed_to_noise=sorted(set(em.rates)), draws=len(em.rates),
                trials=done)
        if sum(1 for k in seq if k > 0) >= 2:
            nontrivial.add(seq)
    res['nontrivial'] = len(nontrivial)
    res['state_ids'] = sorted(state_ids)
    res['traces'] = len(_sequences(case['max_len'], T))
    res['outcomes'] = sorted('%s|%s' % (case['decoder'][:5], o) for o in outcomes)[:50]
    for kk, vv in counts.items():
        X['histories_' + kk.replace('-', '_')] = vv
    X['histories_sequences'] = res['traces']
    if uncontrolled:
        V[:] = [v for v in V if not v['key']['kind'].startswith('reference-')]
    res['samples'].append({'part': 'histories', 'config': label, 'sequences': res['traces'],
                           'success_per_trial': list(want[T][2]) if T in want else None})
    return res


class ScriptedRNG_pos:
    """Stand-in carrying the already verified consumption count (the reference trials share one stream)."""

    def __init__(self, n):
        self.pos = n
        self.other_calls = []


# ------------------------------------------------------------------ part 'seeds'
def _make_rng(style, seed):
    """Every seeding style the library's `rng=` accepts (it only calls rng.random())."""
    if style == 'default_rng':
        return np.random.default_rng(seed)
    if style == 'RandomState':
        return np.random.RandomState(seed)
    if style == 'np.random-module':
        np.random.seed(seed)
        return np.random
    raise KeyError(style)


def _rng_state(rng):
    if isinstance(rng, np.random.Generator):
        return repr(rng.bit_generator.state)
    st = rng.get_state()
    return hashlib.sha1(repr((st[0], np.asarray(st[1]).tobytes(), st[2:])).encode()).hexdigest()


def _seeded_run(case):
    from panqec.simulation import DirectSimulation
    code = _build_code(case)
    em, dec = _fresh_decoder(case, code)
    rng = _make_rng(case.get('style', 'default_rng'), case['seed'])
    state0 = _rng_state(rng)
    sim = DirectSimulation(code, em, dec, case['p'], rng=rng, verbose=False)
    exc = None
    try:
        with contextlib.redirect_stdout(io.StringIO()):
            sim.run(case['trials'])
    except Exception as e:            # 'does not raise' is reported with a precise key by the caller
        import traceback
        exc = (type(e).__name__, str(e)[:200], traceback.format_exc()[-600:])
    R = sim.results
    out = (int(R['n_runs']),
           tuple(np.asarray(x).tobytes() for x in R['effective_error']),
           tuple(str(np.asarray(x).dtype) for x in R['effective_error']),
           tuple(bool(x) for x in R['success']),
           tuple(bool(x) for x in R['codespace']),
           _rng_state(rng))
    return out, exc, list(em.rates), (state0 == _rng_state(rng) and len(em.rates) > 0)


def _seeded_reference(case):
    """The same seed pushed through the single-shot API at the simulated rate (fresh objects, one decoder)."""
    from panqec.simulation import run_once
    code = _build_code(case)
    em, dec = _fresh_decoder(case, code)
    rng = _make_rng(case.get('style', 'default_rng'), case['seed'])
    recs = []
    try:
        with contextlib.redirect_stdout(io.StringIO()):
            for _ in range(case['trials']):
                recs.append(run_once(code, em, dec, case['p'], rng=rng))
    except Exception:
        return None
    return (len(recs),
            tuple(np.asarray(r['effective_error']).tobytes() for r in recs),
            tuple(str(np.asarray(r['effective_error']).dtype) for r in recs),
            tuple(bool(r['success']) for r in recs),
            tuple(bool(r['codespace']) for r in recs),
            _rng_state(rng))


def _eval_seeds(case):
    res = _new_result()
    a, ea, rates_a, ignored_a = _seeded_run(case)
    b, eb, _, ignored_b = _seeded_run(case)
    res['evals'] = 3
    res['traces'] = 3
    key0 = dict(_base_key(case), seed=case['seed'], trials=case['trials'],
                seeding_style=case.get('style', 'default_rng'))
    V = res['violations']
    if ignored_a or ignored_b:
        # errors were sampled (the noise model was called) but the supplied generator never advanced: decided
        # by the draw count alone; the recorded values are then not a function of the seed and are not compared
        V.append({'key': dict(key0, kind=IGNORED),
                  'detail': {'errors_sampled': len(rates_a), 'generator_state_changed': False}})
        res['nontrivial'] = 1
        res['outcomes'] = ['%s|seed|ignored|%s' % (case['decoder'][:5], case.get('style', 'default_rng'))]
        return res
    if ea or eb:
        e = ea or eb
        V.append({'key': dict(key0, kind='raises', exc=e[0]),
                  'detail': {'message': e[1], 'trials_completed_before_raise': [a[0], b[0]],
                             'traceback_tail': e[2]}})
    if a != b or (ea is None) != (eb is None) or (ea and eb and ea[0] != eb[0]):
        which = [nm for nm, x, y in zip(['n_runs', 'effective_error', 'dtype', 'success', 'codespace',
                                         'generator_state'], a, b) if x != y]
        V.append({'key': dict(key0, kind='seeded-runs-differ'),
                  'detail': {'differs_in': which, 'success_a': list(a[3]), 'success_b': list(b[3])}})
    if a[0] != case['trials'] and not ea:
        V.append({'key': dict(key0, kind='n_runs-differs-from-trials-requested'), 'detail': {'n_runs': a[0]}})
    nf = sum(1 for x in a[3] if not x)
    if not ea:
        want = _seeded_reference(case)
        if want is not None and a != want:
            which = [nm for nm, x, y in zip(['n_runs', 'effective_error', 'dtype', 'success', 'codespace',
                                             'generator_state'], a, want) if x != y]
            V.append({'key': dict(key0, kind='seeded-run-differs-from-run_once-sequence'),
                      'detail': {'differs_in': which, 'success_simulation': list(a[3]),
                                 'success_run_once_sequence': list(want[3])}})
        if any(x != float(case['p']) for x in rates_a) or len(rates_a) != a[0]:
            V.append({'key': dict(key0, kind='noise-sampled-at-rate-other-than-simulated'),
                      'detail': {'simulated_rate': case['p'], 'decoder_prior': _prior(case),
                                 'rates_passed_to_noise': sorted(set(rates_a)), 'draws': len(rates_a)}})
        if case['p'] == 0 and nf:
            V.append({'key': dict(key0, kind='failure-recorded-at-zero-error-rate'),
                      'detail': {'n_fail': nf, 'n_runs': a[0]}})
    res['nontrivial'] = int(bool(ea) or 0 < nf < len(a[3]))
    res['outcomes'] = ['%s|seed|%d|%d|%s' % (case['decoder'][:5], a[0], nf, ea[0] if ea else '-')]
    res['extra']['seeds_runs_raising'] = int(bool(ea)) + int(bool(eb))
    if case['seed'] == 0:
        res['samples'].append({'part': 'seeds', 'config': '%s %s p=%s' % (F.cfg_label(case), case['decoder'],
                                                                        case['p']),
                               'seed': case['seed'], 'trials_completed': a[0], 'failures': nf,
                               'raised': ea[0] if ea else None})
    return res


# ------------------------------------------------------------------ part 'estimator'
def _eval_estimator(case):
    """calculate_logical_error_rate takes no generator, so the error model is the environment: a scripted,
    counting model hands out the stream.  Oracle: exactly n_runs errors are drawn, all at the simulated rate,
    and the estimate is n_fail / n_runs with n_fail from the reference pipeline (fresh decoder per syndrome)."""
    from panqec.simulation import calculate_logical_error_rate
    res = _new_result()
    X = res['extra']
    code = _build_code(case)
    ref_code = _build_code(case)
    ref = _Ref(code)
    n = ref.n
    key0 = _base_key(case, ref)
    V = res['violations']
    counts = {}

    def bad(kind, n_runs, stream, **detail):
        counts[kind] = counts.get(kind, 0) + 1
        if counts[kind] == 1 and len(V) < 5:
            V.append({'key': dict(key0, kind=kind, n_runs=n_runs, stream=stream), 'detail': detail})

    fresh = {}

    def ref_fails(e):
        s = ref.syndrome(e)
        if s not in fresh:
            _, d = _fresh_decoder(case, ref_code)
            with contextlib.redirect_stdout(io.StringIO()):
                c = d.decode(np.array(gf2.int_to_vec(s, ref.m), dtype=np.uint8))
            fresh[s] = _bin_int(np.asarray(c) % 2, 2 * n)
        c = fresh[s]
        return True if c is None else not ref.judge(e, c)[2]

    letter_error = {l: _letter_script(l, code, ref)[1] for l in case['letters']}
    outcomes = set()
    for n_runs in range(1, case['max_runs'] + 1):
        for stream in itertools.product(case['letters'], repeat=n_runs):
            stream = ''.join(stream)
            errors = [letter_error[l] for l in stream]
            em, dec = _fresh_decoder(case, code, 'scr')
            em.script = [gf2.int_to_vec(e, 2 * n) for e in errors]
            try:
                with contextlib.redirect_stdout(io.StringIO()):
                    est = calculate_logical_error_rate(code, em, dec, case['p'], n_runs)
            except Exception as exc:
                bad('raises', n_runs, stream, exc=type(exc).__name__, message=str(exc)[:200])
                V[-1]['key'].setdefault('exc', type(exc).__name__)
                res['evals'] += 1
                continue
            res['evals'] += 1
            res['nontrivial'] += int(n_runs >= 2)
            drawn = len(em.rates)
            if drawn != n_runs:
                bad('estimator-trial-count-differs-from-n_runs', n_runs, stream, errors_drawn=drawn)
            if any(x != float(case['p']) for x in em.rates):
                bad('noise-sampled-at-rate-other-than-simulated', n_runs, stream, simulated_rate=case['p'],
                    decoder_prior=_prior(case), rates_passed_to_noise=sorted(set(em.rates)))
            n_fail = sum(1 for e in errors if ref_fails(e))
            want = n_fail / n_runs
            try:
                ok = abs(float(est) - want) <= 1e-15
            except (TypeError, ValueError):
                ok = False
            if not ok:
                bad('estimate-differs-from-n_fail-over-n_runs', n_runs, stream, estimate=repr(est),
                    expected=want, reference_failures=n_fail,
                    errors=[_pauli(e, n) for e in errors])
            outcomes.add('%s|est|%d|%d' % (case['decoder'][:5], n_runs, n_fail))
    for kk, vv in counts.items():
        X['estimator_' + kk.replace('-', '_')] = vv
    res['traces'] = res['evals']
    res['outcomes'] = sorted(outcomes)[:50]
    res['samples'].append({'part': 'estimator', 'config': '%s %s p=%s prior=%s' % (
        F.cfg_label(case), case['decoder'], case['p'], _prior(case)), 'letters': case['letters'],
        'max_runs': case['max_runs'], 'calls': res['evals']})
    return res
