"""C07  Pauli noise model is the stated i.i.d. channel and is sampled faithfully.

Three parts, every one a bounded exhaustive enumeration executed on the real
panqec code and compared with reference code written here:

* sample (distribution + sampling): for every (code class, deformation
  name/axis or None, p, direction r) `probability_distribution` must be the
  hand-permuted (1-p, p r_x, p r_y, p r_z) rows; `generate` is then run with
  the RNG as an explorer-owned environment (`ScriptedRNG`): a probe set that
  contains every sequential subset sum of the four probabilities +-{0,1,2} ulp,
  the midpoints between them, 0, 1-2^-53 and a dyadic grid decides the Lebesgue
  measure of every outcome's preimage for every qubit, without fixing the order
  in which the implementation stacks its intervals.  Independence is decided
  by single / pair deviations (all 4^n combinations for n <= 4) from a base
  script whose per-qubit answers are taken from the measured maps.
* priors: `get_weights`, the weights that reach pymatching (constructor spy +
  edge weights of the live matcher), every `update_channel_probs` argument and
  the `channel_probs` in force at every ldpc `decode` (spy around BpOsdDecoder)
  and `update_probabilities` for every (correction bit, qubit).
* tiny: the priors part again on a grid of tiny-but-positive marginals
  (p in {1e-3, 1e-6, 1e-9, 1e-12, 0.05} x depolarising and bias ratios
  1e3..1e12 towards each axis); every probability handed to a decoder and
  every conditional update is compared with the exact reference in RELATIVE
  terms (only an exactly-zero conditioning event is exempt).
* xcube: XCubeMatchingDecoder hands each plane's 2-D pymatching graphs one weight per
  2-D edge; every such weight (constructor argument and live edge weight) must be
  the X-flip log-likelihood ratio of every 3-D qubit that 2-D edge stands for
  (the same-orientation edges in the planes next to it), from the reference
  channel, under every deformation config and the whole (p, r) grid.
* session: ONE code object, ONE error rate, several DISTINCT models evaluated one
  after the other in one process (same deformation name with different axis
  kwargs, directions that differ only beyond the 4th decimal, with / without
  deformation, forward and reversed order): every model is judged by the same
  absolute oracle (distribution, weights, measure probe of generate), so a
  model that inherits an earlier model's cached distribution is reported.
"""
import hashlib
import itertools
import math

import numpy as np

from mc import families as F
from mc.env_rng import ScriptedRNG, ScriptExhausted

PROPERTY = 'C07'
LEVEL = 'exploration'
DESIGN_REF = 'DESIGN.md §4 C07'
TECHNIQUE = ('bounded exhaustive enumeration of (class, deformation/axis, p, direction) configurations with the '
             'uniform variate as an enumerated environment: measure probes at every subset-sum breakpoint '
             '(+-2 ulp), midpoints and a dyadic grid; single/pair deviation scripts for independence; spies on '
             'pymatching / ldpc for the priors')
LEVEL_TEXT = ('Every configuration of a finite (p, r) x class x deformation grid is executed on the real error '
              'model and decoders. For one qubit the map variate -> Pauli is piecewise constant with breakpoints '
              'only at cumulative sums of the four probabilities, so probing both sides of every possible '
              'breakpoint decides the preimage measure of each outcome for every variate value; this is an '
              'exploration of a parameter grid, not a proof over the continuum of (p, r).')
LEVEL_NOTE = ('Trusted: numpy float arithmetic, math.nextafter, ScriptedRNG, the recorder classes wrapped around '
              'pymatching.Matching and ldpc.BpOsdDecoder, and get_deformation as the definition of the per-qubit '
              'table (its consistency with deform() is C08). Assumed: the i-th variate drawn decides qubit i '
              '(any other consumption order would be reported although the statement does not forbid it); a '
              'switch of outcome and back between two adjacent probe points away from a subset sum is invisible. '
              'Not covered: (p, r) off the grid; XCubeMatchingDecoder priors for noise deformed along x or y (its source restricts it to z-axis deformation; mismatches there are counted in extra.xcube_offdomain_mismatch);  measure equality is to 1e-12 (an outcome of probability 0 that '
              'is produced on a set of measure <= 1e-12, e.g. the fall-through at variate 1-2^-53 when the row '
              'sums to 1-2^-53, is counted in extra.zero_prob_outcome_probes, not reported); conditionals whose '
              'conditioning event has probability 0 are undefined and not compared (extra.cond_undefined).')
RULE = ('sample: one sub-case per (class, size, deformation config, p, r); distinct = digest of that tuple; '
        'non-trivial when 0 < p < 1 and at least two outcomes have positive probability (the variate map has an '
        'interior breakpoint), measured from the reference rows. priors: one sub-case per (class, size, '
        'deformation, p, r); non-trivial when the X-flip and Z-flip marginals differ on at least one qubit or '
        'between qubits (a swapped prior would be visible). session: one sub-case per (class, size, p, order, '
        'position in the session); non-trivial when an earlier model of the same session (same code object, same '
        'p) has different reference rows, i.e. a stale per-(model, code, p) cache would be visible. xcube: one '
        'sub-case per (size, deformation config, p, r); non-trivial when the 3-D qubits do not all carry the same '
        'X-flip weight (a plane given the weight of the wrong edge orientation would be visible)')
ASSUMPTIONS = [
    'variates are consumed in qubit-index order (one rng.random() per qubit)',
    'BSF convention [X block | Z block]: (1,0)=X, (0,1)=Z, (1,1)=Y',
    'get_deformation(location, name, **kwargs) defines the per-qubit relabelling D_i; p_def[s][i] = p_undef[D_i(s)]',
    'get_weights uses the documented eps=1e-20: reference is log((1-q+eps)/(q+eps)), and log((1-q)/q) for 0<q<1',
]

P_LIST = [0.0, 1e-3, 0.1, 0.25, 0.5, 0.9, 1.0]
SMALL = {
    'Toric2DCode': [2, 2], 'Planar2DCode': [2, 2], 'RotatedPlanar2DCode': [2, 2], 'Color666PlanarCode': [1, 1],
    'Color488Code': [1, 1], 'Color666ToricCode': [1, 1], 'Toric3DCode': [2, 2, 2], 'Planar3DCode': [2, 2, 2],
    'RotatedPlanar3DCode': [2, 2, 2], 'RotatedToric3DCode': [2, 2, 1], 'RhombicToricCode': [2, 2, 2],
    'RhombicPlanarCode': [2, 2, 1], 'HollowPlanar3DCode': [2, 2, 2], 'HollowRhombicCode': [2, 2, 3],
    'XCubeCode': [2, 2, 2], 'Color3DCode': [2, 2, 2],
}
# second, non-square / non-cubic member (thorough tier)
SECOND = {
    'Toric2DCode': [2, 3], 'Planar2DCode': [3, 2], 'RotatedPlanar2DCode': [2, 3], 'Color666PlanarCode': [2, 2],
    'Color488Code': [1, 2], 'Toric3DCode': [2, 2, 3], 'Planar3DCode': [2, 3, 2],
    'RotatedPlanar3DCode': [3, 2, 2], 'RotatedToric3DCode': [2, 3, 1], 'RhombicPlanarCode': [2, 3, 1],
    'HollowPlanar3DCode': [2, 2, 3], 'HollowRhombicCode': [2, 3, 3], 'XCubeCode': [2, 2, 3],
}
MATCHING_CLASSES = ('Toric2DCode', 'Planar2DCode', 'RotatedPlanar2DCode')
SYNTH = 'Synthetic3CycleCode'

BOUNDS = {
    'quick': {'p': P_LIST, 'directions': 'simplex grid denominator 10 (66) + (1/3,1/3,1/3)',
              'codes': 'smallest family member of each of the 16 classes + synthetic 3-cycle subclass (n=5)',
              'deformations': 'None + every name/axis of the class (default-axis call included)',
              'dyadic_grid_log2': {'RotatedPlanar2DCode(2,2) with None / XZZX / XY and the synthetic class': 10,
                                   'else': 6},
              'pair_deviations': 'n<=4: all 4^n; else all singles for every (p,r), all pairs for 2 directions '
                                 'per (config, p) when n<=30, index-adjacent pairs when n>30',
              'bposd': 'all 67 directions when n<=12, 7 directions when n>12; up to 4 syndromes; '
                       'channel_update in {False, True}; CSS object and deformed (non-CSS) object',
              'tiny': 'priors part on p in {1e-3,1e-6,1e-9,1e-12,0.05} x (depolarising + bias 1e3,1e6,1e9,1e12 '
                      'towards X, Y, Z) for every (class, deformation config) of the quick list; relative 1e-9',
              'xcube': 'XCubeCode (2,2,2) and (2,2,3) x {None, XZZX default axis, XZZX z} x P_LIST x 67 directions '
                       '(+ tiny grid on (2,2,2)); all three plane decoders, both matchers each; XZZX along x / y '
                       '(outside the decoder\'s documented domain) executed at p=0.1 and only counted',
              'session': '8 classes (one per deformation family, all axis kwargs) x p in {0.25, 1.0}; 4 directions '
                         '(two pairs differing only beyond the 4th decimal) x every deformation config, forward '
                         'and reversed order, each order on one code object; dyadic grid 2^4'},
    'thorough': {'p': P_LIST, 'directions': 'simplex grid denominator 10 (66) + (1/3,1/3,1/3)',
                 'codes': 'smallest + one non-square/non-cubic member of each class + synthetic 3-cycle subclass',
                 'deformations': 'None + every name/axis of the class (default-axis call included)',
                 'dyadic_grid_log2': {'all': 10},
                 'pair_deviations': 'n<=4: all 4^n; else all singles and all pairs for every (p,r) when n<=20, '
                                    'pairs for 2 directions per (config, p) when n>20',
                 'bposd': 'all 67 directions; 4 syndromes; channel_update in {False, True}; CSS and deformed '
                          'object',
                 'tiny': 'same grid on every (class, size, deformation config) of the thorough list',
                 'xcube': 'XCubeCode (2,2,2), (2,2,3), (2,3,2), (3,2,2), (3,3,3); otherwise as quick',
                 'session': 'every class of the quick list plus the remaining classes with a deformation, '
                            'p in {0.001, 0.25, 0.9, 1.0}; same sequences; dyadic grid 2^6'},
}
BUDGET_S = {'quick': 900, 'thorough': 5400}
CHUNK = 1

TOL = 1e-12
PAIR_DIRS = (66, 17)          # indices into directions(): (1/3,1/3,1/3) and (0.1, 0.7, 0.2)-like interior point
BP_DIRS_BIG = (66, 17, 0, 10, 65, 5, 38)
# tiny-marginal grid for the prior / conditional-prior clauses
TINY_P = [1e-3, 1e-6, 1e-9, 1e-12, 0.05]
TINY_ETA = [1e3, 1e6, 1e9, 1e12]
SESSION_CLASSES = ['RotatedPlanar2DCode', 'Toric2DCode', 'Color488Code', 'Color666ToricCode', 'Planar3DCode',
                   'RhombicPlanarCode', 'XCubeCode', SYNTH]
# two pairs of directions that agree to 4 decimals (what a label / repr with limited precision would show)
SESSION_DIRS = [(0.2, 0.3, 0.5), (0.20004, 0.3, 0.49996), (0.5, 0.5, 0.0), (0.49996, 0.50004, 0.0)]


def directions():
    out = []
    for a in range(11):
        for b in range(11 - a):
            out.append((a / 10, b / 10, (10 - a - b) / 10))
    out.append((1 / 3, 1 / 3, 1 / 3))
    return out


def tiny_directions():
    """depolarising, then bias ratio eta = r_axis / (sum of the other two) towards X, Y, Z."""
    out = [(1 / 3, 1 / 3, 1 / 3)]
    for ax in range(3):
        for eta in TINY_ETA:
            r = [1 / (2 * (1 + eta))] * 3
            r[ax] = eta / (1 + eta)
            out.append(tuple(r))
    return out


def tiny_r_key(ri):
    if ri == 0:
        return 'depolarising'
    return ['XYZ'[(ri - 1) // len(TINY_ETA)], 'eta=1e%d' % round(math.log10(TINY_ETA[(ri - 1) % len(TINY_ETA)]))]


def r_key(ri):
    if ri == 66:
        return 'third'
    a = 0
    k = ri
    while k >= 11 - a:
        k -= 11 - a
        a += 1
    return [a, k, 10 - a - k]


# ---------------------------------------------------------------- codes

_SYNTH_CLS = []


def synth_class():
    """A user-defined subclass whose deformation tables are 3-cycles (no panqec class offers a
    non-involutive table; the statement 'permuted per qubit by the noise deformation' does)."""
    if not _SYNTH_CLS:
        from panqec.codes import Planar2DCode

        class Synthetic3CycleCode(Planar2DCode):
            deformation_names = ['CYC3']

            def get_deformation(self, location, deformation_name, **kwargs):
                if deformation_name != 'CYC3':
                    raise ValueError(deformation_name)
                k = sum(location) % 3
                if k == 0:
                    return {'X': 'Y', 'Y': 'Z', 'Z': 'X'}
                if k == 1:
                    return {'X': 'Z', 'Y': 'X', 'Z': 'Y'}
                return {'X': 'X', 'Y': 'Y', 'Z': 'Z'}
        _SYNTH_CLS.append(Synthetic3CycleCode)
    return _SYNTH_CLS[0]


def build_code(cls, size):
    if cls == SYNTH:
        return synth_class()(*size)
    return F.get_class(cls)(*size)


def multi_code_sizes(cls):
    """a size, its transposes/rotations and one other size, all inside the supported family, n <= 400"""
    dim = 2 if cls in F.CLASSES_2D else 3
    base = [3, 4] if dim == 2 else [2, 3, 4]
    cands = [list(q) for q in sorted(set(itertools.permutations(base)))] + [[3] * dim, [2] * dim, [4] * dim]
    out = []
    for sz in cands:
        if F.in_family(cls, sz) and sz not in out:
            n = F.n_qubits(cls, sz)
            if n is not None and n <= 400:
                out.append(sz)
    return out[:4]


def eval_codes(case):
    from panqec.error_models import PauliErrorModel
    res = {'evals': 0, 'nontrivial': 0, 'violations': [], 'samples': [], 'outcomes': [], 'skipped': 0,
           'extra': {'codes_sequences': 0, 'codes_tables': 0}}
    cls = case['cls']
    p = P_LIST[case['pi']]
    r = SESSION_DIRS[0]
    outcomes = set()
    sizes = case['sizes']
    orders = list(itertools.permutations(range(len(sizes)), 2)) + [tuple(range(len(sizes))),
                                                                     tuple(reversed(range(len(sizes))))]
    for d in deformation_configs(cls):
        if d is None:
            continue
        for order in orders:
            res['extra']['codes_sequences'] += 1
            em = PauliErrorModel(r[0], r[1], r[2], deformation_name=d[0], deformation_kwargs=dict(d[1]))
            for pos, si in enumerate(order):
                code = build_code(cls, sizes[si])
                rows, _ = reference_rows(code, p, r, d)
                ref = np.array(rows)
                res['evals'] += 1
                res['extra']['codes_tables'] += 1
                err = None
                try:
                    got = np.array([np.asarray(v, dtype=float) for v in em.probability_distribution(code, p)]).T
                except Exception as exc:
                    err, got = exc, None
                bad = err is not None or got.shape != ref.shape or np.abs(got - ref).max() > 1e-12
                res['nontrivial'] += int(pos > 0 and len(set(map(tuple, rows))) > 1)
                outcomes.add('%s|%s|%s|%d' % (cls, d[0], 'x'.join(map(str, sizes[si])), len(set(map(tuple, rows)))))
                if bad and len(res['violations']) < 4:
                    k = base_key(dict(case, deformation=d, size=sizes[si], n=code.n))
                    k.update({'kind': 'table-of-another-code', 'part': 'codes', 'position': pos,
                              'used_before_on': [sizes[j] for j in order[:pos]]})
                    q = None if got is None or got.shape != ref.shape else int(np.abs(got - ref).max(axis=1).argmax())
                    res['violations'].append({'key': k, 'detail': {
                        'raised': None if err is None else repr(err)[:200], 'qubit': q,
                        'got': None if q is None else got[q].tolist(),
                        'expected': None if q is None else ref[q].tolist()}})
    res['outcomes'] = sorted(outcomes)[:50]
    res['samples'] = [{'part': 'codes', 'cls': cls, 'sizes': sizes, 'sequences': res['extra']['codes_sequences']}]
    return res


def deformation_configs(cls):
    if cls == SYNTH:
        return [None, ['CYC3', {}]]
    return [None] + F.deformations(cls)


def code_list(tier):
    out = [(c, SMALL[c]) for c in F.CLASSES] + [(SYNTH, [2, 2])]
    if tier == 'thorough':
        out += [(c, SECOND[c]) for c in F.CLASSES if c in SECOND]
    return out


def cases(tier, seed):
    out = []
    for cls, size in code_list(tier):
        n = build_code(cls, size).n
        for d in deformation_configs(cls):
            for pi in range(len(P_LIST)):
                base = {'cls': cls, 'size': size, 'deformation': d, 'pi': pi, 'n': n}
                if tier == 'quick':
                    fine = cls == SYNTH or (cls == 'RotatedPlanar2DCode' and (d is None or not d[1]))
                    g = 10 if fine else 6
                    pairs = 'all' if n <= 4 else ('two_dirs' if n <= 30 else 'adjacent_two_dirs')
                    bp = 'all' if n <= 12 else 'few'
                else:
                    g = 10
                    pairs = 'all' if n <= 20 else 'two_dirs'
                    bp = 'all'
                out.append(dict(base, part='sample', grid_log2=g, pairs=pairs))
                out.append(dict(base, part='priors', bp_dirs=bp))
    out.sort(key=lambda c: (c['n'] * (4 if c['part'] == 'sample' else 1), c['cls'], str(c['deformation']), c['pi'],
                            c['part']))
    tiny = []
    for cls, size in code_list(tier):
        n = build_code(cls, size).n
        for d in deformation_configs(cls):
            tiny.append({'part': 'tiny', 'cls': cls, 'size': size, 'deformation': d, 'n': n, 'bp_dirs': 'all'})
    tiny.sort(key=lambda c: (c['n'], c['cls'], str(c['deformation'])))
    xc = []
    for size in ([[2, 2, 2], [2, 2, 3]] if tier == 'quick' else
                 [[2, 2, 2], [2, 2, 3], [2, 3, 2], [3, 2, 2], [3, 3, 3]]):
        for d in deformation_configs('XCubeCode'):
            xc.append({'part': 'xcube', 'cls': 'XCubeCode', 'size': size, 'deformation': d,
                       'n': 3 * size[0] * size[1] * size[2], 'tiny': tier != 'quick' or size == [2, 2, 2]})
    sess = []
    if tier == 'quick':
        scls, spis, g = SESSION_CLASSES, (3, 6), 4
    else:
        scls = SESSION_CLASSES + [c for c in F.CLASSES if c not in SESSION_CLASSES and F.deformations(c)]
        spis, g = (1, 3, 5, 6), 6
    for cls in scls:
        size = [2, 2] if cls == SYNTH else SMALL[cls]
        for pi in spis:
            sess.append({'part': 'session', 'cls': cls, 'size': size, 'pi': pi, 'n': build_code(cls, size).n,
                         'grid_log2': g, 'deformation': None})
    # one noise-model OBJECT used on several codes of one class (sizes with equal qubit count but another shape
    # among them): the table it hands out must be the table of the code it is asked about
    multi = []
    for cls in [c for c in F.CLASSES if F.deformations(c)]:
        szs = multi_code_sizes(cls)
        if len(szs) >= 2:
            multi.append({'part': 'codes', 'cls': cls, 'sizes': szs, 'size': szs[0], 'pi': 3, 'deformation': None,
                          'n': 0})
    return sess + multi + xc + tiny + out


# ---------------------------------------------------------------- reference

PAULIS = 'IXYZ'


def reference_rows(code, p, r, deformation):
    """rows[i] = (p_I, p_X, p_Y, p_Z) of qubit i; permutation applied by hand."""
    und = {'I': 1 - p, 'X': p * r[0], 'Y': p * r[1], 'Z': p * r[2]}
    rows = []
    tables = []
    coords = code.qubit_coordinates
    for i in range(code.n):
        if deformation is None:
            t = {'X': 'X', 'Y': 'Y', 'Z': 'Z'}
        else:
            t = dict(code.get_deformation(coords[i], deformation[0], **deformation[1]))
        tables.append(t)
        rows.append((und['I'], und[t['X']], und[t['Y']], und[t['Z']]))
    return rows, tables


def probe_points(probs, grid_log2):
    """Every float a left-to-right cumulative sum of any ordering of the four probabilities can take,
    each +-{0,1,2} ulp; midpoints between consecutive ones; dyadic grid; 0 and 1-2^-53."""
    sums = set()
    for k in range(5):
        for idx in itertools.permutations(range(4), k):
            s = 0.0
            for i in idx:
                s += probs[i]
            sums.add(s)
    sums = sorted(sums)
    pts = set()
    for s in sums:
        up = dn = s
        pts.add(s)
        for _ in range(2):
            up = math.nextafter(up, 2.0)
            dn = math.nextafter(dn, -1.0)
            pts.add(up)
            pts.add(dn)
    mids = set()
    for a, b in zip(sums, sums[1:]):
        mids.add((a + b) / 2)
    pts |= mids
    g = 1 << grid_log2
    pts.update(i / g for i in range(g))
    pts.add(0.0)
    pts.add(1 - 2.0 ** -53)
    pts = sorted(x for x in pts if 0.0 <= x < 1.0)
    return pts, mids


def decode_bsf(arr, n):
    """(K, 2n) 0/1 array -> (K, n) outcome codes 0=I 1=X 2=Y 3=Z (own convention, not panqec's)."""
    x = arr[:, :n].astype(np.int64)
    z = arr[:, n:].astype(np.int64)
    return np.where(x == 1, np.where(z == 1, 2, 1), np.where(z == 1, 3, 0))


class _Run:
    """Runs generate() with scripts and validates the per-call contract."""

    def __init__(self, em, code, p):
        self.em, self.code, self.p, self.n = em, code, p, code.n
        self.calls = 0
        self.bad_consumed = None
        self.bad_format = None

    def many(self, scripts):
        outs = []
        n = self.n
        for s in scripts:
            rng = ScriptedRNG(s)
            try:
                e = self.em.generate(self.code, self.p, rng=rng)
            except ScriptExhausted:           # more than n variates, or another Generator method, was requested
                e = None
            self.calls += 1
            if (rng.pos != n or rng.other_calls) and self.bad_consumed is None:
                self.bad_consumed = {'consumed': rng.pos, 'n': n, 'other_calls': [c[0] for c in rng.other_calls][:3]}
            if e is None:
                outs.append(np.zeros(2 * n, dtype=np.int64) + 9)
                continue
            ok = isinstance(e, np.ndarray) and e.ndim == 1 and e.shape[0] == 2 * n and e.dtype.kind in 'biuf'
            if ok:
                ok = bool(np.all((e == 0) | (e == 1)))
            if not ok:
                if self.bad_format is None:
                    self.bad_format = {'type': type(e).__name__, 'shape': list(getattr(e, 'shape', [])),
                                       'dtype': str(getattr(e, 'dtype', None))}
                e = np.zeros(2 * n, dtype=np.uint8) + 9
            outs.append(np.asarray(e).astype(np.int64))
        return np.array(outs).reshape(len(scripts), 2 * n)


def digest(*a):
    return hashlib.sha1(repr(a).encode()).hexdigest()[:10]


def base_key(case, ri=None):
    d = case['deformation']
    k = {'cls': case['cls'], 'size': case['size'], 'n': case['n'],
         'deformation': d[0] if d else None,
         'axis': (d[1].get('deformation_axis') if d else None),
         'p': case['p'] if 'p' in case else P_LIST[case['pi']], 'synthetic': case['cls'] == SYNTH}
    if case.get('grid') == 'tiny':
        k['grid'] = 'tiny'
    if ri is not None:
        k['r'] = tiny_r_key(ri) if case.get('grid') == 'tiny' else r_key(ri)
    return k


# ---------------------------------------------------------------- part: sample

def eval_sample(case):
    from panqec.error_models import PauliErrorModel
    res = {'evals': 0, 'nontrivial': 0, 'violations': [], 'samples': [], 'outcomes': [], 'skipped': 0,
           'extra': {'probes': 0, 'generate_calls': 0, 'deviation_scripts': 0, 'zero_prob_outcome_probes': 0,
                     'violations_total': 0, 'default_rng_runs': 0, 'full_product_runs': 0}}
    code = build_code(case['cls'], case['size'])
    n = code.n
    p = P_LIST[case['pi']]
    d = case['deformation']
    dirs = directions()
    nontrivial = set()
    outcomes = set()
    worst = 0.0

    def viol(kind, ri, detail, **more):
        res['extra']['violations_total'] += 1
        if sum(1 for v in res['violations'] if v['key']['kind'] == kind) < 2 and len(res['violations']) < 6:
            k = base_key(case, ri)
            k['kind'] = kind
            k.update(more)
            res['violations'].append({'key': k, 'detail': detail})

    for ri, r in enumerate(dirs):
        em = PauliErrorModel(r[0], r[1], r[2], deformation_name=(d[0] if d else None),
                             deformation_kwargs=(dict(d[1]) if d else None))
        rows, tables = reference_rows(code, p, r, d)
        ref = np.array(rows)                                   # (n, 4)
        # ---- (1) distribution
        dist = em.probability_distribution(code, p)
        res['evals'] += 1
        try:
            got = np.array([np.asarray(a, dtype=float) for a in dist]).T       # (n, 4)
            shape_ok = len(dist) == 4 and got.shape == (n, 4)
        except Exception:
            shape_ok = False
        if not shape_ok:
            viol('distribution_shape', ri, {'len': len(dist)})
            continue
        err = np.abs(got - ref)
        if err.max() > TOL:
            i, s = np.unravel_index(int(err.argmax()), err.shape)
            viol('distribution', ri, {'qubit': int(i), 'pauli': PAULIS[s], 'got': got[i].tolist(),
                                      'expected': ref[i].tolist(), 'table': tables[i]}, pauli=PAULIS[s],
                 deformed_qubit=bool(tables[i] != {'X': 'X', 'Y': 'Y', 'Z': 'Z'}))
        if got.min() < 0:
            viol('distribution_negative', ri, {'min': float(got.min())})
        if np.abs(got.sum(axis=1) - 1).max() > TOL:
            viol('distribution_sum', ri, {'worst': float(np.abs(got.sum(axis=1) - 1).max())})

        # ---- (2) sampling: measure probes, all qubits probed simultaneously with the same variate
        pts, mids = probe_points(rows[0], case['grid_log2'])
        K = len(pts)
        run = _Run(em, code, p)
        raw = run.many([[x] * n for x in pts])
        res['extra']['probes'] += K
        if run.bad_consumed is not None:
            viol('variates_consumed', ri, run.bad_consumed)
            continue
        if run.bad_format is not None:
            viol('output_format', ri, run.bad_format)
            continue
        out = decode_bsf(raw, n)                               # (K, n)
        P = np.array(pts)
        gaps = np.diff(P)
        same = out[:-1] == out[1:]
        unresolved = (gaps[:, None] * (~same)).sum(axis=0)     # per qubit
        meas = np.zeros((n, 4))
        for o in range(4):
            m = same & (out[:-1] == o)
            meas[:, o] = (gaps[:, None] * m).sum(axis=0) + (1.0 - P[-1]) * (out[-1] == o)
        merr = np.abs(meas - ref).max(axis=1) + unresolved
        worst = max(worst, float(merr.max()))
        if merr.max() > TOL:
            i = int(merr.argmax())
            viol('measure', ri, {'qubit': i, 'measure': meas[i].tolist(), 'expected': ref[i].tolist(),
                                 'unresolved': float(unresolved[i])},
                 deformed_qubit=bool(tables[i] != {'X': 'X', 'Y': 'Y', 'Z': 'Z'}))
        far = (~same) & (gaps[:, None] > 1e-15)
        if far.any():
            k, i = np.argwhere(far)[0]
            viol('switch_far_from_subset_sum', ri, {'qubit': int(i), 'between': [pts[k], pts[k + 1]],
                                                    'outcomes': [PAULIS[out[k, i]], PAULIS[out[k + 1, i]]]})
        zero_prob_seen = int(((ref[None, :, :] == 0)[0][np.arange(n)[None, :], out]).sum())
        res['extra']['zero_prob_outcome_probes'] += zero_prob_seen
        weights = (out != 0).sum(axis=1)
        if p == 0.0 and weights.any():
            viol('p0_error', ri, {'variate': pts[int(np.argmax(weights > 0))]})
        if p == 1.0 and (weights != n).any():
            viol('p1_weight', ri, {'variate': pts[int(np.argmax(weights != n))],
                                   'weight': int(weights[int(np.argmax(weights != n))]), 'n': n})

        # ---- independence: per-qubit class representatives from the measured maps
        interior = np.zeros((K, n), dtype=bool)
        interior[1:-1] = same[:-1] & same[1:]
        reps = []                                              # reps[i] = {outcome: probe index}
        for i in range(n):
            ri_map = {}
            for o in range(4):
                cand = np.flatnonzero(interior[:, i] & (out[:, i] == o))
                cand = [k for k in cand if pts[k] in mids] or list(cand)
                if len(cand):
                    ri_map[o] = int(cand[len(cand) // 2])
            reps.append(ri_map)
        if any(not m for m in reps):
            viol('no_stable_class', ri, {'qubit': [i for i, m in enumerate(reps) if not m][0]})
            continue
        base_cls = [0 if 0 in m else min(m) for m in reps]

        def script_of(classes):
            return [pts[reps[i][c]] for i, c in enumerate(classes)]

        combos = []
        mode = case['pairs']
        if mode == 'all' and 4 ** n <= 256:
            combos = [list(c) for c in itertools.product(*[sorted(m) for m in reps])]
            res['extra']['full_product_runs'] += 1
        else:
            combos.append(list(base_cls))
            for i in range(n):
                for o in sorted(reps[i]):
                    if o != base_cls[i]:
                        c = list(base_cls)
                        c[i] = o
                        combos.append(c)
            do_pairs = mode == 'all' or ri in PAIR_DIRS
            if do_pairs:
                if mode == 'adjacent_two_dirs':
                    pr = [(i, i + 1) for i in range(n - 1)] + [(0, n - 1)]
                else:
                    pr = list(itertools.combinations(range(n), 2))
                for i, j in pr:
                    for oi in sorted(reps[i]):
                        if oi == base_cls[i]:
                            continue
                        for oj in sorted(reps[j]):
                            if oj == base_cls[j]:
                                continue
                            c = list(base_cls)
                            c[i], c[j] = oi, oj
                            combos.append(c)
        raw2 = run.many([script_of(c) for c in combos])
        res['extra']['deviation_scripts'] += len(combos)
        if run.bad_format is not None:
            viol('output_format', ri, run.bad_format)
            continue
        got2 = decode_bsf(raw2, n)
        exp2 = np.array(combos)
        if (got2 != exp2).any():
            k = int(np.argmax((got2 != exp2).any(axis=1)))
            viol('independence', ri, {'classes': ''.join(PAULIS[c] for c in combos[k]),
                                      'got': ''.join(PAULIS[c] for c in got2[k]),
                                      'script': script_of(combos[k])},
                 deviations=int(sum(1 for a, b in zip(combos[k], base_cls) if a != b)))
        w2 = (got2 != 0).sum(axis=1)
        if p == 0.0 and w2.any():
            viol('p0_error', ri, {'script': script_of(combos[int(np.argmax(w2 > 0))])})
        if p == 1.0 and (w2 != n).any():
            viol('p1_weight', ri, {'script': script_of(combos[int(np.argmax(w2 != n))])})

        # ---- rng=None must draw from numpy.random.default_rng()
        made = []
        saved = np.random.default_rng

        def fake_default_rng(*a, **k):
            g = ScriptedRNG(script_of(base_cls))
            made.append((g, a, k))
            return g
        np.random.default_rng = fake_default_rng
        try:
            try:
                e = em.generate(code, p)
                exc = None
            except Exception as ex:           # "must not crash"
                e, exc = None, '%s: %s' % (type(ex).__name__, str(ex)[:100])
        finally:
            np.random.default_rng = saved
        run.calls += 1
        res['extra']['default_rng_runs'] += 1
        if exc:
            viol('default_rng', ri, {'raises': exc})
        elif len(made) != 1 or made[0][0].pos != n or made[0][0].other_calls:
            viol('default_rng', ri, {'default_rng_calls': len(made),
                                     'consumed': [g.pos for g, _, _ in made], 'n': n})
        else:
            e = np.asarray(e)
            if e.shape != (2 * n,) or (decode_bsf(e.reshape(1, -1), n)[0] != np.array(base_cls)).any():
                viol('default_rng', ri, {'got': np.asarray(e).tolist()[:40], 'expected_classes': base_cls})
        if run.bad_consumed is not None:
            viol('variates_consumed', ri, run.bad_consumed)
        res['extra']['generate_calls'] += run.calls
        res['evals'] += run.calls

        positive = sum(1 for v in rows[0] if v > 0)
        if 0 < p < 1 and positive >= 2:
            nontrivial.add(digest(case['cls'], case['size'], d, p, ri))
        # outcome digest: order of outcomes met on the probe line for qubit 0 and a permuted qubit
        seq = ''.join(PAULIS[o] for o, _ in itertools.groupby(out[:, 0].tolist()))
        outcomes.add('%s|%s|%d' % (seq, ''.join(PAULIS[o] for o, _ in itertools.groupby(out[:, n - 1].tolist())),
                                   len(combos)))
        if ri in (17, 66) and len(res['samples']) < 2:
            res['samples'].append({'cls': case['cls'], 'deformation': d, 'p': p, 'r': r_key(ri), 'probes': K,
                                   'qubit0_row': list(rows[0]), 'qubit0_measure': meas[0].tolist(),
                                   'qubit0_sequence': seq, 'deviation_scripts': len(combos),
                                   'worst_measure_error_so_far': worst})
    res['nontrivial'] = len(nontrivial)
    res['outcomes'] = sorted(outcomes)[:50]
    return res


# ---------------------------------------------------------------- part: priors

def llr_ref(q, eps=1e-20):
    return math.log((1 - q + eps) / (q + eps))


def marginals(rows):
    qx = [r[1] + r[2] for r in rows]
    qz = [r[3] + r[2] for r in rows]
    return qx, qz


def conditional(row, target, bit):
    """P(target-flip on the qubit | the other flip == bit) from the channel definition.
    Outcomes as (xflip, zflip): I=(0,0) X=(1,0) Z=(0,1) Y=(1,1).  None when undefined."""
    pi, px, py, pz = row
    joint = {(0, 0): pi, (1, 0): px, (0, 1): pz, (1, 1): py}
    if target == 'x':
        num = joint[(1, bit)]
        den = joint[(0, bit)] + joint[(1, bit)]
    else:
        num = joint[(bit, 1)]
        den = joint[(bit, 0)] + joint[(bit, 1)]
    if den <= 0:
        return None
    return num / den


def classify_pcm(pcm, code):
    """Which single-qubit flip does column j of the matrix handed to a third-party decoder stand for?
    Returns the set of possible answers.  Decided from the code's stabilizer matrix by plain comparison: a matrix equal to the Z parts of
    the pure-Z checks detects X flips ('x'), the X parts of pure-X checks detect Z flips ('z'),
    the full [X|Z] matrix with plain (non-symplectic) product: first n columns meet Z flips,
    last n columns X flips ('zx')."""
    n = code.n
    M = np.asarray(pcm.toarray() if hasattr(pcm, 'toarray') else pcm) % 2
    H = np.asarray(code.stabilizer_matrix.toarray()) % 2
    if M.shape[1] == 2 * n:
        return {'zx'} if M.shape == H.shape and (M == H).all() else set()
    if M.shape[1] != n:
        return set()
    HX, HZ = H[:, :n], H[:, n:]
    pure_z = [tuple(HZ[i]) for i in range(H.shape[0]) if not HX[i].any()]
    pure_x = [tuple(HX[i]) for i in range(H.shape[0]) if not HZ[i].any()]
    rows = [tuple(r) for r in M]
    out = set()
    if rows == pure_z:
        out.add('x')
    if rows == pure_x:
        out.add('z')
    return out          # both when Hx and Hz are the same matrix (e.g. RotatedToric3DCode(2,2,1))


def role_assignments(cands):
    """All ways to give the two recorded third-party objects the distinct roles 'x' and 'z'."""
    if len(cands) != 2:
        return []
    return [(a, b) for a in sorted(cands[0]) for b in sorted(cands[1]) if {a, b} == {'x', 'z'}]


def eval_priors(case):
    from panqec.error_models import PauliErrorModel
    from panqec.decoders import BeliefPropagationOSDDecoder, MatchingDecoder
    import panqec.decoders.belief_propagation.bposd_decoder as bpmod
    import panqec.decoders.matching._matching_decoder as mmod
    res = {'evals': 0, 'nontrivial': 0, 'violations': [], 'samples': [], 'outcomes': [], 'skipped': 0,
           'extra': {'weights_compared': 0, 'matching_decoders': 0, 'matching_edges': 0, 'bposd_decoders': 0,
                     'bposd_decodes': 0, 'bposd_updates_seen': 0, 'bposd_noncss': 0, 'update_prob_entries': 0,
                     'cond_undefined': 0, 'cond_undefined_nan_handed': 0, 'violations_total': 0}}
    cls, size, d = case['cls'], case['size'], case['deformation']
    tiny = case.get('grid') == 'tiny'
    p = case['p'] if tiny else P_LIST[case['pi']]
    dirs = tiny_directions() if tiny else directions()
    code = build_code(cls, size)
    n = code.n
    code_def = None
    if d is not None and cls != SYNTH:
        code_def = build_code(cls, size)
        code_def.deform(d[0], **d[1])
    nontrivial = set()
    outcomes = set()

    def viol(kind, ri, detail, **more):
        res['extra']['violations_total'] += 1
        if sum(1 for v in res['violations'] if v['key']['kind'] == kind) < 2 and len(res['violations']) < 6:
            k = base_key(case, ri)
            k['kind'] = kind
            k.update(more)
            res['violations'].append({'key': k, 'detail': detail})

    def close(a, b, rel=1e-9):
        return abs(a - b) <= rel * max(1.0, abs(b))

    def relclose(a, b, rel=1e-9):
        """probabilities are compared in relative terms: a reference of 0.5 (or 1e-13) with a result of 0 fails"""
        return bool(np.all(np.isfinite(a)) and np.all(np.abs(np.asarray(a) - np.asarray(b)) <= rel * np.abs(b)))

    # ---- spies
    real_bp = bpmod.BpOsdDecoder
    real_match = mmod.Matching
    bp_log = []
    match_log = []
    tick = [0]

    class SpyBp:
        def __init__(self, pcm, *a, **k):
            self._pcm = pcm
            self._real = real_bp(pcm, *a, **k)
            self._events = []
            bp_log.append(self)

        def update_channel_probs(self, probs):
            self._events.append(('update', np.array(probs, dtype=float, copy=True)))
            return self._real.update_channel_probs(probs)

        def decode(self, syndrome):
            prior = np.array(self._real.channel_probs, dtype=float, copy=True)
            out = self._real.decode(syndrome)
            tick[0] += 1
            # the correction panqec goes on to use is either the return value or .osdw_decoding
            corrs = [np.array(out, copy=True), np.array(self._real.osdw_decoding, copy=True)]
            self._events.append(('decode', prior, corrs, tick[0]))
            return out

        def __getattr__(self, name):
            return getattr(self._real, name)

    def spy_matching(H, *a, **k):
        m = real_match(H, *a, **k)
        match_log.append((H, k.get('spacelike_weights', a[0] if a else None), m))
        return m

    bp_dirs = range(len(dirs)) if case['bp_dirs'] == 'all' else BP_DIRS_BIG
    # syndromes: zero, and those of single-qubit Y errors (own symplectic product on the stabilizer matrix)
    def syndromes_for(c):
        H = np.asarray(c.stabilizer_matrix.toarray()) % 2
        nn = c.n
        out = [np.zeros(H.shape[0], dtype=int)]
        for q in sorted({0, nn // 2, nn - 1}):
            out.append(((H[:, q] + H[:, nn + q]) % 2).astype(int))     # Y_q anticommutes with X or Z (not both)
        return out

    bpmod.BpOsdDecoder = SpyBp
    mmod.Matching = spy_matching
    try:
        for ri, r in enumerate(dirs):
            em = PauliErrorModel(r[0], r[1], r[2], deformation_name=(d[0] if d else None),
                                 deformation_kwargs=(dict(d[1]) if d else None))
            rows, tables = reference_rows(code, p, r, d)
            qx, qz = marginals(rows)
            # ---- get_weights
            wx, wz = em.get_weights(code, p)
            res['evals'] += 1
            wx = np.asarray(wx, dtype=float)
            wz = np.asarray(wz, dtype=float)
            for name, w, q in (('x', wx, qx), ('z', wz, qz)):
                if w.shape != (n,):
                    viol('weights', ri, {'shape': list(w.shape)}, which=name)
                    continue
                for i in range(n):
                    res['extra']['weights_compared'] += 1
                    exp = llr_ref(q[i])
                    ok = math.isfinite(w[i]) and close(w[i], exp)
                    if ok and 1e-9 < q[i] < 1 - 1e-9:
                        ok = close(w[i], math.log((1 - q[i]) / q[i]))
                    if not ok:
                        viol('weights', ri, {'qubit': i, 'got': float(w[i]), 'expected': exp, 'q': q[i]},
                             which=name)
                        break
            # ---- matching decoder
            if cls in MATCHING_CLASSES:
                del match_log[:]
                dec = MatchingDecoder(code, em, p)
                res['evals'] += 1
                res['extra']['matching_decoders'] += 1
                cands = [classify_pcm(H, code) for H, w, m in match_log]
                assigns = role_assignments(cands)
                if not assigns:
                    viol('matching_prior', ri, {'problem': 'matrices handed to pymatching are not {Hz, Hx}',
                                                'candidates': [sorted(k) for k in cands]})
                best = None
                for assign in assigns:
                    probs_found = []
                    for kind, (H, w, m) in zip(assign, match_log):
                        q = qx if kind == 'x' else qz
                        exp = [llr_ref(v) for v in q]
                        w = np.asarray(w, dtype=float)
                        on = 'Hz' if kind == 'x' else 'Hx'
                        if w.shape != (n,) or not all(close(w[i], exp[i]) for i in range(n)):
                            probs_found.append(({'matcher_on': on, 'got': w.tolist()[:8], 'expected': exp[:8]},
                                                {'matcher_on': on, 'via': 'constructor'}))
                        ids = set()
                        bad = None
                        for u, v, attr in m.edges():
                            f = sorted(attr['fault_ids'])
                            res['extra']['matching_edges'] += 1
                            ids.update(f)
                            if len(f) != 1 or not close(attr['weight'], exp[f[0]]):
                                bad = bad or {'edge': [u, v], 'fault_ids': f, 'weight': attr['weight'],
                                              'expected': exp[f[0]] if len(f) == 1 else None}
                        # pymatching merges parallel edges, so not every fault id survives as an edge
                        if bad or not ids:
                            probs_found.append((bad or {'problem': 'matcher has no edges'},
                                                {'matcher_on': on, 'via': 'edges'}))
                    if best is None or len(probs_found) < len(best):
                        best = probs_found
                for detail, more in (best or []):
                    viol('matching_prior', ri, detail, **more)
                if getattr(dec, 'matcher_x', None) is None or getattr(dec, 'matcher_z', None) is None:
                    viol('matching_prior', ri, {'problem': 'matcher_x / matcher_z missing'})

            # ---- update_probabilities for every (correction bit, qubit), both directions
            dist = em.probability_distribution(code, p)
            px, py, pz = (np.asarray(dist[1], dtype=float), np.asarray(dist[2], dtype=float),
                          np.asarray(dist[3], dtype=float))
            bp = BeliefPropagationOSDDecoder(code, em, p, max_bp_iter=4, osd_order=0)
            patterns = [np.zeros(n, dtype=int), np.ones(n, dtype=int),
                        np.arange(n) % 2, (np.arange(n) + 1) % 2]
            for direction, target in (('z->x', 'x'), ('x->z', 'z')):
                for corr in patterns:
                    with np.errstate(all='ignore'):
                        new = np.asarray(bp.update_probabilities(corr, px, py, pz, direction=direction), dtype=float)
                    res['evals'] += 1
                    if new.shape != (n,):
                        viol('update_probabilities', ri, {'shape': list(new.shape)}, direction=direction)
                        continue
                    for i in range(n):
                        res['extra']['update_prob_entries'] += 1
                        exp = conditional(rows[i], target, int(corr[i]))
                        if exp is None:
                            res['extra']['cond_undefined'] += 1
                            continue
                        if not relclose(new[i], exp):
                            viol('update_probabilities', ri,
                                 {'qubit': i, 'row': list(rows[i]), 'got': float(new[i]), 'expected': exp},
                                 direction=direction, bit=int(corr[i]))
                            break

            # ---- BP-OSD priors as seen by ldpc
            if ri in bp_dirs:
                objs = [('css', code)]
                if code_def is not None:
                    objs.append(('deformed', code_def))
                for label, c in objs:
                    rows_c, _ = reference_rows(c, p, r, d)       # same tables: get_deformation is geometric
                    qx_c, qz_c = marginals(rows_c)
                    syns = syndromes_for(c)
                    for cu in (False, True):
                        del bp_log[:]
                        dec = BeliefPropagationOSDDecoder(c, em, p, max_bp_iter=4, channel_update=cu, osd_order=0)
                        res['extra']['bposd_decoders'] += 1
                        for syn in syns:
                            for s in bp_log:
                                del s._events[:]
                            with np.errstate(all='ignore'):
                                dec.decode(syn)
                            res['evals'] += 1
                            res['extra']['bposd_decodes'] += 1
                            res['extra']['bposd_updates_seen'] += sum(
                                1 for s in bp_log for e in s._events if e[0] == 'update')
                            cands = [classify_pcm(s._pcm, c) for s in bp_log]
                            dec_events = [[e for e in s._events if e[0] == 'decode'] for s in bp_log]
                            if len(bp_log) == 1 and cands[0] == {'zx'}:
                                res['extra']['bposd_noncss'] += 1
                                exp = np.array(qz_c + qx_c)
                                ev = dec_events[0]
                                if len(ev) != 1 or ev[0][1].shape != exp.shape or \
                                        not relclose(ev[0][1], exp):
                                    viol('bposd_prior', ri, {'got': ev[0][1].tolist()[:2 * c.n] if ev else None,
                                                             'expected': exp.tolist()[:2 * c.n]},
                                         obj=label, css=False, channel_update=cu)
                                outcomes.add('zx|%s' % digest(np.round(exp, 12).tolist())[:6])
                                continue
                            assigns = role_assignments(cands)
                            if not assigns or any(len(ev) != 1 for ev in dec_events):
                                viol('bposd_prior', ri, {'problem': 'matrices handed to BpOsdDecoder are not '
                                                                    '{Hz, Hx} / the full matrix, or not one '
                                                                    'decode each',
                                                         'candidates': [sorted(k) for k in cands],
                                                         'decodes': [len(ev) for ev in dec_events]}, obj=label)
                                continue
                            marg = {'x': np.array(qx_c), 'z': np.array(qz_c)}
                            best = None
                            for assign in assigns:
                                found = []
                                ev = {k: dec_events[j][0] for j, k in enumerate(assign)}
                                # order of the two decodes (global tick): the first uses the marginal, the second
                                # the marginal (no channel update) or the conditional on the first's correction
                                first = 'z' if ev['z'][3] < ev['x'][3] else 'x'
                                second = 'x' if first == 'z' else 'z'
                                e1, e2 = ev[first], ev[second]
                                if e1[1].shape != (c.n,) or not relclose(e1[1], marg[first]):
                                    found.append(('bposd_prior',
                                                  {'decoder_on': 'Hz' if first == 'x' else 'Hx',
                                                   'got': e1[1].tolist()[:8], 'expected': marg[first].tolist()[:8]},
                                                  {'stage': 'first', 'decoder_on': 'Hz' if first == 'x' else 'Hx'}))
                                bad = None
                                undefined = nan_handed = 0
                                for first_corr in (e1[2] if cu else e1[2][:1]):
                                    bad = None
                                    undefined = nan_handed = 0
                                    for i in range(c.n):
                                        if e2[1].shape != (c.n,) or first_corr.shape != (c.n,):
                                            bad = {'shape': list(e2[1].shape), 'correction': list(first_corr.shape)}
                                            break
                                        if cu:
                                            exp = conditional(rows_c[i], second, int(first_corr[i]))
                                            if exp is None:
                                                undefined += 1
                                                nan_handed += int(not math.isfinite(e2[1][i]))
                                                continue
                                        else:
                                            exp = marg[second][i]
                                        if not relclose(e2[1][i], exp):
                                            bad = bad or {'qubit': i, 'got': float(e2[1][i]), 'expected': float(exp),
                                                          'first_correction_bit': int(first_corr[i]),
                                                          'row': list(rows_c[i])}
                                    if not bad:
                                        break
                                if bad:
                                    found.append(('bposd_update' if cu else 'bposd_prior', bad,
                                                  {'stage': 'second', 'decoder_on': 'Hz' if second == 'x' else 'Hx'}))
                                tag = '%s>%s|cu%d|%s' % (first, second, cu, digest(np.round(e2[1], 9).tolist())[:6])
                                if best is None or len(found) < len(best[0]):
                                    best = (found, undefined, nan_handed, tag)
                            res['extra']['cond_undefined'] += best[1]
                            res['extra']['cond_undefined_nan_handed'] += best[2]
                            outcomes.add(best[3])
                            for kind, detail, more in best[0]:
                                viol(kind, ri, detail, obj=label, css=True, channel_update=cu, **more)
            if any(abs(a - b) > 1e-12 for a, b in zip(qx, qz)) or len(set(qx)) > 1:
                nontrivial.add(digest(cls, size, d, p, ri))
            if ri == min(17, len(dirs) - 1) and not res['samples']:
                res['samples'].append({'cls': cls, 'deformation': d, 'p': p,
                                       'r': tiny_r_key(ri) if tiny else r_key(ri),
                                       'q_x': qx[:4], 'q_z': qz[:4], 'weights_x': wx[:4].tolist(),
                                       'weights_z': wz[:4].tolist()})
    finally:
        bpmod.BpOsdDecoder = real_bp
        mmod.Matching = real_match
    res['nontrivial'] = len(nontrivial)
    res['outcomes'] = sorted(outcomes)[:50]
    return res


# ---------------------------------------------------------------- part: session

def measure_error(em, code, p, rows, grid_log2):
    """max over qubits of |preimage measure - reference probability| + unresolved length, and the
    per-call contract problems, for generate() probed with the script [x]*n."""
    n = code.n
    pts, _ = probe_points(rows[0], grid_log2)
    run = _Run(em, code, p)
    raw = run.many([[x] * n for x in pts])
    if run.bad_consumed is not None or run.bad_format is not None:
        return None, len(pts), {'consumed': run.bad_consumed, 'format': run.bad_format}
    out = decode_bsf(raw, n)
    P = np.array(pts)
    gaps = np.diff(P)
    same = out[:-1] == out[1:]
    unresolved = (gaps[:, None] * (~same)).sum(axis=0)
    meas = np.zeros((n, 4))
    for o in range(4):
        meas[:, o] = (gaps[:, None] * (same & (out[:-1] == o))).sum(axis=0) + (1.0 - P[-1]) * (out[-1] == o)
    merr = np.abs(meas - np.array(rows)).max(axis=1) + unresolved
    i = int(merr.argmax())
    weights = (out != 0).sum(axis=1)
    return float(merr[i]), len(pts), {'qubit': i, 'measure': meas[i].tolist(), 'expected': list(rows[i]),
                                      'min_weight': int(weights.min()), 'max_weight': int(weights.max())}


def eval_session(case):
    from panqec.error_models import PauliErrorModel
    res = {'evals': 0, 'nontrivial': 0, 'violations': [], 'samples': [], 'outcomes': [], 'skipped': 0,
           'extra': {'session_models': 0, 'session_probes': 0, 'violations_total': 0}}
    cls, size = case['cls'], case['size']
    p = P_LIST[case['pi']]
    configs = deformation_configs(cls)
    seq = [(d, ri) for d in configs for ri in range(len(SESSION_DIRS))]
    nontrivial = set()
    outcomes = set()

    def viol(kind, order, pos, d, ri, detail, **more):
        res['extra']['violations_total'] += 1
        flags = (kind, more.get('earlier_same_name_other_kwargs'), more.get('earlier_direction_equal_to_4_decimals'))
        shown = sum(1 for v in res['violations']
                    if (v['key']['kind'], v['key'].get('earlier_same_name_other_kwargs'),
                        v['key'].get('earlier_direction_equal_to_4_decimals')) == flags)
        if shown < 1 and len(res['violations']) < 8:      # one example per (kind, history attributes)
            k = base_key(dict(case, deformation=d))
            k.update({'kind': kind, 'part': 'session', 'order': order, 'position': pos,
                      'r': [round(v, 5) for v in SESSION_DIRS[ri]]})
            k.update(more)
            res['violations'].append({'key': k, 'detail': detail})

    for order, models in (('forward', seq), ('reversed', seq[::-1])):
        code = build_code(cls, size)          # ONE code object and ONE error rate for the whole sequence
        n = code.n
        earlier = []                          # (d, ri, rows) of the models already evaluated on this object
        for pos, (d, ri) in enumerate(models):
            r = SESSION_DIRS[ri]
            em = PauliErrorModel(r[0], r[1], r[2], deformation_name=(d[0] if d else None),
                                 deformation_kwargs=(dict(d[1]) if d else None))
            rows, tables = reference_rows(code, p, r, d)
            ref = np.array(rows)
            # descriptive attributes of the history, for narrow scoping of a finding
            differs = [e for e in earlier if np.abs(np.array(e[2]) - ref).max() > 1e-9]
            hist = {'earlier_same_name_other_kwargs': any(
                        e[0] and d and e[0][0] == d[0] and e[0][1] != d[1] for e in differs),
                    'earlier_direction_equal_to_4_decimals': any(
                        e[1] != ri and e[0] == d and all(round(a, 4) == round(b, 4)
                                                         for a, b in zip(SESSION_DIRS[e[1]], r))
                        for e in differs)}
            res['extra']['session_models'] += 1
            dist = em.probability_distribution(code, p)
            res['evals'] += 1
            got = np.array([np.asarray(a, dtype=float) for a in dist]).T
            if got.shape != (n, 4):
                viol('distribution_shape', order, pos, d, ri, {'shape': list(got.shape)}, **hist)
            else:
                err = np.abs(got - ref)
                if err.max() > TOL or got.min() < 0 or np.abs(got.sum(axis=1) - 1).max() > TOL:
                    i = int(np.unravel_index(int(err.argmax()), err.shape)[0])
                    viol('distribution', order, pos, d, ri,
                         {'qubit': i, 'got': got[i].tolist(), 'expected': ref[i].tolist(), 'table': tables[i],
                          'models_before': [[e[0], list(SESSION_DIRS[e[1]])] for e in earlier][-4:]}, **hist)
            qx, qz = marginals(rows)
            wx, wz = em.get_weights(code, p)
            res['evals'] += 1
            for name, w, q in (('x', np.asarray(wx, dtype=float), qx), ('z', np.asarray(wz, dtype=float), qz)):
                exp = [llr_ref(v) for v in q]
                if w.shape != (n,) or not all(math.isfinite(w[i]) and abs(w[i] - exp[i]) <= 1e-9 * max(1.0, abs(exp[i]))
                                              for i in range(n)):
                    viol('weights', order, pos, d, ri, {'got': w.tolist()[:8], 'expected': exp[:8]},
                         which=name, **hist)
            merr, k, info = measure_error(em, code, p, rows, case['grid_log2'])
            res['evals'] += k
            res['extra']['session_probes'] += k
            if merr is None:
                viol('variates_consumed' if info['consumed'] else 'output_format', order, pos, d, ri, info, **hist)
            else:
                if merr > TOL:
                    viol('measure', order, pos, d, ri, info, **hist)
                if p == 1.0 and info['min_weight'] != n:
                    viol('p1_weight', order, pos, d, ri, info, **hist)
            if differs:
                nontrivial.add(digest(cls, size, p, order, pos))
            outcomes.add(digest(np.round(got, 9).tolist())[:8])
            earlier.append((d, ri, rows))
        if not res['samples']:
            res['samples'].append({'cls': cls, 'p': p, 'order': order,
                                   'sequence': [[d, list(SESSION_DIRS[ri])] for d, ri in models][:6]})
    res['nontrivial'] = len(nontrivial)
    res['outcomes'] = sorted(outcomes)[:50]
    return res


# ---------------------------------------------------------------- part: xcube plane matchers

def eval_xcube(case):
    from panqec.error_models import PauliErrorModel
    from panqec.decoders import XCubeMatchingDecoder
    import panqec.decoders.matching._matching_decoder as mmod
    res = {'evals': 0, 'nontrivial': 0, 'violations': [], 'samples': [], 'outcomes': [], 'skipped': 0,
           'extra': {'xcube_decoders': 0, 'xcube_matchers': 0, 'xcube_weights_compared': 0, 'xcube_edges': 0,
                     'xcube_offdomain_mismatch': 0, 'violations_total': 0}}
    cls, size, d = case['cls'], case['size'], case['deformation']
    code = build_code(cls, size)
    index3d = {tuple(loc): i for i, loc in enumerate(code.qubit_coordinates)}
    # The decoder's source documents its domain ("Only works for ... z-axis deformation"): noise deformed along
    # x or y is executed on a reduced grid and mismatches are only counted (extra.xcube_offdomain_mismatch).
    in_domain = d is None or d[1].get('deformation_axis', 'z') == 'z'
    if in_domain:
        grids = [('grid', p, ri, r) for p in P_LIST for ri, r in enumerate(directions())]
        if case.get('tiny', True):
            grids += [('tiny', p, ri, r) for p in TINY_P for ri, r in enumerate(tiny_directions())]
    else:
        grids = [('grid', 0.1, ri, r) for ri, r in enumerate(directions())]
    nontrivial = set()
    outcomes = set()
    real_match = mmod.Matching
    match_log = []

    def spy_matching(H, *a, **k):
        m = real_match(H, *a, **k)
        match_log.append((H, k.get('spacelike_weights', a[0] if a else None), m))
        return m

    def viol(kind, grid, p, ri, detail, **more):
        if not in_domain:
            res['extra']['xcube_offdomain_mismatch'] += 1
            return
        res['extra']['violations_total'] += 1
        flags = (kind, more.get('plane'), more.get('edge_3d_axis'))
        shown = sum(1 for v in res['violations']
                    if (v['key']['kind'], v['key'].get('plane'), v['key'].get('edge_3d_axis')) == flags)
        if shown < 1 and len(res['violations']) < 8:
            k = base_key(dict(case, p=p, grid=grid), ri)
            k['kind'] = kind
            k['part'] = 'xcube'
            k.update(more)
            res['violations'].append({'key': k, 'detail': detail})

    def close(a, b, rel=1e-9):
        return math.isfinite(a) and abs(a - b) <= rel * max(1.0, abs(b))

    mmod.Matching = spy_matching
    try:
        for grid, p, ri, r in grids:
            em = PauliErrorModel(r[0], r[1], r[2], deformation_name=(d[0] if d else None),
                                 deformation_kwargs=(dict(d[1]) if d else None))
            rows, tables = reference_rows(code, p, r, d)
            qx, _ = marginals(rows)
            llr3d = [llr_ref(v) for v in qx]
            del match_log[:]
            dec = XCubeMatchingDecoder(code, em, p)
            res['evals'] += 1
            res['extra']['xcube_decoders'] += 1
            planes = getattr(dec, 'matching_decoder', None)
            tcodes = getattr(dec, 'toric_code', None)
            if not isinstance(planes, dict) or not isinstance(tcodes, dict) or set(planes) != {'x', 'y', 'z'}:
                viol('xcube_prior', grid, p, ri, {'problem': 'no per-plane matching decoders to observe'})
                continue
            for k, axis in enumerate('xyz'):
                t2 = tcodes[axis]
                # 2-D edge (a, b) of the planes orthogonal to `axis` stands for the 3-D edges insert((a, b), k, e),
                # e even: the edges of that orientation lying in the lattice planes next to the dual plane
                exp = []
                ax3 = []
                ok = True
                for loc in t2.qubit_coordinates:
                    idx = []
                    for e in range(0, 2 * size[k], 2):
                        l3 = list(loc)
                        l3.insert(k, e)
                        if tuple(l3) not in index3d:
                            ok = False
                            break
                        idx.append(index3d[tuple(l3)])
                    if not ok:
                        break
                    exp.append([llr3d[i] for i in idx])
                    l3 = list(loc)
                    l3.insert(k, 0)
                    ax3.append('xyz'[[c % 2 for c in l3].index(1)])
                if not ok:
                    viol('xcube_prior', grid, p, ri, {'problem': '2-D plane code does not embed in the 3-D lattice',
                                                      'plane_size': list(t2.size)}, plane=axis)
                    continue
                mine = [(H, w, m) for H, w, m in match_log
                        if any(m is getattr(planes[axis], a, None) for a in ('matcher_x', 'matcher_z'))]
                if len(mine) != 2:
                    viol('xcube_prior', grid, p, ri, {'problem': 'plane matchers not built through pymatching',
                                                      'found': len(mine)}, plane=axis)
                    continue
                for H, w, m in mine:
                    res['extra']['xcube_matchers'] += 1
                    w = np.asarray(w, dtype=float)
                    if w.shape != (t2.n,):
                        viol('xcube_prior', grid, p, ri, {'shape': list(w.shape)}, plane=axis)
                        continue
                    for j in range(t2.n):
                        res['extra']['xcube_weights_compared'] += 1
                        if not all(close(w[j], v) for v in exp[j]):
                            viol('xcube_prior', grid, p, ri,
                                 {'qubit_2d': list(t2.qubit_coordinates[j]), 'got': float(w[j]),
                                  'expected_x_flip_llr_of_3d_edges': exp[j][:3], 'via': 'constructor'},
                                 plane=axis, edge_3d_axis=ax3[j])
                    for u, v, attr in m.edges():
                        f = sorted(attr['fault_ids'])
                        res['extra']['xcube_edges'] += 1
                        if len(f) != 1 or not all(close(attr['weight'], x) for x in exp[f[0]]):
                            viol('xcube_prior', grid, p, ri,
                                 {'edge': [u, v], 'fault_ids': f, 'got': attr['weight'],
                                  'expected_x_flip_llr_of_3d_edges': exp[f[0]][:3] if len(f) == 1 else None,
                                  'via': 'edges'},
                                 plane=axis, edge_3d_axis=ax3[f[0]] if len(f) == 1 else None)
            distinct = sorted({round(v, 9) for v in llr3d})
            if len(distinct) > 1:          # the 3-D qubits do not all carry the same weight
                nontrivial.add(digest(size, d, grid, p, ri))
            outcomes.add(digest(distinct)[:8])
            if len(distinct) > 1 and not res['samples']:
                res['samples'].append({'size': size, 'deformation': d, 'p': p, 'r': list(r),
                                       'distinct_x_flip_llr': distinct})
    finally:
        mmod.Matching = real_match
    res['nontrivial'] = len(nontrivial)
    res['outcomes'] = sorted(outcomes)[:50]
    return res


def eval_tiny(case):
    """The priors part on the tiny-marginal grid: one run of eval_priors per error rate, counters merged."""
    total = None
    for p in TINY_P:
        r = eval_priors(dict(case, grid='tiny', p=p))
        if total is None:
            total = r
            continue
        for k in ('evals', 'nontrivial', 'skipped'):
            total[k] += r[k]
        for k, v in r['extra'].items():
            total['extra'][k] = total['extra'].get(k, 0) + v
        total['violations'] += r['violations']
        total['outcomes'] = sorted(set(total['outcomes']) | set(r['outcomes']))[:50]
        total['samples'] = (total['samples'] + r['samples'])[:2]
    total['violations'] = total['violations'][:8]
    return total


def eval_case(case):
    if case['part'] == 'sample':
        return eval_sample(case)
    if case['part'] == 'session':
        return eval_session(case)
    if case['part'] == 'codes':
        return eval_codes(case)
    if case['part'] == 'tiny':
        return eval_tiny(case)
    if case['part'] == 'xcube':
        return eval_xcube(case)
    return eval_priors(case)
