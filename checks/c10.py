"""C10  Sweep decoders track the true residual syndrome.

Part 1 (geometry): for every lattice of the supported families of Toric3DCode,
Planar3DCode (SweepDecoder3D) and RotatedPlanar3DCode, RotatedToric3DCode
(RotatedSweepDecoder3D) below a qubit bound and for EVERY edge e, the real
`flip_edge(e, signs)` is run on the all-zero and on the all-one state and must
toggle exactly the face rows of the reference syndrome of Z_e (mc/gf2.py on the
code's own parity-check matrix).

Part 2 (automaton): every Z error of bounded weight is decoded by the real
`decode`; `sweep_move` and `flip_edge` are wrapped from outside (instance
attributes) so every step is observed; the tie-break generator is an
environment the explorer owns (a ChoiceRNG) and all answer sequences with
<= 2 deviations from answer 0 -- the complete answer tree while it has
<= 3**6 leaves -- are explored by stateless re-execution.  After every step the
tracked state is compared with the face syndrome of (error + correction so
far) computed by the reference algebra.  A second pass runs the decoder with
its own untouched numpy generator on every input that reaches a tie-break.
A decoder-parameter axis (max_rounds of RotatedSweepDecoder3D, max_sweep_factor
of SweepDecoder3D set so small that runs finish in exactly the last allowed
round, or give up) is explored on the smallest lattices.  At the end of every
run the RETURNED vector must be the correction accumulated through the observed
sweep_move calls (the library returns it also when it gives up), Z-only, and
must clear the face syndrome of the error whenever the automaton stopped with
no excitations.

Part 3 (site): the decoders accumulate their correction through `code.site(correction, P, edge)`; weight <= 3
errors flip an edge at most twice, so longer per-edge histories are enumerated directly: every sequence of up
to 6 applications of X/Y/Z on one edge, and every sequence of up to 4 applications on two edges, is replayed on
a real operator dict and `code.to_bsf` of the result is compared, after every step, with the XOR of the applied
Paulis' symplectic vectors.
"""
import itertools
import traceback

import numpy as np

from mc import families as F
from mc import gf2
from mc.env_rng import ChoiceRNG

PROPERTY = 'C10'
LEVEL = 'model_checking'
DESIGN_REF = 'DESIGN.md §4 C10, §5 D7/D8a/D9'
TECHNIQUE = ('exhaustive enumeration of (a) every edge of every supported lattice below a qubit bound and '
             '(b) every run of the sweep cellular automaton over all Z errors of bounded weight x all '
             'tie-break answer sequences (stateless re-execution of the real decoder with the tie-break '
             'generator owned by the explorer); per-step invariant decided by an independent GF(2) syndrome')
LEVEL_TEXT = ('The sweep decoders are deterministic cellular automata whose only environment input is the '
              'three-way tie-break draw. Their transition function (sweep_move / flip_edge) is executed for '
              'real on every reachable state of every bounded input and every tie-break answer sequence, and '
              'after every transition the tracked state (signs, correction) is compared with the face syndrome '
              'of error+correction computed from the parity-check matrix by integer GF(2) algebra that shares no '
              'code with the decoders. The neighbour geometry is decided separately on every single edge of '
              'every lattice of the family below the qubit bound. Within the bounds the property is decided, '
              'not sampled.')
LEVEL_NOTE = ('Trusted: mc/gf2.py; the code object\'s stabilizer_matrix, coordinate<->index tables and '
              'stabilizer_type labels (validated by C01/C02); the lenient ChoiceRNG (it answers '
              'choice(options, size=1) with a one-element object that int() accepts, i.e. numpy<2 behaviour, so '
              'that the automaton can be explored behind D9; the pass with the decoder\'s own generator reports '
              'D9 itself). Not covered: decoder limits other than the default and the small values listed in the bounds; errors above the weight bound, lattices above the size bounds, tie-break '
              'sequences with more than two non-zero answers where the answer tree has more than 3**6 leaves '
              '(none at the current bounds), the automaton on RotatedToric3DCode (its flip_edge geometry is '
              'finding D8a, which the geometry part reports edge by edge).')
RULE = ('geometry: every (lattice, edge) pair, distinct by construction, non-trivial when the reference face '
        'syndrome of Z_edge is non-zero; automaton: every (lattice, Z error of weight <= w, tie-break answer '
        'sequence) execution, distinct by construction (each answer sequence is generated once from its unique '
        'parent), non-trivial when the run flipped at least one edge (measured as a set of (error, answers)); '
        'the same over decoder parameters (max_rounds / max_sweep_factor in {1, 2[, 3]}) on the smallest '
        'lattices, where the evidence counts the runs that finish cleanly in exactly the last allowed round')
ASSUMPTIONS = [
    'face stabilizers are the rows whose coordinate has stabilizer_type "face"; qubit/stabilizer index tables '
    'of the code object are faithful (C02)',
    'the only environment input of a sweep decode is decoder._rng.choice; decode is otherwise deterministic '
    '(checked: each execution is replayed from scratch with a prescribed answer list)',
    'decode() returns the correction it accumulated also when it gives up with excitations left (both decoders '
    'end in `return self.code.to_bsf(correction)` on the reference tree); a returned vector that differs from '
    'the correction observed at the last sweep_move call is reported with the attribute excitations_left',
    'lenient tie-break environment: int() of a size-1 draw is allowed in the exploration pass (numpy<2 '
    'semantics); the native pass uses the real numpy generator',
]

DECODER_OF = {'Toric3DCode': 'SweepDecoder3D', 'Planar3DCode': 'SweepDecoder3D',
              'RotatedPlanar3DCode': 'RotatedSweepDecoder3D', 'RotatedToric3DCode': 'RotatedSweepDecoder3D'}
GEOMETRY_CLASSES = ['Toric3DCode', 'Planar3DCode', 'RotatedPlanar3DCode', 'RotatedToric3DCode']

# automaton lattices: [class, size, max error weight, number of shards]
_Q_AUTO = [
    ['Toric3DCode', [2, 2, 2], 3, 12],
    ['Planar3DCode', [2, 2, 2], 3, 1], ['RotatedPlanar3DCode', [2, 2, 2], 2, 2],
    ['RotatedPlanar3DCode', [3, 3, 3], 2, 4], ['RotatedPlanar3DCode', [4, 3, 2], 2, 48],
    ['Toric3DCode', [3, 3, 3], 2, 6], ['Toric3DCode', [2, 3, 4], 2, 8],
    ['Planar3DCode', [3, 3, 3], 2, 24],
]
_T_AUTO = [
    ['Toric3DCode', [2, 2, 2], 3, 12],
    ['Planar3DCode', [2, 2, 2], 3, 1], ['RotatedPlanar3DCode', [2, 2, 2], 3, 12],
    ['RotatedPlanar3DCode', [3, 3, 3], 3, 96], ['RotatedPlanar3DCode', [4, 3, 2], 2, 48],
    ['Toric3DCode', [3, 3, 3], 3, 96], ['Toric3DCode', [2, 3, 4], 3, 64],
    ['Planar3DCode', [2, 3, 4], 2, 8], ['Planar3DCode', [3, 3, 3], 3, 256],
    ['Toric3DCode', [4, 4, 4], 2, 64], ['Planar3DCode', [4, 4, 4], 2, 256],
    ['RotatedPlanar3DCode', [4, 4, 4], 2, 64],
]
# decoder-parameter axis: [class, size, max error weight, decoder kwargs, number of shards]; the default
# parameters are what the lists above run with
_Q_PARAM = [
    ['RotatedPlanar3DCode', [2, 2, 2], 2, {'max_rounds': 1}, 1],
    ['RotatedPlanar3DCode', [2, 2, 2], 2, {'max_rounds': 2}, 1],
    ['RotatedPlanar3DCode', [3, 3, 3], 2, {'max_rounds': 1}, 2],
    ['RotatedPlanar3DCode', [3, 3, 3], 2, {'max_rounds': 2}, 3],
    ['Toric3DCode', [2, 2, 2], 2, {'max_sweep_factor': 1}, 1],
    ['Planar3DCode', [2, 2, 2], 2, {'max_sweep_factor': 1}, 1],
    ['Toric3DCode', [3, 3, 3], 2, {'max_sweep_factor': 1}, 3],
    ['Planar3DCode', [3, 3, 3], 2, {'max_sweep_factor': 1}, 2],
    # non-cubic lattices on the parameter axis (moved from the thorough list: a parameter handled per axis
    # must not be right for cubes only)
    ['RotatedPlanar3DCode', [4, 3, 2], 2, {'max_rounds': 1}, 4],
    ['Toric3DCode', [2, 3, 4], 2, {'max_sweep_factor': 1}, 4],
    ['Planar3DCode', [2, 3, 4], 2, {'max_sweep_factor': 1}, 2],
]
_T_PARAM = _Q_PARAM + [
    ['RotatedPlanar3DCode', [2, 2, 2], 3, {'max_rounds': 1}, 1],
    ['RotatedPlanar3DCode', [2, 2, 2], 3, {'max_rounds': 2}, 2],
    ['RotatedPlanar3DCode', [2, 2, 2], 3, {'max_rounds': 3}, 3],
    ['RotatedPlanar3DCode', [3, 3, 3], 2, {'max_rounds': 3}, 4],
    ['RotatedPlanar3DCode', [3, 3, 3], 3, {'max_rounds': 1}, 16],
    ['RotatedPlanar3DCode', [3, 3, 3], 3, {'max_rounds': 2}, 32],
    ['RotatedPlanar3DCode', [4, 3, 2], 2, {'max_rounds': 2}, 8],
    ['Toric3DCode', [2, 2, 2], 3, {'max_sweep_factor': 1}, 2],
    ['Toric3DCode', [2, 2, 2], 3, {'max_sweep_factor': 2}, 4],
    ['Planar3DCode', [2, 2, 2], 3, {'max_sweep_factor': 1}, 1],
    ['Planar3DCode', [2, 2, 2], 3, {'max_sweep_factor': 2}, 1],
    ['Toric3DCode', [3, 3, 3], 2, {'max_sweep_factor': 2}, 4],
    ['Planar3DCode', [3, 3, 3], 2, {'max_sweep_factor': 2}, 4],
]
BOUNDS = {
    'quick': {'geometry_max_n': 200, 'geometry_l_max': 6, 'automaton': [a[:3] for a in _Q_AUTO],
              'automaton_decoder_parameters': [a[:4] for a in _Q_PARAM],
              'tie_break_deviations': 2, 'complete_tree_leaves': 729,
              'site_histories': {'one_edge_max_len': 6, 'two_edges_max_len': 4}},
    'thorough': {'geometry_max_n': 800, 'geometry_l_max': 8, 'automaton': [a[:3] for a in _T_AUTO],
                 'automaton_decoder_parameters': [a[:4] for a in _T_PARAM],
                 'tie_break_deviations': 2, 'complete_tree_leaves': 729,
                 'site_histories': {'one_edge_max_len': 6, 'two_edges_max_len': 4}},
}
BUDGET_S = {'quick': 600, 'thorough': 5400}
MAX_DEV = 2
TREE_LEAVES = 729
GEOM_BATCH = 6


def cases(tier, seed):
    b = BOUNDS[tier]
    per_class = {c: F.sizes(c, b['geometry_max_n'], l_max=b['geometry_l_max']) for c in GEOMETRY_CLASSES}
    # simplest first: the smallest lattices of every class, then the smallest automata, then the rest
    geo = []
    longest = max(len(v) for v in per_class.values())
    for lo in range(0, longest, GEOM_BATCH):
        for c in GEOMETRY_CLASSES:
            chunk = per_class[c][lo:lo + GEOM_BATCH]
            if chunk:
                geo.append({'part': 'geometry', 'cls': c, 'sizes': chunk})
    auto = []
    for cls, size, w, k in (_Q_AUTO if tier == 'quick' else _T_AUTO):
        for i in range(k):
            auto.append({'part': 'automaton', 'cls': cls, 'size': size, 'max_w': w, 'shard': [i, k]})
    for cls, size, w, params, k in (_Q_PARAM if tier == 'quick' else _T_PARAM):
        for i in range(k):
            auto.append({'part': 'automaton', 'cls': cls, 'size': size, 'max_w': w, 'shard': [i, k],
                         'params': params})
    cross = []
    pairs = [('Planar3DCode', 'Toric3DCode'), ('RotatedPlanar3DCode', 'RotatedToric3DCode')]
    for a, bcls in pairs:
        for size in ([2, 2, 2], [3, 3, 3], [2, 3, 4]) if tier == 'quick' else \
                ([2, 2, 2], [3, 3, 3], [2, 3, 4], [4, 3, 2], [3, 2, 3], [4, 4, 4]):
            if not (F.in_family(a, size) and F.in_family(bcls, size)):
                continue
            cross.append({'part': 'cross', 'seq': [[a, size], [bcls, size]]})
            cross.append({'part': 'cross', 'seq': [[bcls, size], [a, size]]})
    site = [{'part': 'site', 'cls': c, 'size': F.sizes(c, 200, l_max=3)[0]} for c in GEOMETRY_CLASSES]
    small = [a for a in auto if a['size'] == [2, 2, 2]]
    large = [a for a in auto if a['size'] != [2, 2, 2]]
    head = len(GEOMETRY_CLASSES)
    return geo[:head] + site + small + geo[head:] + large + cross


# ---------------------------------------------------------------- shared reference
def _build(cls, size, params=None):
    import panqec.decoders as D
    from panqec.error_models import PauliErrorModel
    code = F.get_class(cls)(*size)
    dec_cls = getattr(D, DECODER_OF[cls])
    params = dict(params or {})

    def make():
        return dec_cls(code, PauliErrorModel(1 / 3, 1 / 3, 1 / 3), 0.1, **params)
    return code, make


class _Ref:
    """Reference view of a code: face mask and, per qubit, the face syndrome of Z on it."""

    def __init__(self, code):
        self.n = n = code.n
        self.H = gf2.matrix_rows(code.stabilizer_matrix)
        self.m = len(self.H)
        self.face = 0
        for r, c in enumerate(code.stabilizer_coordinates):
            if code.stabilizer_type(c) == 'face':
                self.face |= 1 << r
        self.col = [gf2.syndrome(self.H, 1 << (n + q), n) & self.face for q in range(n)]
        self.qidx = {tuple(int(v) for v in c): q for q, c in enumerate(code.qubit_coordinates)}

    def face_syndrome(self, op):
        return gf2.syndrome(self.H, op, self.n) & self.face

    def face_syndrome_z(self, qubits):
        s = 0
        for q in qubits:
            s ^= self.col[q]
        return s


def _signs_int(signs):
    """tracked state -> int; None if it is not a 0/1 vector."""
    a = np.asarray(signs).ravel()
    if a.dtype == bool:
        a = a.astype(np.uint8)
    if a.dtype != np.uint8:
        if ((a != 0) & (a != 1)).any():
            return None
        a = a.astype(np.uint8)
    elif a.size and a.max() > 1:
        return None
    return int.from_bytes(np.packbits(a, bitorder='little').tobytes(), 'little')


def _bits(v):
    out = []
    i = 0
    while v:
        if v & 1:
            out.append(i)
        v >>= 1
        i += 1
    return out


def _where(exc):
    hit = None
    for fs in traceback.extract_tb(exc.__traceback__):
        if '/panqec/' in fs.filename and '/verif/' not in fs.filename:
            hit = fs
    return hit.name if hit is not None else None


# ---------------------------------------------------------------- part 1: geometry
def _is_seam(loc):
    return bool(loc[0] == 1 or loc[1] == 1)


def _wraps(loc, size):
    """the edge has a neighbouring face position across the periodic x/y boundary of the
    rotated torus (coordinate 1 or 2L in x or y)"""
    return bool(loc[0] in (1, 2 * size[0]) or loc[1] in (1, 2 * size[1]))


def _geometry(case):
    cls = case['cls']
    res = {'evals': 0, 'nontrivial': 0, 'violations': [], 'outcomes': [], 'samples': [],
           'extra': {'geometry_lattices': 0, 'geometry_edges': 0, 'geometry_mismatch_seam': 0,
                     'geometry_mismatch_nonseam': 0, 'geometry_raises': 0}}
    X = res['extra']
    emitted = {True: 0, False: 0}       # per case: the first (smallest) seam / non-seam edge
    for size in case['sizes']:
        code, make = _build(cls, size)
        d = make()
        ref = _Ref(code)
        rotated_torus = cls == 'RotatedToric3DCode'
        n_bad = 0
        X['geometry_lattices'] += 1
        ones = (1 << ref.m) - 1
        for q, loc in enumerate(code.qubit_coordinates):
            loc = tuple(int(v) for v in loc)
            want = ref.col[q]
            X['geometry_edges'] += 1
            res['nontrivial'] += int(want != 0)
            got = []
            err = None
            for start in (0, 1):
                signs = np.full(ref.m, start, dtype=int)
                res['evals'] += 1
                try:
                    d.flip_edge(loc, signs)
                except Exception as exc:
                    err = exc
                    break
                g = _signs_int(signs)
                got.append(None if g is None else (g ^ (ones if start else 0)))
            seam = _is_seam(loc)
            key = {'kind': 'geometry', 'site': 'flip_edge', 'decoder': DECODER_OF[cls], 'code': cls,
                   'size': list(size), 'edge': list(loc), 'seam': seam}
            if rotated_torus:
                key['wraps'] = _wraps(loc, size)
            if err is not None:
                X['geometry_raises'] += 1
                n_bad += 1
                if emitted[seam] < 1:
                    emitted[seam] += 1
                    key.update(kind='raises', exc=type(err).__name__)
                    res['violations'].append({'key': key, 'detail': {'message': str(err)[:200]}})
                continue
            if got[0] != want or got[1] != want:
                n_bad += 1
                X['geometry_mismatch_seam' if seam else 'geometry_mismatch_nonseam'] += 1
                if emitted[seam] < 1:
                    emitted[seam] += 1
                    sc = code.stabilizer_coordinates
                    res['violations'].append({'key': key, 'detail': {
                        'qubit': q,
                        'faces_flipped_from_zeros': None if got[0] is None else
                        [list(map(int, sc[r])) for r in _bits(got[0])],
                        'faces_flipped_from_ones': None if got[1] is None else
                        [list(map(int, sc[r])) for r in _bits(got[1])],
                        'faces_anticommuting_with_Z_edge': [list(map(int, sc[r])) for r in _bits(want)]}})
        res['outcomes'].append('%s|%s|%d|%d' % (cls, 'x'.join(map(str, size)), code.n, n_bad))
        if len(res['samples']) < 1:
            res['samples'].append({'part': 'geometry', 'code': cls, 'size': list(size), 'edges': code.n,
                                   'mismatching_edges': n_bad})
    res['outcomes'] = res['outcomes'][:50]
    return res


# ---------------------------------------------------------------- part 2: automaton
class _One:
    """what `rng.choice(options, size=1)` answers in the lenient environment: one element
    that int() accepts (numpy<2 semantics for a one-element array)."""

    def __init__(self, v):
        self.v = v

    def __int__(self):
        return int(self.v)

    __index__ = __int__

    def __len__(self):
        return 1

    def __getitem__(self, i):
        return [self.v][i]


class LenientChoiceRNG(ChoiceRNG):
    def choice(self, options, size=None, **kw):
        v = ChoiceRNG.choice(self, options, None)
        return v if size is None else _One(v)


class _Run:
    """One execution of the real decode() with sweep_move / flip_edge observed from outside."""

    def __init__(self, code, ref, decoder, qubits, syndrome):
        self.code, self.ref, self.d = code, ref, decoder
        self.qubits = qubits
        self.syndrome = syndrome
        self.syn_e = ref.face_syndrome_z(qubits)
        self.odd = set()            # edges flipped an odd number of times so far
        self.flips = 0
        self.steps = 0
        self.problems = []          # (kind, step, detail) first of each kind
        self.kinds = set()
        self.states = set()
        self.last_signs = None
        self.rounds = 0             # rounds of sweep directions begun (rotated decoder)
        self._first_dir = self._prev_dir = None
        self.accumulated = 0        # Z support (qubit bits) of the correction dict as last observed
        self.terminated = False     # decode returned with no tracked excitation left
        self._orig_move = decoder.sweep_move
        self._orig_flip = decoder.flip_edge
        decoder.sweep_move = self._move
        decoder.flip_edge = self._flip

    def _problem(self, kind, detail):
        if kind not in self.kinds:
            self.kinds.add(kind)
            self.problems.append((kind, self.steps, detail))

    def _flip(self, location, signs, *a, **k):
        loc = tuple(int(v) for v in location)
        self.flips += 1
        if loc in self.odd:
            self.odd.discard(loc)
        else:
            self.odd.add(loc)
        return self._orig_flip(location, signs, *a, **k)

    def _check_state(self, signs, correction, phase):
        ref = self.ref
        s = _signs_int(signs)
        cq = []
        for loc, p in correction.items():
            t = tuple(int(v) for v in loc)
            if p != 'Z' or t not in ref.qidx:
                self._problem('non-Z-correction', {'location': list(map(int, loc)), 'pauli': str(p),
                                                   'phase': phase})
            if t in ref.qidx:
                cq.append(ref.qidx[t])
        have = set(tuple(int(v) for v in loc) for loc in correction)
        if have != self.odd:
            extra = sorted(have - self.odd)
            missing = sorted(self.odd - have)
            if extra:
                self._problem('even-flip-present', {'edges': [list(e) for e in extra[:4]], 'phase': phase})
            if missing:
                self._problem('odd-flip-absent', {'edges': [list(e) for e in missing[:4]], 'phase': phase})
        if s is None:
            self._problem('signs-not-binary', {'phase': phase})
            return None
        want = self.syn_e ^ ref.face_syndrome_z(cq)
        if s != want:
            self._problem('tracking', {
                'phase': phase,
                'tracked_not_true': [list(map(int, self.code.stabilizer_coordinates[r]))
                                     for r in _bits(s & ~want)][:6],
                'true_not_tracked': [list(map(int, self.code.stabilizer_coordinates[r]))
                                     for r in _bits(want & ~s)][:6],
                'correction': sorted(list(map(int, loc)) for loc in correction)[:12]})
        self.states.add((s, tuple(sorted(cq))))
        return s

    def _remember(self, correction):
        acc = 0
        for loc in correction:
            t = tuple(int(v) for v in loc)
            if t in self.ref.qidx:
                acc ^= 1 << self.ref.qidx[t]
        self.accumulated = acc

    def _move(self, signs, correction, *a, **k):
        if self.steps == 0:
            self._check_state(signs, correction, 'initial')
        if a:                       # coverage only: count the rounds of sweep directions
            direction = tuple(int(v) for v in a[0])
            if self._first_dir is None:
                self._first_dir = direction
            if direction == self._first_dir and direction != self._prev_dir:
                self.rounds += 1
            self._prev_dir = direction
        out = self._orig_move(signs, correction, *a, **k)
        self.steps += 1
        self.last_signs = self._check_state(out, correction, 'after-step')
        self._remember(correction)
        return out

    def go(self):
        """returns (exception or None)."""
        n = self.ref.n
        try:
            c = self.d.decode(self.syndrome.copy())
        except Exception as exc:
            return exc
        c = np.asarray(c).ravel()
        cint = gf2.vec_to_int(c % 2) if c.size == 2 * n else None
        if cint is None:
            self._problem('returned-shape', {'shape': list(np.asarray(c).shape)})
            return None
        if cint & ((1 << n) - 1):
            self._problem('x-block', {'x_support': _bits(cint & ((1 << n) - 1))[:8]})
        final = self.last_signs if self.steps else self.syn_e
        self.terminated = (final == 0)
        # decode() hands back the correction it accumulated -- also when it gives up with excitations
        # left (both decoders end in `return self.code.to_bsf(correction)`); nothing may be dropped or
        # added between the last observed sweep step and the return
        if (cint >> n) != self.accumulated:
            self._problem('returned-not-accumulated', {
                'excitations_left': bool(final != 0),
                'returned_z_support': _bits(cint >> n)[:12],
                'accumulated_z_support': _bits(self.accumulated)[:12]})
        if final == 0:
            err = 0
            for q in self.qubits:
                err |= 1 << (n + q)
            resid = self.ref.face_syndrome(err ^ cint)
            if resid:
                self._problem('residual-syndrome', {
                    'faces': [list(map(int, self.code.stabilizer_coordinates[r])) for r in _bits(resid)][:6],
                    'returned_z_support': _bits(cint >> n)[:12]})
        return None


def _automaton(case):
    cls, size, max_w = case['cls'], case['size'], case['max_w']
    sh_i, sh_k = case['shard']
    params = case.get('params') or {}
    code, make = _build(cls, size, params)
    ref = _Ref(code)
    n = ref.n
    dec_name = DECODER_OF[cls]
    res = {'evals': 0, 'nontrivial': 0, 'states': 0, 'transitions': 0, 'traces': 0, 'violations': [],
           'outcomes': [], 'samples': [], 'capped': 0,
           'extra': {'automaton_inputs': 0, 'automaton_executions': 0, 'native_executions': 0,
                     'tie_break_points': 0, 'trees_complete': 0, 'trees_bounded_2dev': 0,
                     'runs_terminated_clean': 0, 'runs_gave_up': 0,
                     'runs_with_small_limits': 0, 'runs_clean_in_last_allowed_round': 0,
                     'edge_flips': 0, 'automaton_violations': 0, 'raises': 0}}
    X = res['extra']
    states = set()
    nontrivial = set()
    outcomes = set()
    per_kind = {}
    max_leaves = 0

    def emit(kind, qubits, script, step, detail, **kw):
        X['automaton_violations'] += 1
        slot = (kind, kw.get('excitations_left'))
        per_kind[slot] = per_kind.get(slot, 0) + 1
        if per_kind[slot] > 1:             # the first (simplest) input of each kind per work item
            return
        key = {'kind': kind, 'site': 'sweep_move' if kind in (
            'tracking', 'even-flip-present', 'odd-flip-absent', 'non-Z-correction', 'signs-not-binary')
            else 'decode', 'decoder': dec_name, 'code': cls, 'size': list(size), 'weight': len(qubits),
            'qubits': list(qubits), 'tie_breaks': script, 'step': step}
        if params:
            key['params'] = dict(params)
        key.update(kw)
        detail = dict(detail)
        detail['error_edges'] = [list(map(int, code.qubit_coordinates[q])) for q in qubits]
        res['violations'].append({'key': key, 'detail': detail})

    def execute(qubits, script, syndrome):
        """script None = native generator. returns (_Run, exception)."""
        d = make()
        if script is not None:
            d._rng = LenientChoiceRNG(script)
        run = _Run(code, ref, d, qubits, syndrome)
        exc = run.go()
        res['evals'] += 1
        res['traces'] += 1
        res['transitions'] += run.steps
        X['edge_flips'] += run.flips
        states.update(run.states)
        label = 'native' if script is None else list(script)
        if exc is not None:
            X['raises'] += 1
            emit('raises', qubits, label, run.steps, {'message': str(exc)[:200]},
                 exc=type(exc).__name__, site=_where(exc) or 'decode',
                 rng='numpy-default' if script is None else 'scripted')
        for kind, step, detail in run.problems:
            if kind == 'returned-not-accumulated':      # scoping attribute: did the automaton give up?
                emit(kind, qubits, label, step, detail, excitations_left=detail['excitations_left'])
            else:
                emit(kind, qubits, label, step, detail)
        return run, exc

    idx = -1
    for w in range(1, max_w + 1):
        for qubits in itertools.combinations(range(n), w):
            idx += 1
            if idx % sh_k != sh_i:
                continue
            X['automaton_inputs'] += 1
            e = np.zeros(2 * n, dtype=np.uint8)
            for q in qubits:
                e[n + q] = 1
            syndrome = code.measure_syndrome(e)     # what the pipeline hands to decode()
            # ---- all tie-break answer sequences, by number of non-zero answers
            level = [()]
            leaves = 0
            dev = 0
            complete = True
            root_points = 0
            while level:
                nxt = []
                for script in level:
                    run, exc = execute(qubits, script, syndrome)
                    X['automaton_executions'] += 1
                    leaves += 1
                    pts = run.d._rng.points
                    if not script:
                        root_points = len(pts)
                    X['tie_break_points'] += len(pts)
                    if run.flips:
                        nontrivial.add((qubits, script))
                    if exc is None:
                        if run.terminated:
                            X['runs_terminated_clean'] += 1
                        else:
                            X['runs_gave_up'] += 1
                    if params:
                        X['runs_with_small_limits'] += 1
                        last = (run.rounds == params['max_rounds']) if 'max_rounds' in params else \
                            (run.steps == params['max_sweep_factor'] * max(size))
                        if exc is None and run.terminated and last:
                            X['runs_clean_in_last_allowed_round'] += 1
                    outcomes.add('%s%s|w%d|p%d|%s|%s' % (
                        cls[:4], ''.join('/%s' % v for v in params.values()), w, len(pts), 'exc' if exc is not None else
                        ('clean' if run.terminated else 'gave-up'),
                        ','.join(sorted(run.kinds)) or 'ok'))
                    for j in range(len(script), len(pts)):
                        for a in range(1, pts[j]):
                            nxt.append(tuple(script) + (0,) * (j - len(script)) + (a,))
                dev += 1
                if not nxt:
                    break
                if dev > MAX_DEV and leaves + len(nxt) > TREE_LEAVES:
                    complete = False        # deeper levels exist: the <=2-deviation bound applies
                    break
                level = nxt
            X['trees_complete' if complete else 'trees_bounded_2dev'] += 1
            max_leaves = max(max_leaves, leaves)
            # ---- the decoder's own generator, untouched, wherever a tie-break is reached
            if root_points:
                run, exc = execute(qubits, None, syndrome)
                X['native_executions'] += 1
            if len(res['samples']) < 2 and root_points:
                res['samples'].append({'part': 'automaton', 'code': cls, 'size': list(size),
                                       'decoder_parameters': dict(params),
                                       'error_qubits': list(qubits), 'tie_break_points_on_default_path':
                                       root_points, 'answer_sequences_explored': leaves,
                                       'tree_complete': complete})
    res['states'] = len(states)
    res['nontrivial'] = len(nontrivial)
    res['outcomes'] = sorted(outcomes)[:50]
    # a maximum is not summable over cases: it is exposed through the outcome digests
    res['outcomes'].append('max-leaves-%d' % max_leaves)
    return res


def _cross(case):
    """Several lattices handled one after the other in ONE process (a session that decodes a planar and
    then a toric code of the same size, or two sizes of one code): the geometry of each must be what it is
    when handled alone.  Decoder objects are fresh each time; only process-level state can carry over."""
    total = None
    for pos, (cls, size) in enumerate(case['seq']):
        r = _geometry({'part': 'geometry', 'cls': cls, 'sizes': [size]})
        for v in r.get('violations', []):
            v['key']['part'] = 'cross'
            v['key']['position'] = pos
            v['detail']['handled_before'] = [list(map(str, x)) for x in case['seq'][:pos]]
        if total is None:
            total = r
        else:
            for k, val in r.items():
                if isinstance(val, int):
                    total[k] = total.get(k, 0) + val
                elif isinstance(val, list):
                    total[k] = total.get(k, []) + val
                elif isinstance(val, dict):
                    for kk, vv in val.items():
                        total[k][kk] = total[k].get(kk, 0) + vv
    total['samples'] = [{'cross_sequence': case['seq']}]
    total['outcomes'] = total.get('outcomes', [])[:50]
    return total


_SITE_VEC = {'X': (1, 0), 'Y': (1, 1), 'Z': (0, 1)}
SITE_MAX_LEN_ONE = 6
SITE_MAX_LEN_TWO = 4


def _site(case):
    """Histories of `code.site` on one and on two edges (the correction accumulator of both sweep decoders)."""
    cls, size = case['cls'], case['size']
    code, _ = _build(cls, size)
    n = code.n
    locs = [tuple(int(v) for v in c) for c in code.qubit_coordinates]
    first, last = locs[0], locs[-1]
    res = {'evals': 0, 'nontrivial': 0, 'violations': [], 'outcomes': set(), 'samples': [],
           'extra': {'site_histories': 0, 'site_steps': 0}}
    alph_one = [(first, P) for P in 'XYZ']
    alph_two = [(l, P) for l in (first, last) for P in 'XYZ']
    reported = set()
    for alph, max_len, tag in ((alph_one, SITE_MAX_LEN_ONE, 'one-edge'), (alph_two, SITE_MAX_LEN_TWO, 'two-edges')):
        for length in range(1, max_len + 1):
            for hist in itertools.product(alph, repeat=length):
                res['extra']['site_histories'] += 1
                op = {}
                want = np.zeros(2 * n, dtype=int)
                for step, (loc, P) in enumerate(hist):
                    res['evals'] += 1
                    res['extra']['site_steps'] += 1
                    q = code.qubit_index[loc]
                    want[q] ^= _SITE_VEC[P][0]
                    want[n + q] ^= _SITE_VEC[P][1]
                    err = None
                    try:
                        code.site(op, P, loc)
                        got = np.asarray(code.to_bsf(dict(op))).ravel().astype(int) % 2
                    except Exception as exc:
                        err, got = exc, None
                    ok = err is None and got.shape == want.shape and bool((got == want).all())
                    if step == length - 1:
                        res['nontrivial'] += int(length >= 3)
                        res['outcomes'].add('%s|%s|%d|%d' % (cls, tag, length, int(want.sum())))
                    if not ok:
                        word = ''.join(P_ for _, P_ in hist[:step + 1])
                        where = ''.join('ab'[(first, last).index(l)] if tag == 'two-edges' else 'a'
                                        for l, _ in hist[:step + 1])
                        kind = (word, where)
                        if kind not in reported and len(reported) < 3:
                            reported.add(kind)
                            res['violations'].append({
                                'key': {'kind': 'site', 'site': 'code.site', 'code': cls, 'size': list(size),
                                        'paulis': word, 'edges': where},
                                'detail': {'edge_a': list(first), 'edge_b': list(last),
                                           'operator_dict': {str(k): v for k, v in op.items()},
                                           'raised': None if err is None else repr(err)[:200],
                                           'to_bsf_support': None if got is None else
                                           [int(i) for i in np.nonzero(got)[0]],
                                           'xor_of_applied_paulis_support': [int(i) for i in np.nonzero(want)[0]]}})
                        break
    res['outcomes'] = sorted(res['outcomes'])[:50]
    res['samples'] = [{'part': 'site', 'code': cls, 'size': list(size), 'edge_a': list(first),
                       'edge_b': list(last), 'histories': res['extra']['site_histories']}]
    return res


def eval_case(case):
    if case['part'] == 'site':
        return _site(case)
    if case['part'] == 'geometry':
        return _geometry(case)
    if case['part'] == 'cross':
        return _cross(case)
    return _automaton(case)
