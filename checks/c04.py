"""C04  Decoding success is declared iff the residual error is a stabilizer.

Every Pauli operator on every library code with n <= 8 (full 4^n), and for
larger codes a structured exhaustive family (basis vectors, generators,
logicals and all their pairwise products).  Reference: stabilizer group
membership by GF(2) elimination, commutation by the symplectic form.
"""
import itertools

import numpy as np

from mc import families as F
from mc import gf2
from mc import session

PROPERTY = 'C04'
LEVEL = 'exploration'
DESIGN_REF = 'DESIGN.md §4 C04'
TECHNIQUE = ('exhaustive enumeration of all 4^n Pauli operators on every library code with n<=8 and of a structured '
             'product family on larger codes; success/codespace/logical-effect predicates compared with GF(2) '
             'row-space membership and the symplectic form')
LEVEL_TEXT = ('For small codes the whole operator space is enumerated, so "success iff stabilizer" is decided for every '
              'operator; for larger codes linearity (C03) plus all basis vectors, generators, logicals and their '
              'pairwise products decides the predicates on a spanning family.')
LEVEL_NOTE = ('Trusted: mc/gf2.py; validity of the listed logicals (C01). Configurations that an open C01 finding '
              'marks invalid are skipped and counted.')
RULE = ('full: every e in {I,X,Y,Z}^n for each (class, size, deformation) with n <= bound; singles: single-qubit X/Y/Z '
        'on every qubit, every generator and every logical of every undeformed (class, size) up to a larger qubit '
        'bound incl. elongated lattices; structured: single-qubit '
        'X/Y/Z on every qubit, every generator, every logical, every product of two generators (capped per code, cap '
        'reported), generator x logical, generator x single-qubit error; non-trivial = distinct non-identity '
        'operators per configuration; the structured family also on used objects and in per-class sessions; up to '
        '40 of the operators of each full/structured configuration (fresh objects) and the sums of the first generators (built '
        'by sparse arithmetic, mod 2) again as sparse rows: canonical csr, explicit zeros, unsorted indices')
ASSUMPTIONS = ['listed logical operators are valid (C01)', 'GF(2) reference mc/gf2.py']
BOUNDS = {'quick': {'full_n': 6, 'struct_n': 40, 'struct_l_max': 4, 'pair_cap': 100, 'single_n': 100,
                    'single_l_max': 6},
          'thorough': {'full_n': 8, 'struct_n': 150, 'struct_l_max': 5, 'pair_cap': 4000, 'single_n': 200,
                       'single_l_max': 7}}


def cases(tier, seed):
    b = BOUNDS[tier]
    out = []
    for cfg in F.configs(b['full_n'], min_count=0):
        out.append(dict(cfg, part='full'))
    for cfg in F.configs(b['struct_n'], l_max=b['struct_l_max'], min_count=1, used=True):
        out.append(dict(cfg, part='structured', pair_cap=b['pair_cap']))
    struct = [c for c in out if c['part'] == 'structured']
    # elongated / larger undeformed lattices (boundary layers that only exist from some length on): the
    # single-qubit operators on every qubit, every generator and every logical
    have = {(c['cls'], tuple(c['size'])) for c in struct}
    for cfg in F.configs(b['single_n'], l_max=b['single_l_max'], min_count=0, deformed=False):
        if (cfg['cls'], tuple(cfg['size'])) not in have:
            out.append(dict(cfg, part='singles'))
    out += [{'part': 'session', 'cfgs': [dict(c, pair_cap=20) for c in seq]}
            for seq in session.interleave_by_size(struct, 2)]
    out += [{'part': 'session', 'cfgs': [dict(c, pair_cap=20) for c in seq]}
            for seq in session.across_classes(struct)]
    return out


def eval_case(cfg):
    if cfg.get('part') == 'session':
        return session.run(cfg['cfgs'], eval_case, F.cfg_label)
    res = {'evals': 0, 'nontrivial': 0, 'violations': [], 'outcomes': [], 'samples': [], 'extra': {}}
    if F.known_invalid(cfg):
        res['skipped'] = 1
        res['evals'] = 1
        return res
    code = F.build(cfg)
    n, k = code.n, code.k
    H = gf2.matrix_rows(code.stabilizer_matrix)
    LX = gf2.matrix_rows(code.logicals_x)
    LZ = gf2.matrix_rows(code.logicals_z)
    basis = gf2.Basis(H)
    V = res['violations']
    d = cfg.get('deformation')
    base_key = {'cls': cfg['cls'], 'size': list(cfg['size']), 'deformation': d[0] if d else None,
                'axis': d[1].get('deformation_axis', 'default') if d else None, 'part': cfg['part'],
                'object': 'used' if cfg.get('pre') else 'fresh'}
    counts = {}

    def bad(kind, e, **detail):
        counts[kind] = counts.get(kind, 0) + 1
        if counts[kind] == 1 and len(V) < 5:
            detail['operator'] = gf2.int_to_pauli_string(e, n)[:120]
            V.append({'key': dict(base_key, kind=kind), 'detail': detail})

    def check(e):
        vec = np.array(gf2.int_to_vec(e, 2 * n), dtype='uint8')
        res['evals'] += 1
        commutes = gf2.syndrome(H, e, n) == 0
        in_group = basis.contains(e)
        want_eff = [gf2.symp(e, LZ[i], n) for i in range(k)] + [gf2.symp(e, LX[i], n) for i in range(k)]
        ic = code.in_codespace(vec)
        if not isinstance(ic, (bool, np.bool_)) or bool(ic) != commutes:
            bad('in_codespace-wrong', e, expected=commutes, got=str(ic))
        le = np.asarray(code.logical_errors(vec))
        if le.shape != (2 * k,) or [int(t) for t in le] != want_eff:
            bad('logical-effect-wrong', e, expected=want_eff, got=le.tolist())
        ile = code.is_logical_error(vec)
        if bool(ile) != any(want_eff):
            bad('is_logical_error-wrong', e, expected=any(want_eff), got=str(ile))
        ok = code.is_success(vec)
        if bool(ok) != in_group:
            bad('success-iff-stabilizer-violated', e, in_stabilizer_group=in_group, is_success=bool(ok),
                commutes=commutes, effect=want_eff)
        return (commutes, in_group, tuple(want_eff))

    seen = set()
    out = set()
    if cfg['part'] == 'full':
        ops = range(4 ** n)
    else:
        mask = (1 << n) - 1
        singles = [1 << i for i in range(n)] + [1 << (n + i) for i in range(n)] + \
                  [(1 << i) | (1 << (n + i)) for i in range(n)]
        ops = [0] + singles + H + LX + LZ
    if cfg['part'] == 'structured':
        pairs = list(itertools.combinations(range(len(H)), 2))
        cap = cfg['pair_cap']
        if len(pairs) > cap:
            res['extra']['generator_pairs_capped_codes'] = 1
            step = len(pairs) / float(cap)
            pairs = [pairs[int(i * step)] for i in range(cap)]
        ops += [H[i] ^ H[j] for i, j in pairs]
        ops += [h ^ l for h in H[:40] for l in (LX + LZ)]
        ops += [l1 ^ l2 for l1 in LX for l2 in LZ]
        ops += [H[i % len(H)] ^ s for i, s in enumerate(singles)]
        ops += [H[(7 * i + 3) % len(H)] ^ H[i % len(H)] ^ s for i, s in enumerate(singles)]
    for e in ops:
        if e in seen:
            continue
        seen.add(e)
        out.add(check(e))
    # the same predicates on residual errors held as sparse rows: canonical csr, csr with explicitly stored
    # zeros (what sparse arithmetic leaves behind: row = H[i] + H[j]; row.data %= 2) and csr with unsorted indices
    if cfg['part'] != 'singles' and not cfg.get('pre'):
        from scipy.sparse import csr_matrix
        Hs = code.stabilizer_matrix
        sparse_ops = []
        pick = sorted(seen)
        step = max(1, len(pick) // 40)
        for e in pick[::step][:40]:
            bits = gf2.int_to_vec(e, 2 * n)
            sparse_ops.append((e, 'csr', csr_matrix(np.array([bits], dtype='uint8'))))
            sparse_ops.append((e, 'csr/explicit-zeros',
                               csr_matrix((np.array(bits, dtype='uint8'), np.arange(2 * n), np.array([0, 2 * n])),
                                          shape=(1, 2 * n))))
            cols = [i for i in range(2 * n) if bits[i]][::-1]
            sparse_ops.append((e, 'csr/unsorted',
                               csr_matrix((np.ones(len(cols), dtype='uint8'), np.array(cols, dtype=int),
                                           np.array([0, len(cols)])), shape=(1, 2 * n))))
        for i in range(min(len(H), 7)):
            for j in range(i + 1, min(len(H), 7)):
                row = Hs[i] + Hs[j]
                row.data %= 2
                sparse_ops.append((H[i] ^ H[j], 'sum-of-generators-mod-2', row))
                for l in (LX + LZ)[:2]:
                    lrow = csr_matrix(np.array([gf2.int_to_vec(l, 2 * n)], dtype='uint8'))
                    r2 = row + lrow
                    r2.data %= 2
                    sparse_ops.append((H[i] ^ H[j] ^ l, 'generators-times-logical-mod-2', r2))
        for e, kind, row in sparse_ops:
            res['evals'] += 1
            commutes = gf2.syndrome(H, e, n) == 0
            in_group = basis.contains(e)
            want_eff = [gf2.symp(e, LZ[i], n) for i in range(k)] + [gf2.symp(e, LX[i], n) for i in range(k)]
            try:
                ic = bool(code.in_codespace(row))
                le = [int(t) for t in np.asarray(code.logical_errors(row)).ravel()]
                ok = bool(code.is_success(row))
            except Exception as exc:
                bad('sparse-row-predicate-raises', e, representation=kind, exc=type(exc).__name__, msg=str(exc)[:100])
                continue
            if ic != commutes:
                bad('in_codespace-wrong-on-sparse-row', e, representation=kind, expected=commutes, got=ic)
            if le != want_eff:
                bad('logical-effect-wrong-on-sparse-row', e, representation=kind, expected=want_eff, got=le)
            if ok != in_group:
                bad('success-iff-stabilizer-violated-on-sparse-row', e, representation=kind, in_stabilizer_group=in_group,
                    is_success=ok)
    # coset-constancy and linearity hold by equality with the (linear, coset-constant) reference on every
    # operator checked; additionally exercise the stacked (2-D) path of the logical effect
    try:
        from panqec.bpauli import get_effective_error
        sample = sorted(seen)[:64]
        M = np.array([gf2.int_to_vec(e, 2 * n) for e in sample], dtype='uint8')
        eff = np.asarray(get_effective_error(M, code.logicals_x, code.logicals_z))
        want = [[gf2.symp(e, LZ[i], n) for i in range(k)] + [gf2.symp(e, LX[i], n) for i in range(k)]
                for e in sample]
        res['evals'] += 1
        if len(sample) > 1 and (eff.shape != (len(sample), 2 * k) or eff.astype(int).tolist() != want):
            bad('stacked-logical-effect-wrong', sample[1], shape=list(eff.shape))
    except Exception as exc:
        bad('stacked-logical-effect-raises', 0, exc=type(exc).__name__, msg=str(exc)[:100])
    res['nontrivial'] = len(seen - {0})
    res['extra'].update({'c04_' + kk.replace('-', '_'): vv for kk, vv in counts.items()})
    res['outcomes'] = ['%s|%s' % (cfg['cls'], o) for o in sorted(out)][:50]
    res['samples'].append({'config': F.cfg_label(cfg), 'part': cfg['part'], 'operators': len(seen),
                           'stabilizers_among_them': sum(1 for o in out if o[1])})
    return res
