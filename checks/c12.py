"""C12  Interrupted batch runs resume without losing or duplicating trials.

System under test: read_input_dict(spec, output_file=..., save_frequency=f) + BatchSimulation.run(n),
i.e. what `panqec run` executes, on a results file inside a per-execution sandbox in /dev/shm.

Histories  (spec1, n1) -> stop -> (spec2, n2) [-> stop -> (spec2, n2 + 1) in the thorough tier], and
           (spec1, n1) complete -> (spec2, n2) interrupted while it loads the file -> (spec2, n2)  ["resume"].
Stops:
  between-trials   a stop no handler sees, at every trial boundary (live), and every crash image of
                   the op log at which no file is open for writing
  kill-in-write    every crash image of the op log (mc/env_fs.py): every log prefix x byte offset of
                   the interrupted write, materialised into a fresh sandbox (bytes handed to write()
                   taken as durable), plus the sandbox content as it really was on disk before every
                   file-system event of the same run (user-space buffering as it really happened)
  interrupt        KeyboardInterrupt delivered live before/after every file-system operation, inside
                   writes and at every trial boundary, so that panqec's own handlers run; finalisers
                   are forced (gc) before the disk is read
Oracle (shares no code with panqec; files are read with json/gzip directly):
  the restart raises nothing; every simulation of spec2 ends with n_runs == n2 and three lists of
  length n2; with e = number of trials the restart really executed for a simulation (counted by
  wrapping its run()) the a = n2 - e adopted trials must (i) be at least as many as the simulation had
  in the LAST COMPLETED SAVE (content of the output path at the last untainted close / replace in the
  op log - never read back from the possibly torn disk), whose lists must be an unchanged prefix,
  (ii) be the first a trials this very simulation really produced before the stop, in order; the
  remaining entries must be the trials the restart executed; a simulation that is not in the file
  starts from zero; planted records of a different (code, noise, decoder, rate) carry impossible
  marker outcomes and must never show up.
"""
import copy
import datetime as _datetime_mod
import gc
import gzip
import hashlib
import json
import os
import shutil
import sys
import tempfile
import time as _time_mod

import numpy as _np

from mc import env_fs as E

PROPERTY = 'C12'
LEVEL = 'fault_enumeration'
DESIGN_REF = 'DESIGN.md §4 C12, §5 D11/D11b'
TECHNIQUE = ('exhaustive enumeration of stop points of bounded stop/restart histories: every crash image '
             '(op-log prefix x byte offset of the interrupted write) of every checkpoint write and a '
             'KeyboardInterrupt at every interceptable file-system event / trial boundary, each followed by a '
             'real restart judged by exact trial accounting')
LEVEL_TEXT = ('Resume correctness is a property of (crash point x on-disk state x restart). Under a process-kill '
              'model the on-disk state is a function of a prefix of the deterministic file-system op log, so the '
              'complete set of crash states of a bounded history can be materialised and each one restarted on '
              'the real code; interrupts are delivered live at every file-system event so that the program\'s own '
              'handlers and leaked-writer finalisers run. Within the bounds every fault point is tried, which is '
              'what fault enumeration means; no claim is made beyond the bounded histories.')
LEVEL_NOTE = ('Trusted: mc/env_fs.py (LoggedFS op log; its replay model is verified against real snapshots at every '
              'close/replace of every logged run), the counting wrapper around simulation.run, json/gzip of the '
              'standard library as reference reader. Crash model = process kill: bytes handed to write() are durable '
              'and ordered (the torn states of files larger than the stdio buffer); in addition the states really '
              'on disk before each file-system event of the logged run (buffered small files) are restarted from; '
              'power-loss reordering, concurrent writers and interrupts at '
              'points that are not file-system events or trial boundaries (arbitrary bytecode boundaries) are not '
              'covered. Quick tier: representative byte offsets only. Depth 2 starts from one representative per '
              '(file status, last completed save) class of first-stop states and uses representative offsets '
              '(JSON token boundaries to depth 2) for both stops.')
RULE = ('cases = histories (container, n1<=n2, save_frequency, spec2 in {same,+rate,+size}) x stop family x shard; '
        'plus "api" cases (batches built through the API whose decoder prior differs from the simulated rate: shared '
        'prior, swapped priors, prior per size; run - stop at every trial boundary - rebuild - resume), '
        'plus "names" cases (output file names x.json, x.json.gz, x.gz, a.b.json.gz, a.b.json, and one without '
        'extension which counts as skipped when the library refuses it: run - stop at every trial boundary - '
        'restart), "neighbours" cases (the results file of another batch with the same stem and the other '
        'extension and an unrelated file next to the output file must stay byte-identical through run and restart, '
        'in the presence of a leftover <output>.<random>.tmp that may be removed or left; both batches resume from '
        'their own saved prefix), '
        'plus "splitting" cases (splitting-method batches with 1, 2, 3 error rates: run complete / stopped after '
        'every trial, restart with fresh objects; n_runs == requested == length of every per-rate list, saved '
        'prefix kept; a restart that raises is a violation), '
        'plus "grow" cases (two sizes x two rates grown by a rate / a size that precedes existing simulations in '
        'expansion order), "pause" cases (KeyboardInterrupt inside every trial - before generate and before decode '
        '- and at every trial boundary, then run() again on the same object), '
        'plus "resume" cases (run 1 complete, KeyboardInterrupt before/after every open of the results file and '
        'at the first trial boundary of run 2, run 3 to the same target); '
        'within a case every stop point of the family is executed (thorough: every byte offset; quick: offsets '
        '{0,1,len-1,len} + every JSON token boundary to depth 3 / every gzip write boundary and the middle of the '
        'deflate block; quick interrupts in a JSON text: token boundaries to depth 2); a sub-case is the state (disk image, last completed save, trials produced so far) reached '
        'by a stop; it is non-trivial when the sandbox holds at least one file or a completed save exists, and '
        'distinct by the SHA-1 of that state within its history (crash images: counted once over the whole run '
        'whichever shard executes them; live stops: counted only by the shard that owns the digest, which can '
        'under-count but never counts a state twice)')
ASSUMPTIONS = [
    'process-kill crash model: bytes passed to write() are durable in order; no power-loss reordering',
    'single fault per run: one stop per execution, at most two stop/restart rounds per history',
    'trial outcomes are a deterministic function of a global trial serial (numpy.random.default_rng patched); '
    'wall-clock and gzip mtime are frozen (datetime.datetime.now / time.time patched) so that file bytes are '
    'reproducible',
    'Toric2DCode 2x2 (+2x3), MatchingDecoder, depolarising noise, rates 0.1/0.2 (+0.3)',
]
BOUNDS = {
    'quick': {'n_pairs': [[3, 3], [3, 5], [4, 6]], 'save_frequency': [1, 2, 3],
              'spec2': ['same', 'rate', 'size'], 'containers': ['json', 'gz'], 'depth': 1,
              'kill_offsets': 'classes(json depth 3)',
              'interrupt_points': 'classes(json depth 2; every gzip write boundary) + every non-write event',
              'plant': ['rate', 'size', 'noise', 'noise-close', 'decoder', 'overlap']},
    'thorough': {'n_pairs': [[3, 3], [3, 5], [4, 6]], 'save_frequency': [1, 2, 3],
                 'spec2': ['same', 'rate', 'size'], 'containers': ['json', 'gz'], 'depth': 2,
                 'kill_offsets': 'all', 'interrupt_inside': {'json': 'mid of every write', 'gz': 'all'},
                 'depth2_offsets': 'classes(json depth 2)', 'depth2_n3': 'n2+1',
                 'plant': ['rate', 'size', 'noise', 'noise-close', 'decoder', 'overlap']},
}
BUDGET_S = {'quick': 900, 'thorough': 7200}

SEED_BASE = 20261002
MARK = 9                       # impossible effective-error entry used in planted foreign records
DEPOL = (1 / 3, 1 / 3, 1 / 3)
MAX_EMIT = 5


# ----------------------------------------------------------------------------- specs and identities
def make_spec(sizes, rates, decoder='MatchingDecoder', noise=DEPOL):
    return {'ranges': {
        'label': 'c12',
        'code': {'name': 'Toric2DCode', 'parameters': [{'L_x': a, 'L_y': b} for a, b in sizes]},
        'error_model': {'name': 'PauliErrorModel',
                        'parameters': {'r_x': noise[0], 'r_y': noise[1], 'r_z': noise[2]}},
        'decoder': {'name': decoder, 'parameters': {}},
        'error_rate': list(rates)}}


def _fmt(x):
    return repr(round(float(x), 9))


def make_ident(code, size, noise_name, noise, decoder, rate):
    return '%s(%s)|%s(%s)|%s|%s' % (code, ','.join(str(int(s)) for s in size), noise_name,
                                    ','.join(_fmt(x) for x in noise), decoder, _fmt(rate))


def spec_params(variant):
    """(sizes, rates, decoder, noise) of a named specification."""
    table = {
        'base': ([[2, 2]], [0.1, 0.2], 'MatchingDecoder', DEPOL),
        'same': ([[2, 2]], [0.1, 0.2], 'MatchingDecoder', DEPOL),
        'rate': ([[2, 2]], [0.1, 0.2, 0.3], 'MatchingDecoder', DEPOL),
        'size': ([[2, 2], [2, 3]], [0.1, 0.2], 'MatchingDecoder', DEPOL),
        # two sizes x two rates, grown so that the NEW simulations come BEFORE existing ones in the expanded
        # (size-major) order: an appended rate lands between the sizes, a size can be put first in its list
        'base2': ([[2, 2], [2, 3]], [0.1, 0.2], 'MatchingDecoder', DEPOL),
        'base2+rate': ([[2, 2], [2, 3]], [0.1, 0.2, 0.3], 'MatchingDecoder', DEPOL),
        'base2+size-first': ([[3, 2], [2, 2], [2, 3]], [0.1, 0.2], 'MatchingDecoder', DEPOL),
        'base2+rate-first': ([[2, 2], [2, 3]], [0.05, 0.1, 0.2], 'MatchingDecoder', DEPOL),
        # specifications used to plant foreign result files
        'f-rate': ([[2, 2]], [0.15, 0.25], 'MatchingDecoder', DEPOL),
        'f-size': ([[3, 3]], [0.1, 0.2], 'MatchingDecoder', DEPOL),
        'f-noise': ([[2, 2]], [0.1, 0.2], 'MatchingDecoder', (1.0, 0.0, 0.0)),
        # a noise direction that differs from the base one only beyond the 7th decimal: still another model
        'f-noise-close': ([[2, 2]], [0.1, 0.2], 'MatchingDecoder', (1 / 3 + 1e-8, 1 / 3 - 1e-8, 1 / 3)),
        'f-decoder': ([[2, 2]], [0.1, 0.2], 'BeliefPropagationOSDDecoder', DEPOL),
        'f-overlap': ([[2, 2]], [0.1, 0.35], 'MatchingDecoder', DEPOL),
    }
    return table[variant]


# Batches built through the API (BatchSimulation + DirectSimulation), where the rate the decoder is calibrated
# for (its prior) is NOT the rate errors are sampled at: (size, simulated rate, decoder prior) per simulation.
API_SPECS = {
    'api-shared-prior': [((2, 2), 0.02, 0.1), ((2, 2), 0.4, 0.1)],       # several rates, one prior
    'api-swapped-prior': [((2, 2), 0.1, 0.2), ((2, 2), 0.2, 0.1)],       # every prior is another one's rate
    'api-prior-per-size': [((2, 2), 0.3, 0.05), ((2, 3), 0.05, 0.3), ((2, 3), 0.3, 0.3)],
}


def build_api_batch(variant, out, f):
    from panqec.codes import Toric2DCode
    from panqec.decoders import MatchingDecoder
    from panqec.error_models import PauliErrorModel
    from panqec.simulation import BatchSimulation, DirectSimulation
    batch = BatchSimulation(out, label='c12', save_frequency=f)
    noise = PauliErrorModel(*DEPOL)
    codes = {}
    for size, rate, prior in API_SPECS[variant]:
        code = codes.setdefault(size, Toric2DCode(*size))
        batch.append(DirectSimulation(code, noise, MatchingDecoder(code, noise, prior), rate, verbose=False))
    return batch


def spec_of(variant):
    return make_spec(*spec_params(variant))


def idents_of(variant):
    if variant in API_SPECS:      # a simulation is identified by the rate it simulates, whatever the prior
        return [make_ident('Toric2DCode', size, 'PauliErrorModel', DEPOL, 'MatchingDecoder', rate)
                for size, rate, _prior in API_SPECS[variant]]
    sizes, rates, decoder, noise = spec_params(variant)
    return [make_ident('Toric2DCode', s, 'PauliErrorModel', noise, decoder, r) for s in sizes for r in rates]


def ident_of_sim(sim):
    return make_ident(type(sim.code).__name__, sim.code.size, type(sim.error_model).__name__,
                      sim.error_model.direction, type(sim.decoder).__name__, sim.error_rate)


def ident_of_record(rec):
    try:
        inp = rec['inputs']
        cp = inp['code']['parameters']
        size = [cp[k] for k in ('L_x', 'L_y', 'L_z') if cp.get(k) is not None] if isinstance(cp, dict) \
            else list(cp)
        ep = inp['error_model']['parameters']
        noise = [ep['r_x'], ep['r_y'], ep['r_z']] if isinstance(ep, dict) else list(ep)[:3]
        return make_ident(inp['code']['name'], size, inp['error_model']['name'], noise,
                          inp['decoder']['name'], inp['error_rate'])
    except Exception:
        return 'unparsed:' + hashlib.sha1(json.dumps(rec.get('inputs'), sort_keys=True, default=str)
                                          .encode()).hexdigest()[:10]


def norm_results(res):
    """Normal form of one simulation's results (from a file record or from memory)."""
    def rows(v):
        return [tuple(int(x) for x in row) for row in v]
    return {'n_runs': int(res.get('n_runs', -1)),
            'effective_error': rows(res.get('effective_error', [])),
            'success': [bool(x) for x in res.get('success', [])],
            'codespace': [bool(x) for x in res.get('codespace', [])]}


LISTS = ('effective_error', 'success', 'codespace')


NAME_FORMS = ['x.json', 'x.json.gz', 'x.gz', 'a.b.json.gz', 'a.b.json', 'noext']


def out_name(container):
    """'json' / 'gz' are the two standard names; 'name:<file name>' is any other output file name."""
    if container.startswith('name:'):
        return container[5:]
    return 'o.json' if container == 'json' else 'o.json.gz'


def ref_load(data, container):
    """Reference reader of a results file: list of records, or raises."""
    if container == 'gz' or (container.startswith('name:') and data[:2] == b'\x1f\x8b'):
        # (for a free-form name the property does not say which encoding the file has: look at the magic)
        data = gzip.decompress(data)
    recs = json.loads(data.decode('utf-8'))
    if not isinstance(recs, list):
        raise ValueError('not a list')
    return recs


def ref_dump(recs, container):
    data = json.dumps(recs).encode('utf-8')
    return gzip.compress(data, mtime=0) if container == 'gz' else data


def parse_save(data, container):
    """{ident: normalised results} of a completed save (None if there is none / it is unreadable)."""
    if data is None:
        return None
    try:
        recs = ref_load(data, container)
        return {ident_of_record(r): norm_results(r['results']) for r in recs}
    except Exception:
        return None


# ----------------------------------------------------------------------------- deterministic environment
class DetEnv:
    """Trial outcomes = f(global trial serial); frozen clocks so that file bytes are reproducible."""

    def __init__(self, box):
        self.box = box

    def __enter__(self):
        self.saved = (_np.random.default_rng, _datetime_mod.datetime, _time_mod.time)
        real_rng, real_dt = self.saved[0], self.saved[1]
        box = self.box
        tick = [0]

        def default_rng(seed=None):
            if seed is None:
                s = box[0]
                box[0] += 1
                return real_rng(SEED_BASE + s)
            return real_rng(seed)

        class FrozenDateTime(real_dt):
            @classmethod
            def now(cls, tz=None):
                tick[0] += 1
                return real_dt(2026, 1, 1) + _datetime_mod.timedelta(milliseconds=tick[0])

        _np.random.default_rng = default_rng
        _datetime_mod.datetime = FrozenDateTime
        _time_mod.time = lambda: 1767225600.0
        # tempfile draws names from a private random sequence; GzipFile stores the name of the file it
        # writes in its header, so random temp names would make file bytes irreproducible
        self.names = getattr(tempfile, '_name_sequence', self)
        if self.names is not self:
            tempfile._name_sequence = _DetNames()
        return self

    def __exit__(self, *exc):
        _np.random.default_rng, _datetime_mod.datetime, _time_mod.time = self.saved
        if self.names is not self:
            tempfile._name_sequence = self.names
        return False


class _DetNames:
    """Deterministic stand-in for tempfile._RandomNameSequence: unique names within one execution."""

    def __init__(self):
        self.k = 0

    def __iter__(self):
        return self

    def __next__(self):
        self.k += 1
        return 'c12t%04d' % self.k


def _exc_name(exc):
    t = type(exc)
    return t.__name__ if t.__name__ != 'error' else '%s.%s' % (t.__module__, t.__name__)


class _Null:
    def write(self, s):
        return len(s)

    def flush(self):
        pass


# ----------------------------------------------------------------------------- one live execution
class _NoPatch:
    def __enter__(self):
        return self

    def __exit__(self, *exc):
        return False


def execute(root, container, variant, n, f, serial, inject=None, trace_disk=False, observe=True,
            intrial=False, again=None):
    """One `panqec run`-equivalent execution in sandbox `root` (its files are the starting state).
    observe=False: the file system is not instrumented (a final restart only needs the trial counter).
    intrial=True: interceptable points also INSIDE a trial (before the error model's generate and before the
    decoder's decode of every simulation).
    again=m: if the injected interrupt was swallowed by run() ("Simulation paused"), run(m) is called once more
    on the SAME BatchSimulation object; rec['phase_a'] then describes the paused run, rec the continuation."""
    from panqec.simulation import read_input_dict
    fs = E.LoggedFS(root, trace_disk=trace_disk)
    fs.inject = inject
    rec = {'executed': {}, 'mem': {}, 'idents': [], 'raised': None, 'hard': False}
    box = [serial]
    out = os.path.join(root, out_name(container))
    old_stdout = sys.stdout
    sys.stdout = _Null()
    batch = None
    # cyclic garbage (a leaked GzipFile is one) is finalised at a fixed moment - after the run, as at
    # interpreter exit - instead of whenever the allocation counters happen to trigger a collection
    gc_was_on = gc.isenabled()
    gc.disable()
    try:
        with DetEnv(box), (fs if observe else _NoPatch()):
            try:
                if variant in API_SPECS:
                    batch = build_api_batch(variant, out, f)
                else:
                    batch = read_input_dict(copy.deepcopy(spec_of(variant)), output_file=out, save_frequency=f)
                for sim in batch:
                    _wrap(sim, fs, rec, intrial)
                batch.run(n)
                if again is not None and fs.fired is not None:
                    rec['phase_a'] = {'executed': dict(rec['executed']), 'log_len': len(fs.log),
                                      'mem': {ident_of_sim(x): norm_results(x.results) for x in batch}}
                    for k in rec['executed']:
                        rec['executed'][k] = 0
                    batch.run(again)
            except E.HardStop:
                rec['hard'] = True
            except E.FSModelError:
                raise
            except BaseException as exc:
                if isinstance(exc, KeyboardInterrupt) and fs.fired is None:
                    raise
                rec['raised'] = [_exc_name(exc), str(exc)[:160]]
            if batch is not None:
                for sim in batch:
                    rec['mem'][ident_of_sim(sim)] = norm_results(sim.results)
    finally:
        sys.stdout = old_stdout
        if gc_was_on:
            gc.enable()
    batch = None
    sim = None
    E.settle()                       # leaked writers flush and close now, before the disk is read
    done = sum(rec['executed'].values()) + sum(rec.get('phase_a', {}).get('executed', {}).values())
    aborted = (box[0] - serial) - done        # a trial interrupted inside has drawn its generator already
    if aborted != 0 and not (aborted == 1 and intrial and fs.fired is not None):
        raise RuntimeError('trial accounting: %d run() trials but %d generator draws' % (done, box[0] - serial))
    rec['log'] = fs.log
    rec['fired'] = fs.fired
    rec['disk_trace'] = fs.disk_trace
    return rec


def _mark_before(obj, name, fs, label):
    """obj.name(...) becomes an interceptable point (instance attribute; objects may be shared: wrap once)."""
    if getattr(obj, '_c12_marked_' + name, None) is fs:
        return
    orig = getattr(obj, name)

    def marked(*a, **kw):
        fs.mark(label)
        return orig(*a, **kw)
    setattr(obj, name, marked)
    setattr(obj, '_c12_marked_' + name, fs)


def _wrap(sim, fs, rec, intrial=False):
    if intrial:
        _mark_before(sim.error_model, 'generate', fs, 'in-trial:generate')
        _mark_before(sim.decoder, 'decode', fs, 'in-trial:decode')
    ident = ident_of_sim(sim)
    if ident in rec['executed']:
        raise RuntimeError('two simulations with identity %s' % ident)
    rec['idents'].append(ident)
    rec['executed'][ident] = 0
    orig = sim.run

    def run(k, *a, **kw):
        fs.mark('trial')
        r = orig(k, *a, **kw)
        rec['executed'][ident] += k
        fs.mark('trial-done')
        return r
    sim.run = run


# ----------------------------------------------------------------------------- states and stops
def digest_lineage(lineage):
    return hashlib.sha1(json.dumps(lineage, sort_keys=True).encode()).hexdigest()


def digest_state(image, out_rel, b0, lineage_digest):
    h = hashlib.sha1()
    data = image.get(out_rel)
    h.update(b'<absent>' if data is None else b'file:' + data)
    for data in sorted(v for k, v in image.items() if k != out_rel):
        h.update(b'|other|' + data)
    h.update(b'|b0|' + (b0 if b0 is not None else b'<none>'))
    h.update(lineage_digest.encode())
    return h.hexdigest()[:16]


class Sandbox:
    def __init__(self):
        self.base = tempfile.mkdtemp(prefix='c12_', dir='/dev/shm' if os.path.isdir('/dev/shm') else None)
        self.k = 0

    def fresh(self, image):
        self.k += 1
        d = os.path.join(self.base, 'x%d' % self.k)
        os.mkdir(d)
        E.materialise(image, d)
        return d

    def drop(self, d):
        shutil.rmtree(d, ignore_errors=True)

    def close(self):
        shutil.rmtree(self.base, ignore_errors=True)


class Cum(dict):
    """{ident: normalised results}: for every simulation the longest record any completed save of the
    history so far has held (a later completed save replaces it only if it extends it).  This is what a
    restart must keep: a completed save that drops or shrinks a record loses trials."""
    _dg = None

    @property
    def dg(self):
        if self._dg is None:
            self._dg = hashlib.sha1(json.dumps(self, sort_keys=True).encode()).hexdigest()
        return self._dg


def extend_cum(cum, save_bytes, container):
    p = parse_save(save_bytes, container)
    if not p:
        return cum
    out = Cum(cum)
    for ident, st in p.items():
        old = out.get(ident)
        if old is None or all(st[k][:len(old[k])] == old[k] for k in LISTS):
            out[ident] = st
    return out


def cum_of(start):
    """Cumulative save of a start state (image, b0, lineage[, cum])."""
    return start[3] if len(start) > 3 and start[3] is not None else Cum()


def latest_save(saves, before, fallback):
    best = fallback
    for idx, data in saves:
        if idx < before:
            best = data
    return best


def stops_of_run(sb, container, variant, n, f, start, families, tier_offsets, serial, shard=None):
    """All stop states of one run that starts from state `start` = (image, b0 bytes, lineage).
    Yields dicts {stop, where, image, b0, lineage, idx}.  Deterministic order; with shard = (s, m) only
    the stops whose running index is congruent s mod m are produced (the others are not executed)."""
    out_rel = out_name(container)
    idx = -1

    def mine(i):
        return shard is None or i % shard[1] == shard[0]
    image0, b0_0, lineage0 = start[:3]
    cum0 = cum_of(start)
    d = sb.fresh(image0)
    probe = execute(d, container, variant, n, f, serial, trace_disk='kill' in families)
    image_end = E.read_image(d)
    sb.drop(d)
    if probe['raised'] is not None:
        yield {'stop': 'none', 'where': {'probe-raised': probe['raised']}, 'probe_raised': probe['raised']}
        return
    log = probe['log']
    if E.check_model(log, image0) != image_end:
        raise E.FSModelError('replay of the op log does not reproduce the sandbox at the end of the run')
    saves = E.completed_saves(log, out_rel)
    sess = E.sessions(log)
    classes = {h: E.offset_classes(s, json_depth=tier_offsets.get('json_depth', 3)) for h, s in sess.items()}
    lineage_full = merge_lineage(lineage0, probe['mem'])
    cums = []                   # cums[k] = cumulative save after the k-th completed save of this run
    for _i, data in saves:
        cums.append(extend_cum(cums[-1] if cums else cum0, data, container))

    def cum_before(i):
        best = cum0
        for k, (sidx, _d) in enumerate(saves):
            if sidx < i:
                best = cums[k]
        return best

    if 'kill' in families:
        use = None if tier_offsets['kill'] == 'all' else classes
        open_at = _open_sessions(log)
        ldg = digest_lineage(lineage_full)
        seen = set()           # over ALL crash states of this run, so that distinct ones are counted once
        #                        whichever shard executes them

        def fresh(image, b0, cum):
            dg = digest_state(image, out_rel, b0, ldg + cum.dg)
            new = dg not in seen
            seen.add(dg)
            return dg, new
        for i, j, image in E.crash_images(log, image0, use):
            idx += 1
            b0 = latest_save(saves, i, b0_0)
            cum = cum_before(i)
            dg, new = fresh(image, b0, cum)
            if not mine(idx):
                continue
            in_write = j > 0 or open_at[i]
            where = {'log_index': i, 'byte_offset_in_write': j,
                     'event': log[i]['k'] if i < len(log) else 'end', 'log_len': len(log)}
            if i < len(log) and log[i]['k'] == 'write':
                s = sess[log[i]['h']]
                start_off = [w for w in s['writes'] if w[0] == i][0][1]
                where['offset_in_file'] = start_off + j
                where['file_len_when_complete'] = len(s['content'])
            yield {'stop': 'kill-in-write' if in_write else 'between-trials', 'where': where, 'idx': idx,
                   'image': image, 'b0': b0, 'cum': cum, 'lineage': lineage_full, 'digest': dg, 'first': new}

        # the same kill points with user-space buffering as it really was in this execution
        ord2idx = {}
        for i, ev in enumerate(log):
            if ev.get('n') is not None:
                ord2idx.setdefault(ev['n'], i)
        prev = None
        for n_ord, disk in probe['disk_trace'] + [(None, image_end)]:
            if disk == prev:
                continue
            prev = disk
            idx += 1
            i = ord2idx.get(n_ord, len(log))
            b0 = latest_save(saves, i, b0_0)
            cum = cum_before(i)
            dg, new = fresh(disk, b0, cum)
            if not mine(idx):
                continue
            yield {'stop': 'kill-in-write' if open_at[i] else 'between-trials', 'idx': idx,
                   'where': {'log_index': i, 'event': log[i]['k'] if i < len(log) else 'end',
                             'log_len': len(log), 'crash_model': 'bytes as really on disk (buffered writes)'},
                   'image': disk, 'b0': b0, 'cum': cum, 'lineage': lineage_full, 'digest': dg, 'first': new}

    live = []
    if 'between' in families:
        for ev in log:
            if ev['k'] == 'mark' and not ev['p'].startswith('in-trial'):
                live.append(('between-trials', E.Injection(ev['n'], 'before', 0, E.HardStop), ev['p']))
    if 'interrupt' in families:
        mode = tier_offsets['interrupt'][container]
        iclasses = classes
        if 'interrupt_json_depth' in tier_offsets:
            iclasses = {h: E.offset_classes(x, json_depth=tier_offsets['interrupt_json_depth'])
                        for h, x in sess.items()}
        pts = E.interrupt_points(log, iclasses if mode == 'classes' else None, mode)
        if tier_offsets.get('load_phase_only'):
            # the part of the run that reads the results file: everything up to the first trial boundary
            # (the whole run if it executes no trial)
            marks = [ev['n'] for ev in log if ev['k'] == 'mark']
            last = marks[0] if marks else max([p[0] for p in pts] or [0])
            pts = [p for p in pts if p[0] <= last or p[3] == 'mark']      # ... and every trial boundary
        for (n_ord, phase, off, kind) in pts:
            live.append(('interrupt', E.Injection(n_ord, phase, off, KeyboardInterrupt), kind))
    for stop, inj, kind in live:
        idx += 1
        if not mine(idx):
            continue
        d = sb.fresh(image0)
        rec = execute(d, container, variant, n, f, serial, inject=inj)
        image = E.read_image(d)
        in_place = bool(tier_offsets.get('in_place'))
        if not in_place:
            sb.drop(d)
        if rec['fired'] is None:
            raise RuntimeError('injection point %s was not reached' % inj.as_dict())
        if stop == 'between-trials':
            model = E.check_model(rec['log'], image0)
            if model != image:
                raise E.FSModelError('live disk after a hard stop differs from the replay of its log')
        sv = E.completed_saves(rec['log'], out_rel)
        cum = cum0
        for _i, data in sv:
            cum = extend_cum(cum, data, container)
        st = {'stop': stop, 'where': dict(inj.as_dict(), event=kind, first_run_raised=rec['raised']),
              'idx': idx, 'image': image, 'b0': latest_save(sv, len(rec['log']) + 1, b0_0), 'cum': cum,
              'lineage': merge_lineage(lineage0, rec['mem'])}
        if in_place:
            # the restart happens in this very directory, in this very process, on the untouched files:
            # the "same Python session" situation (module-level state of the library survives the stop)
            st['dir'] = d
        yield st
        if in_place:
            sb.drop(d)


def _open_sessions(log):
    """open_at[i] = some write handle is open in the state before log event i (i = 0..len)."""
    out = []
    cur = set()
    for ev in log:
        out.append(bool(cur))
        if ev['k'] == 'open':
            cur.add(ev['h'])
        elif ev['k'] in ('close', 'finalise'):
            cur.discard(ev['h'])
    out.append(bool(cur))
    return out


def merge_lineage(old, mem):
    """{ident: [histories]} - every list of trials a simulation has really held in memory at the end of
    some run of this history.  A restart may only adopt a prefix of one of them."""
    out = {k: list(v) for k, v in old.items()}
    for ident, st in mem.items():
        h = {k: [list(r) if isinstance(r, tuple) else r for r in st[k]] for k in LISTS}
        if min(len(h[k]) for k in LISTS) == 0:
            continue
        if h not in out.setdefault(ident, []):
            out[ident].append(h)
    return out


# ----------------------------------------------------------------------------- restart + oracle
def restart_and_judge(sb, container, variant2, n2, f, state, serial):
    """Restart on the stop state; returns (violations [(kind, exc, detail)], outcome digest, record)."""
    out_rel = out_name(container)
    d = state.get('dir') or sb.fresh(state['image'])
    rec = execute(d, container, variant2, n2, f, serial, observe=False)
    image = E.read_image(d)
    if 'dir' not in state:
        sb.drop(d)
    must_keep = state.get('cum')
    if must_keep is None:
        must_keep = parse_save(state['b0'], container) or {}
    viol = judge(container, variant2, n2, must_keep, state['lineage'], rec, image.get(out_rel))
    ok_digest = 'ok' if not viol else '+'.join(sorted({v[0] + (':' + v[1] if v[1] else '') for v in viol}))
    adopted = ','.join(str(n2 - rec['executed'].get(i, 0)) for i in idents_of(variant2))
    return viol, '%s|a=%s' % (ok_digest, adopted), rec, image


def judge(container, variant2, n2, b0, lineage, rec, final_bytes, final_state=None):
    """final_state: {ident: normalised results} to judge instead of the file (used when a continuation on the
    same object had nothing left to execute and therefore wrote nothing)."""
    V = []
    want = idents_of(variant2)
    if rec['raised'] is not None:
        return [('restart-raises', rec['raised'][0], {'message': rec['raised'][1]})]
    if sorted(rec['idents']) != sorted(want):
        raise RuntimeError('spec expansion differs from the reference (C13 matter): %s vs %s'
                           % (rec['idents'], want))
    try:
        recs = ref_load(final_bytes, container) if final_bytes is not None and final_state is None else None
    except Exception as exc:
        return [('final-unreadable', type(exc).__name__,
                 {'message': 'results file unreadable after a restart that returned normally'})]
    if recs is None and final_state is None:
        return [('length-mismatch', None, {'message': 'no results file after the restart'})]
    final = dict(final_state or {})
    for r in recs or []:
        ident = ident_of_record(r)
        if ident in final:
            V.append(('duplicated', None, {'sim': ident, 'message': 'two records for one simulation'}))
        final[ident] = norm_results(r.get('results', {}))
    if final_state is None and any(i not in final for i in want):
        # the inputs recorded on disk must identify every simulation (code, noise, decoder, SIMULATED rate)
        V.append(('wrong-identity', None, {
            'message': 'the inputs recorded in the results file do not identify the simulations that wrote them',
            'simulations': want, 'records_in_file': [ident_of_record(r) for r in recs or []][:8]}))
    for ident in want:
        fin = final.get(ident)
        if fin is None:
            V.append(('length-mismatch', None, {'sim': ident, 'message': 'no record in the final file'}))
            continue
        lens = [len(fin[k]) for k in LISTS]
        if fin['n_runs'] != n2 or any(x != n2 for x in lens):
            V.append(('length-mismatch', None, {'sim': ident, 'n_runs': fin['n_runs'], 'list_lengths': lens,
                                                'requested': n2}))
            continue
        marked = any(MARK in row for row in fin['effective_error'])
        if marked:
            V.append(('adopted-foreign', None, {'sim': ident, 'message': 'planted marker outcome in final lists'}))
        e = rec['executed'].get(ident, 0)
        a = n2 - e
        saved = b0.get(ident)
        l0 = 0
        if saved is not None:
            l0 = min(len(saved[k]) for k in LISTS)
            if a < l0:
                V.append(('lost-trials', None, {
                    'sim': ident, 'in_last_completed_save': l0, 'kept': max(a, 0), 'executed_by_restart': e,
                    'requested': n2}))
                continue
            if any(fin[k][:l0] != saved[k][:l0] for k in LISTS):
                V.append(('lost-trials', None, {'sim': ident, 'message': 'saved prefix changed',
                                                'in_last_completed_save': l0}))
                continue
        if a < 0:
            V.append(('duplicated', None, {'sim': ident, 'message': 'more trials executed than requested',
                                           'executed_by_restart': e, 'requested': n2}))
            continue
        hists = lineage.get(ident) or []
        have = max([min(len(h[k]) for k in LISTS) for h in hists] or [0])
        genuine = a == 0 or any(
            a <= min(len(h[k]) for k in LISTS) and all(
                [tuple(x) if isinstance(x, list) else x for x in h[k][:a]] == fin[k][:a] for k in LISTS)
            for h in hists)
        if not genuine:
            kind = 'adopted-foreign' if (have == 0 or marked) else 'duplicated'
            if not (kind == 'adopted-foreign' and marked):
                V.append((kind, None, {
                    'sim': ident, 'adopted_without_execution': a, 'really_produced_before_stop': have,
                    'in_last_completed_save': l0, 'executed_by_restart': e}))
            continue
        mem = rec['mem'].get(ident)
        if mem is None or any(mem[k] != fin[k] for k in LISTS):
            V.append(('duplicated', None, {'sim': ident,
                                           'message': 'final file differs from the lists in memory at exit'}))
    return V


# ----------------------------------------------------------------------------- planted foreign files
def planted_file(sb, container, foreign_variant, n_p, f):
    """A results file really produced by panqec for a foreign specification; every record whose identity
    is not part of the base specification gets impossible marker outcomes. Returns (bytes, lineage)."""
    d = sb.fresh({})
    rec = execute(d, container, foreign_variant, n_p, f, serial=500000)
    image = E.read_image(d)
    sb.drop(d)
    if rec['raised'] is not None:
        raise RuntimeError('could not produce the foreign file: %s' % rec['raised'])
    data = image.get(out_name(container))
    got = parse_save(data, container)
    if got is None or any(st['n_runs'] != n_p or any(len(st[k]) != n_p for k in LISTS) for st in got.values()) \
            or sorted(got) != sorted(idents_of(foreign_variant)):
        # an uninterrupted run from scratch returned normally without leaving n_p trials in the file
        return None, {'requested': n_p, 'spec': foreign_variant, 'file_bytes': None if data is None else len(data),
                      'in_file': None if got is None else {i: st['n_runs'] for i, st in got.items()}}
    recs = ref_load(data, container)
    mine = set(idents_of('base'))
    legit = {}
    for r in recs:
        ident = ident_of_record(r)
        if ident in mine:
            legit[ident] = rec['mem'][ident]
            continue
        res = r['results']
        k = len(res['effective_error'])
        res['effective_error'] = [[MARK] * len(row) for row in res['effective_error']]
        res['success'] = [False] * k
        res['codespace'] = [False] * k
    return ref_dump(recs, container), merge_lineage({}, legit)


# ----------------------------------------------------------------------------- cases
TIER_OFFSETS = {
    'quick': {'kill': 'classes', 'interrupt': {'json': 'classes', 'gz': 'classes'}, 'interrupt_json_depth': 2},
    'thorough': {'kill': 'all', 'interrupt': {'json': 'mid', 'gz': 'all'}},
}
DEPTH2_OFFSETS = {'kill': 'classes', 'interrupt': {'json': 'classes', 'gz': 'classes'}, 'json_depth': 2}
SHARDS = {
    'quick': {('kill', 'json'): 2, ('kill', 'gz'): 1, ('interrupt', 'json'): 1, ('interrupt', 'gz'): 1,
              ('between', 'json'): 1, ('between', 'gz'): 1},
    'thorough': {('kill', 'json'): 16, ('kill', 'gz'): 4, ('interrupt', 'json'): 8, ('interrupt', 'gz'): 4,
                 ('between', 'json'): 1, ('between', 'gz'): 1, ('depth2', 'json'): 4, ('depth2', 'gz'): 2},
}


def cases(tier, seed):
    b = BOUNDS[tier]
    out = []
    for variant in b['plant']:
        for container in b['containers']:
            out.append({'family': 'plant', 'container': container, 'foreign': variant, 'tier': tier,
                        'save_frequency': b['save_frequency']})
    for f in b['save_frequency']:
        for container in b['containers']:
            out.append({'family': 'resume', 'container': container, 'save_frequency': f,
                        'n_pairs': b['n_pairs'], 'spec2': b['spec2'], 'tier': tier})
            out.append({'family': 'grow', 'container': container, 'save_frequency': f,
                        'n_pairs': b['n_pairs'], 'tier': tier})
            out.append({'family': 'pause', 'container': container, 'save_frequency': f,
                        'n_pairs': b['n_pairs'], 'tier': tier})
            for variant in sorted(API_SPECS):
                out.append({'family': 'api', 'container': container, 'save_frequency': f, 'base': variant,
                            'grown': [variant], 'n_pairs': b['n_pairs'], 'tier': tier})
            out.append({'family': 'neighbours', 'container': container, 'save_frequency': f,
                        'n_pairs': b['n_pairs'], 'tier': tier})
            out.append({'family': 'splitting', 'container': container, 'save_frequency': f,
                        'rates': SPLITTING_RATES, 'n_pairs': SPLITTING_PAIRS, 'tier': tier})
        for name in NAME_FORMS:
            out.append({'family': 'names', 'container': 'name:' + name, 'save_frequency': f, 'base': 'base',
                        'grown': ['same', 'rate'], 'refusal_ok': True, 'n_pairs': b['n_pairs'], 'tier': tier})
    fams = ['between', 'kill', 'interrupt'] + (['depth2'] if b['depth'] >= 2 else [])
    for fam in fams:
        for (n1, n2) in b['n_pairs']:
            for f in b['save_frequency']:
                for spec2 in b['spec2']:
                    for container in b['containers'][::-1]:
                        m = SHARDS[tier][(fam, container)]
                        for s in range(m):
                            out.append({'family': fam, 'container': container, 'n1': n1, 'n2': n2,
                                        'save_frequency': f, 'spec2': spec2, 'shard': s, 'of': m, 'tier': tier})
    # one case of every (family, container) first, so that the samples written to the evidence file show
    # every kind of history; otherwise simplest first
    first = {}
    for i, c in enumerate(out):
        first.setdefault((c['family'], c['container']), i)
    lead = sorted(first.values(), key=lambda i: (out[i]['container'] != 'json', i))
    return [out[i] for i in lead] + [c for i, c in enumerate(out) if i not in set(lead)]


def eval_case(case):
    import panqec.simulation  # noqa: F401  (heavy imports happen before the heap is frozen)
    E.freeze_heap_once()
    sb = Sandbox()
    try:
        if case['family'] == 'plant':
            return _eval_plant(case, sb)
        if case['family'] == 'depth2':
            return _eval_depth2(case, sb)
        if case['family'] == 'resume':
            return _eval_resume(case, sb)
        if case['family'] in ('grow', 'api', 'names'):
            return _eval_grow(case, sb)
        if case['family'] == 'neighbours':
            return _eval_neighbours(case, sb)
        if case['family'] == 'splitting':
            return _eval_splitting(case, sb)
        if case['family'] == 'pause':
            return _eval_pause(case, sb)
        return _eval_depth1(case, sb)
    finally:
        sb.close()


class _Acc:
    def __init__(self, case):
        self.case = case
        self.res = {'evals': 0, 'nontrivial': 0, 'violations': [], 'outcomes': [], 'samples': [],
                    'skipped': 0, 'extra': {'stop_points': 0, 'restarts': 0, 'restarts_reused_same_state': 0,
                                            'violations_total': 0}}
        self.states = set()
        self.outcomes = set()
        self.emitted = set()
        self.cache = {}
        self.fallback_sample = True

    def key(self, kind, stop, exc, f):
        return {'kind': kind, 'container': self.case['container'], 'stop': stop, 'exc': exc,
                'save_frequency': f}

    def add(self, kind, stop, exc, f, detail):
        x = self.res['extra']
        x['violations_total'] += 1
        x['viol_' + kind] = x.get('viol_' + kind, 0) + 1
        key = self.key(kind, stop, exc, f)
        ck = json.dumps(key, sort_keys=True)
        if ck in self.emitted or len(self.emitted) >= MAX_EMIT:
            return
        self.emitted.add(ck)
        self.res['violations'].append({'key': key, 'detail': detail})

    def finish(self):
        self.res['nontrivial'] = len(self.states)
        self.res['outcomes'] = sorted(self.outcomes)[:50]
        return self.res


def _judge_stop(acc, sb, case, st, variant2, n2, f, serial, depth, chain=None):
    """Restart from stop state `st` (with caching of identical states); record violations."""
    container = case['container']
    out_rel = out_name(container)
    acc.res['extra']['stop_points'] += 1
    acc.res['evals'] += 1
    nontrivial = bool(st['image']) or st['b0'] is not None
    if 'digest' in st:                    # crash image: distinctness decided over the whole run
        dg = st['digest']
        if nontrivial and st['first']:
            acc.states.add((st.get('start'), dg))
    else:                                 # live stop: other shards may reach the same state; count it in one
        dg = digest_state(st['image'], out_rel, st['b0'],
                          digest_lineage(st['lineage']) + (st['cum'].dg if st.get('cum') is not None else ''))
        m = case.get('of', 1)
        if nontrivial and (m == 1 or int(dg, 16) % m == case.get('shard', 0)):
            acc.states.add((st.get('start'), dg))
    ck = (dg, variant2, n2, f)
    if ck in acc.cache and 'dir' not in st:       # an in-place restart also depends on the process state
        acc.res['extra']['restarts_reused_same_state'] += 1
        viol, outcome = acc.cache[ck]
    else:
        viol, outcome, _rec, _img = restart_and_judge(sb, container, variant2, n2, f, st, serial)
        acc.res['extra']['restarts'] += 1
        acc.cache[ck] = (viol, outcome)
    acc.outcomes.add('%s|%s|n2=%d|%s' % (st['stop'], variant2, n2, outcome))
    if not acc.res['samples'] or acc.fallback_sample:
        smp = {'family': case['family'], 'container': container,
               'history': {'run1': [st['where'].get('planted', 'base') if isinstance(st['where'], dict)
                                    else 'base', case.get('n1')],
                           'restart': [variant2, n2], 'save_frequency': f,
                           'depth': depth},
               'stop': st['stop'], 'stopped_at': st['where'],
               'file_bytes_on_disk': None if out_rel not in st['image'] else len(st['image'][out_rel]),
               'last_completed_save_bytes': None if st['b0'] is None else len(st['b0']),
               'restart_verdict': outcome}
        good = st['b0'] is not None and st['stop'] != 'between-trials'
        if not acc.res['samples'] or good:
            acc.res['samples'] = [smp]
            acc.fallback_sample = not good
    for kind, exc, detail in viol:
        det = {'history': {'n1': case.get('n1'), 'n2': n2, 'spec2': variant2, 'depth': depth},
               'stopped_at': st['where'], 'file_bytes_on_disk': None if out_rel not in st['image']
               else len(st['image'][out_rel]),
               'other_files': sorted(k for k in st['image'] if k != out_rel)[:4],
               'last_completed_save_bytes': None if st['b0'] is None else len(st['b0'])}
        if chain is not None:
            det['first_stop'] = chain
        det.update(detail)
        acc.add(kind, st['stop'], exc, f, det)
    return viol


def _eval_depth1(case, sb):
    acc = _Acc(case)
    fam, container, f = case['family'], case['container'], case['save_frequency']
    offs = TIER_OFFSETS[case['tier']]
    for st in stops_of_run(sb, container, 'base', case['n1'], f, ({}, None, {}), {fam}, offs, serial=0,
                           shard=(case['shard'], case['of'])):
        if 'probe_raised' in st:
            acc.add('first-run-raises', 'none', st['probe_raised'][0], f, {'message': st['probe_raised'][1]})
            acc.res['evals'] += 1
            break
        _judge_stop(acc, sb, case, st, case['spec2'], case['n2'], f, serial=100000, depth=1)
    return acc.finish()


def _status_class(st, container):
    """Coarse class of a first-stop state, used to choose the representatives depth 2 starts from."""
    data = st['image'].get(out_name(container))
    if data is None:
        status = 'absent'
    elif len(data) == 0:
        status = 'empty'
    else:
        p = parse_save(data, container)
        status = 'torn' if p is None else 'ok:' + hashlib.sha1(data).hexdigest()[:10]
    return (status, None if st['b0'] is None else hashlib.sha1(st['b0']).hexdigest()[:10],
            len(st['image']) - (1 if data is not None else 0) > 0)


def _eval_depth2(case, sb):
    acc = _Acc(case)
    container, f = case['container'], case['save_frequency']
    q = DEPTH2_OFFSETS
    reps = {}
    for st in stops_of_run(sb, container, 'base', case['n1'], f, ({}, None, {}),
                           {'kill', 'between', 'interrupt'}, q, serial=0):
        if 'probe_raised' in st:
            return acc.finish()
        reps.setdefault(_status_class(st, container), st)
    acc.res['extra']['depth2_first_stop_representatives'] = len(reps)
    idx = -1
    for rep_no, st1 in enumerate(reps.values()):
        viol, _o, _rec, _img = restart_and_judge(sb, container, case['spec2'], case['n2'], f, st1, serial=100000)
        if viol:
            # already reported by the depth-1 cases; nothing sound can be chained from a violated state
            if rep_no % case['of'] == case['shard']:
                acc.res['skipped'] += 1
            continue
        start = (st1['image'], st1['b0'], st1['lineage'], st1.get('cum'))
        chain = {'stop': st1['stop'], 'where': st1['where']}
        for st2 in stops_of_run(sb, container, case['spec2'], case['n2'], f, start,
                                {'kill', 'between', 'interrupt'}, q, serial=100000):
            if 'probe_raised' in st2:
                break
            idx += 1
            if idx % case['of'] != case['shard']:
                continue
            st2['start'] = rep_no
            _judge_stop(acc, sb, case, st2, case['spec2'], case['n2'] + 1, f, serial=200000, depth=2,
                        chain=chain)
    return acc.finish()


RESUME_OFFSETS = {'kill': 'classes', 'interrupt': {'json': 'classes', 'gz': 'classes'}, 'json_depth': 2,
                  'load_phase_only': True, 'in_place': True}


def _eval_resume(case, sb):
    """run 1 completes; run 2 (a resume on the existing file) is interrupted at every interceptable point of
    its load phase - before/after every open of the results file - and stopped (KeyboardInterrupt, and a stop
    no handler sees) at every trial boundary; run 3 happens in the same process, in the same directory, on
    the files exactly as run 2 left them, goes to the same target and is judged against everything any
    completed save of runs 1 and 2 has held."""
    acc = _Acc(case)
    container, f = case['container'], case['save_frequency']
    out_rel = out_name(container)
    for (n1, n2) in case['n_pairs']:
        d = sb.fresh({})
        rec1 = execute(d, container, 'base', n1, f, serial=0)
        image1 = E.read_image(d)
        sb.drop(d)
        if rec1['raised'] is not None:
            acc.add('first-run-raises', 'none', rec1['raised'][0], f, {'message': rec1['raised'][1]})
            continue
        saves = E.completed_saves(rec1['log'], out_rel)
        cum = Cum()
        for _i, data in saves:
            cum = extend_cum(cum, data, container)
        start = (image1, latest_save(saves, len(rec1['log']) + 1, None), merge_lineage({}, rec1['mem']), cum)
        for spec2 in case['spec2']:
            sub = dict(case, n1=n1)
            chain = {'stop': 'none (run 1 completed %d trials)' % n1}
            for st2 in stops_of_run(sb, container, spec2, n2, f, start, {'interrupt', 'between'},
                                    RESUME_OFFSETS, serial=100000):
                if 'probe_raised' in st2:
                    acc.add('restart-raises', 'none', st2['probe_raised'][0], f,
                            {'message': st2['probe_raised'][1]})
                    break
                st2['start'] = '%d-%d-%s' % (n1, n2, spec2)
                _judge_stop(acc, sb, sub, st2, spec2, n2, f, serial=200000, depth=2, chain=chain)
    return acc.finish()


GROWN = ('base2+rate', 'base2+size-first', 'base2+rate-first')


def _eval_grow(case, sb):
    """run 1 on two sizes x two rates (complete, and stopped at every trial boundary for the first n-pair);
    the restart uses a specification grown so that new simulations precede existing ones in expansion order."""
    acc = _Acc(case)
    container, f = case['container'], case['save_frequency']
    out_rel = out_name(container)
    base = case.get('base', 'base2')
    grown = case.get('grown', GROWN)
    for pair_no, (n1, n2) in enumerate(case['n_pairs']):
        d = sb.fresh({})
        rec1 = execute(d, container, base, n1, f, serial=0)
        image1 = E.read_image(d)
        sb.drop(d)
        if rec1['raised'] is not None:
            if case.get('refusal_ok') and rec1['raised'][0] == 'ValueError' and out_rel not in image1:
                # an uninterrupted first run refuses this file name outright: not a name form the library
                # supports, nothing to resume
                acc.res['skipped'] += 1
                acc.res['evals'] += 1
                acc.outcomes.add('name-refused|' + out_rel)
                continue
            acc.add('first-run-raises', 'none', rec1['raised'][0], f, {'message': rec1['raised'][1]})
            continue
        saves = E.completed_saves(rec1['log'], out_rel)
        cum = Cum()
        for _i, data in saves:
            cum = extend_cum(cum, data, container)
        states = [{'stop': 'between-trials', 'where': {'run1': '%s completed %d trials' % (base, n1)},
                   'image': image1, 'b0': latest_save(saves, len(rec1['log']) + 1, None), 'cum': cum,
                   'lineage': merge_lineage({}, rec1['mem'])}]
        if pair_no == 0:
            states += list(stops_of_run(sb, container, base, n1, f, ({}, None, {}), {'between'},
                                        TIER_OFFSETS['quick'], serial=0))
        sub = dict(case, n1=n1)
        for st in states:
            st['start'] = '%s-%d' % (base, n1)
            for spec2 in grown:
                _judge_stop(acc, sb, sub, st, spec2, n2, f, serial=100000, depth=1)
    return acc.finish()


def _neighbour_damage(before, after, own):
    out = []
    for name, data in sorted(before.items()):
        if name in own:
            continue
        if name not in after:
            out.append({'file': name, 'what': 'deleted'})
        elif after[name] != data:
            out.append({'file': name, 'what': 'changed', 'bytes_before': len(data), 'bytes_after': len(after[name])})
    return out


def _eval_neighbours(case, sb):
    """Other files live next to the output file: the results of ANOTHER batch with the same stem and the other
    extension (written first), a leftover '<output>.<random>.tmp' of a killed save, an unrelated file.  This
    batch runs, is stopped (complete / at every trial boundary), is restarted; then the other batch is resumed.
    The other batch's file and the unrelated file must be byte-identical after each run of this batch (the
    leftover temporary is only an environment condition: it may be removed or left), and each batch must resume
    from its own saved prefix."""
    acc = _Acc(case)
    container, f = case['container'], case['save_frequency']
    other = 'gz' if container == 'json' else 'json'
    out_rel, other_rel = out_name(container), out_name(other)
    for pair_no, (n1, n2) in enumerate(case['n_pairs']):
        d = sb.fresh({})
        rec_o = execute(d, other, 'base', n1, f, serial=300000)
        image_o = E.read_image(d)
        sb.drop(d)
        if rec_o['raised'] is not None or other_rel not in image_o:
            acc.add('first-run-raises', 'none', (rec_o['raised'] or ['no-file'])[0], f, {'batch': other})
            continue
        cum_o = Cum()
        for _i, data in E.completed_saves(rec_o['log'], other_rel):
            cum_o = extend_cum(cum_o, data, other)
        lineage_o = merge_lineage({}, rec_o['mem'])
        neighbours = {other_rel: image_o[other_rel],
                      out_rel + '.k3v9q2x1.tmp': b'[{"results": {"n_runs": 1, "wall_ti',
                      'notes.txt': b'unrelated file that lives in the results directory\n'}
        # the leftover temporary is an environment condition only: a run may remove it or leave it, the property
        # does not protect it; the other batch's results and the unrelated file are protected
        own = {out_rel, out_rel + '.k3v9q2x1.tmp'}
        start = (dict(neighbours), None, {})
        states = []
        d = sb.fresh(neighbours)
        rec1 = execute(d, container, 'base', n1, f, serial=0)
        image1 = E.read_image(d)
        sb.drop(d)
        if rec1['raised'] is not None:
            acc.add('first-run-raises', 'none', rec1['raised'][0], f, {'message': rec1['raised'][1]})
            continue
        saves = E.completed_saves(rec1['log'], out_rel)
        cum = Cum()
        for _i, data in saves:
            cum = extend_cum(cum, data, container)
        states.append({'stop': 'between-trials', 'where': {'run1': 'completed %d trials' % n1}, 'image': image1,
                       'b0': latest_save(saves, len(rec1['log']) + 1, None), 'cum': cum,
                       'lineage': merge_lineage({}, rec1['mem'])})
        if pair_no == 0:
            states += list(stops_of_run(sb, container, 'base', n1, f, start, {'between'}, TIER_OFFSETS['quick'],
                                        serial=0))
        for st in states:
            acc.res['evals'] += 1
            acc.res['extra']['stop_points'] += 1
            hist = {'n1': n1, 'n2': n2, 'neighbours': sorted(neighbours), 'this_batch': out_rel,
                    'other_batch': other_rel}
            for dmg in _neighbour_damage(neighbours, st['image'], own):
                acc.add('neighbour-damaged', st['stop'], None, f, dict(dmg, history=hist, by='run 1',
                                                                        stopped_at=st['where']))
            viol, outcome, _rec, image2 = restart_and_judge(sb, container, 'same', n2, f, st, serial=100000)
            acc.res['extra']['restarts'] += 1
            for kind, exc, detail in viol:
                acc.add(kind, st['stop'], exc, f, dict(detail, history=hist, batch=out_rel, stopped_at=st['where']))
            for dmg in _neighbour_damage(st['image'], image2, own):
                acc.add('neighbour-damaged', st['stop'], None, f, dict(dmg, history=hist, by='restart',
                                                                        stopped_at=st['where']))
            # now the other batch is resumed, next to this batch's finished file
            st_o = {'stop': st['stop'], 'where': st['where'], 'image': image2, 'b0': image_o[other_rel],
                    'cum': cum_o, 'lineage': lineage_o}
            viol_o, outcome_o, _rec, image3 = restart_and_judge(sb, other, 'same', n2, f, st_o, serial=200000)
            acc.res['extra']['restarts'] += 1
            for kind, exc, detail in viol_o:
                acc.add(kind, st['stop'], exc, f, dict(detail, history=hist, batch=other_rel,
                                                       message2='the other batch, resumed after this one ran',
                                                       stopped_at=st['where']))
            for dmg in _neighbour_damage(image2, image3, {other_rel, out_rel + '.k3v9q2x1.tmp'}):
                acc.add('neighbour-damaged', st['stop'], None, f, dict(dmg, history=hist, by='resume of the other batch',
                                                                        stopped_at=st['where']))
            acc.states.add((n1, n2, json.dumps(st['where'], sort_keys=True)))
            acc.outcomes.add('neighbours|%s|%s|other:%s' % (st['stop'], outcome, outcome_o))
            if not acc.res['samples']:
                acc.res['samples'] = [{'family': 'neighbours', 'this_batch': out_rel, 'history': hist,
                                       'save_frequency': f, 'stopped_at': st['where'],
                                       'verdict': outcome, 'other_batch_verdict': outcome_o}]
    return acc.finish()


# ----------------------------------------------------------------------------- splitting-method batches
SPLITTING_RATES = [[0.2], [0.2, 0.1], [0.3, 0.1, 0.2]]
SPLITTING_PAIRS = [[3, 3], [3, 5]]
# On the tree this family was written against, every restart of a splitting batch raised before it resumed
# (D25: ValueError in _find_current_simulation for two or more rates, AttributeError on append for one rate);
# fixed in /repo (c8c50ea, known_findings.json).  A raising restart of a splitting batch is a violation.
SPLITTING_RESTART_RAISES_IS_VIOLATION = True


def splitting_spec(rates, k_init=2):
    spec = make_spec([[2, 2]], rates)
    spec['ranges']['method'] = {'name': 'splitting', 'parameters': {'n_init_runs': k_init}}
    return spec


def run_splitting(root, container, rates, n, f, seed, stop_after=None):
    """One execution of a splitting-method batch; optional stop (no handler sees it) after `stop_after` calls of
    simulation.run.  Returns {'raised', 'hard', 'executed': [per simulation], 'mem': [...]}."""
    from panqec.simulation import read_input_dict
    out = os.path.join(root, out_name(container))
    rec = {'raised': None, 'hard': False, 'executed': [], 'mem': []}
    calls = [0]
    old_stdout, state = sys.stdout, _np.random.get_state()
    sys.stdout = _Null()
    _np.random.seed(seed)            # the Metropolis chain draws from numpy's global generator
    batch = None
    try:
        with DetEnv([0]):
            try:
                batch = read_input_dict(copy.deepcopy(splitting_spec(rates)), output_file=out, save_frequency=f)
                for i, sim in enumerate(batch):
                    rec['executed'].append(0)

                    def run(k, _orig=sim.run, _i=i):
                        r = _orig(k)
                        rec['executed'][_i] += k
                        calls[0] += 1
                        if stop_after is not None and calls[0] == stop_after:
                            raise E.HardStop('stop after %d trials' % calls[0])
                        return r
                    sim.run = run
                batch.run(n)
            except E.HardStop:
                rec['hard'] = True
            except Exception as exc:
                rec['raised'] = [_exc_name(exc), str(exc)[:160]]
            if batch is not None:
                for sim in batch:
                    rec['mem'].append(norm_splitting(sim.results))
    finally:
        sys.stdout = old_stdout
        _np.random.set_state(state)
    batch = None
    E.settle()
    return rec


def norm_splitting(res):
    return {'n_runs': int(res.get('n_runs', -1)),
            'lists': [[float(x) for x in chain] for chain in res.get('log_p_errors', [])]}


def load_splitting(root, container):
    p = os.path.join(root, out_name(container))
    if not os.path.exists(p):
        return None
    with E.real_open(p, 'rb') as fh:
        recs = ref_load(fh.read(), container)
    return [{'rates': [float(x) for x in r['inputs'].get('error_rates', [])],
             'method': r['inputs'].get('method', {}).get('name'), **norm_splitting(r['results'])} for r in recs]


def judge_splitting(rates, n, recs, saved, rec):
    """After a run to `n` that returned normally: one record, n_runs == n, one list per rate, each n long; what
    the last completed save held is an unchanged prefix and was not executed again."""
    V = []
    if recs is None or len(recs) != 1:
        return [('length-mismatch', None, {'message': 'expected one splitting record in the file',
                                           'records': None if recs is None else len(recs)})]
    r = recs[0]
    lens = [len(x) for x in r['lists']]
    if sorted(r['rates']) != sorted(float(x) for x in rates) or r['method'] != 'splitting':
        V.append(('wrong-identity', None, {'recorded_rates': r['rates'], 'specified': list(rates)}))
    if r['n_runs'] != n or len(lens) != len(rates) or any(x != n for x in lens):
        V.append(('length-mismatch', None, {'n_runs': r['n_runs'], 'list_lengths': lens, 'requested': n,
                                            'error_rates': len(rates)}))
        return V
    if rec['mem'] and (rec['mem'][0]['n_runs'] != r['n_runs'] or rec['mem'][0]['lists'] != r['lists']):
        V.append(('duplicated', None, {'message': 'final file differs from the lists in memory at exit'}))
    if saved:
        l0 = min([len(x) for x in saved[0]['lists']] or [0])
        e = rec['executed'][0] if rec['executed'] else 0
        if n - e < l0:
            V.append(('lost-trials', None, {'in_last_completed_save': l0, 'kept': max(n - e, 0),
                                            'executed_by_restart': e, 'requested': n}))
        elif any(a[:l0] != b[:l0] for a, b in zip(r['lists'], saved[0]['lists'])):
            V.append(('lost-trials', None, {'message': 'saved prefix changed', 'in_last_completed_save': l0}))
    return V


def _eval_splitting(case, sb):
    """Splitting-method batches (1, 2, 3 error rates): run to n1 (complete, and stopped after every trial),
    restart to n2 with fresh objects."""
    acc = _Acc(case)
    container, f = case['container'], case['save_frequency']
    x = acc.res['extra']
    x['splitting_restart_raised'] = 0
    for rates in case['rates']:
        for (n1, n2) in case['n_pairs']:
            for stop_after in [None] + list(range(1, n1)):
                d = sb.fresh({})
                rec1 = run_splitting(d, container, rates, n1, f, seed=1000 + n1, stop_after=stop_after)
                acc.res['evals'] += 1
                x['stop_points'] += 1
                hist = {'error_rates': rates, 'n1': n1, 'n2': n2, 'method': 'splitting',
                        'stopped_after_trials': stop_after}
                if rec1['raised'] is not None:
                    acc.add('first-run-raises', 'none', rec1['raised'][0], f,
                            {'message': rec1['raised'][1], 'history': hist})
                    sb.drop(d)
                    continue
                try:
                    saved = load_splitting(d, container)
                except Exception as exc:
                    acc.add('final-unreadable', 'none', type(exc).__name__, f, {'history': hist})
                    sb.drop(d)
                    continue
                if stop_after is None:
                    for kind, exc, detail in judge_splitting(rates, n1, saved, None, rec1):
                        acc.add(kind, 'none', exc, f, dict(detail, history=hist, run='uninterrupted first run'))
                acc.states.add((len(rates), n1, n2, stop_after))
                rec2 = run_splitting(d, container, rates, n2, f, seed=2000 + n2)     # fresh objects, same file
                x['restarts'] += 1
                if rec2['raised'] is not None:
                    x['splitting_restart_raised'] += 1
                    acc.outcomes.add('splitting|%d rates|restart-raises:%s' % (len(rates), rec2['raised'][0]))
                    if SPLITTING_RESTART_RAISES_IS_VIOLATION:
                        acc.add('restart-raises', 'between-trials', rec2['raised'][0], f,
                                {'message': rec2['raised'][1], 'history': hist})
                else:
                    try:
                        final = load_splitting(d, container)
                        viol = judge_splitting(rates, n2, final, saved, rec2)
                    except Exception as exc:
                        viol = [('final-unreadable', type(exc).__name__, {})]
                    acc.outcomes.add('splitting|%d rates|%s' % (len(rates), 'ok' if not viol else viol[0][0]))
                    for kind, exc, detail in viol:
                        acc.add(kind, 'between-trials', exc, f, dict(detail, history=hist, run='restart'))
                if not acc.res['samples']:
                    acc.res['samples'] = [{'family': 'splitting', 'container': container, 'save_frequency': f,
                                           'history': hist, 'file_after_run1': None if not saved else
                                           {'n_runs': saved[0]['n_runs'],
                                            'list_lengths': [len(c) for c in saved[0]['lists']]},
                                           'restart_raised': rec2['raised']}]
                sb.drop(d)
    return acc.finish()


def _eval_pause(case, sb):
    """KeyboardInterrupt INSIDE a trial (before generate / before decode of every trial of the first run) and
    at every trial boundary; panqec's run() swallows it ("Simulation paused"); then run(n2) is called again on
    the same BatchSimulation object - the continuation is judged like a restart: what completed saves held must
    be kept, what it adopts without executing must be what the paused run really held in memory."""
    acc = _Acc(case)
    container, f = case['container'], case['save_frequency']
    out_rel = out_name(container)
    for (n1, n2) in case['n_pairs']:
        d = sb.fresh({})
        probe = execute(d, container, 'base', n1, f, serial=0, intrial=True)
        sb.drop(d)
        if probe['raised'] is not None:
            acc.add('first-run-raises', 'none', probe['raised'][0], f, {'message': probe['raised'][1]})
            continue
        for ev in probe['log']:
            if ev['k'] != 'mark':
                continue
            inj = E.Injection(ev['n'], 'before', 0, KeyboardInterrupt)
            d = sb.fresh({})
            rec = execute(d, container, 'base', n1, f, serial=0, inject=inj, intrial=True, again=n2)
            image = E.read_image(d)
            sb.drop(d)
            acc.res['evals'] += 1
            acc.res['extra']['stop_points'] += 1
            a_phase = rec.get('phase_a')
            if a_phase is None:           # the interrupt escaped run() or was not swallowed: nothing to continue
                acc.outcomes.add('pause|%s|not-continued' % ev['p'])
                continue
            cum = Cum()
            for _i, data in E.completed_saves(rec['log'][:a_phase['log_len']], out_rel):
                cum = extend_cum(cum, data, container)
            wrote = E.completed_saves(rec['log'][a_phase['log_len']:], out_rel)
            final_state = None
            if not wrote and sum(rec['executed'].values()) == 0:
                # nothing was left to execute, so nothing was written: the property (which speaks about running
                # the specification again) does not say that a continuation must flush what the paused run
                # held in memory; judge the state the object holds instead of the file
                final_state = rec['mem']
                acc.res['extra']['pause_continuation_wrote_nothing'] = \
                    acc.res['extra'].get('pause_continuation_wrote_nothing', 0) + 1
            viol = judge(container, 'same', n2, cum, merge_lineage({}, a_phase['mem']), rec, image.get(out_rel),
                         final_state=final_state)
            acc.states.add((n1, n2, ev['n']))
            acc.outcomes.add('pause|%s|%s' % (ev['p'], 'ok' if not viol else '+'.join(sorted({v[0] for v in viol}))))
            where = dict(inj.as_dict(), event=ev['p'], then='run(%d) again on the same object' % n2)
            if not acc.res['samples']:
                acc.res['samples'] = [{'family': 'pause', 'container': container, 'save_frequency': f,
                                       'history': {'run1': ['base', n1], 'continued_to': n2},
                                       'stopped_at': where, 'verdict': 'ok' if not viol else viol[0][0]}]
            for kind, exc, detail in viol:
                acc.add(kind, 'interrupt', exc, f, dict(detail, history={'n1': n1, 'n2': n2, 'spec2': 'same',
                                                                           'same_object': True},
                                                         stopped_at=where))
    return acc.finish()


def _eval_plant(case, sb):
    acc = _Acc(case)
    container = case['container']
    foreign = 'f-' + case['foreign']
    for f in case['save_frequency']:
        for (n_p, n2) in ((2, 3), (3, 3), (1, 4)):
            data, lineage = planted_file(sb, container, foreign, n_p, f)
            if data is None:
                acc.res['evals'] += 1
                acc.add('length-mismatch', 'none', None, f,
                        dict(lineage, message='uninterrupted run from scratch returned normally but the file '
                                              'does not hold the requested trials'))
                continue
            st = {'stop': 'between-trials', 'where': {'planted': foreign, 'planted_trials': n_p},
                  'image': {out_name(container): data}, 'b0': data, 'lineage': lineage}
            for variant2 in ('same', 'rate'):
                _judge_stop(acc, sb, dict(case, n1=n_p), st, variant2, n2, f, serial=100000, depth=1)
    return acc.finish()
