"""C17  Reported distance d is the true code distance.

For every class and family size whose search fits the cap: exhaustive proof
that no Pauli operator of weight < d commutes with all generators and acts
non-trivially, by meet-in-the-middle over all supports of weight <=
ceil((d-1)/2) joined on equal syndromes; plus an explicit witness of weight d.
"""
import math

from mc import families as F
from mc import gf2
from mc import session

PROPERTY = 'C17'
LEVEL = 'exploration'
DESIGN_REF = 'DESIGN.md §4 C17'
TECHNIQUE = ('exhaustive enumeration of all Pauli supports of weight <= ceil((d-1)/2) (pure-X and pure-Z for CSS '
             'codes, all 3^w assignments otherwise) joined on equal syndromes (meet in the middle), which covers '
             'every operator of weight < d; witness of weight d from the listed logicals')
LEVEL_TEXT = ('The lower bound d_true >= d is decided by complete enumeration below d (every operator of weight w < d '
              'splits into two halves of weight <= ceil(w/2) with equal syndromes, all of which are in the table); '
              'the upper bound is a listed logical of weight d. Sizes whose table exceeds the cap are reported as '
              'not covered, never as verified.')
LEVEL_NOTE = ('Trusted: mc/gf2.py; non-triviality is decided by anticommutation with the listed logicals, valid by '
              'C01. CSS reduction: a non-trivial logical (x|z) of a CSS code has a non-trivial x or z part of no '
              'larger weight. Deformed codes inherit d (weight-preserving relabelling, C08).')
RULE = ('every (class, family size) with n <= bound (plus the thin lattices with a side of length 1 that the five '
        'open-boundary classes accept) whose half-weight table sum_{w<=ceil((d-1)/2)} C(n,w)[*3^w] is '
        'under the cap; one case per (class, size); non-trivial = cases with d >= 2 (a non-empty search space); '
        'evaluations = table entries enumerated; every deformed version of a covered code must report the same d; '
        'per-class sessions repeat the search for several sizes in one process; part large: a few sizes far beyond '
        'the cap whose listed logicals are heavier than 255 qubits, search-free clauses only (d >= 1, d not above '
        'the lightest listed logical; d below it is counted as undecided)')
ASSUMPTIONS = ['listed logical operators are valid (C01)', 'GF(2) reference mc/gf2.py']
BOUNDS = {'quick': {'max_n': 200, 'l_max_2d': 7, 'l_max_3d': 6, 'cap': 400000, 'l_thin': 4,
                    'large': [('Toric2DCode', [16, 17]), ('Toric2DCode', [2, 300]), ('Planar2DCode', [2, 260]), ('RotatedPlanar2DCode', [2, 257]),
                    ('Toric3DCode', [4, 16, 16]), ('Toric3DCode', [5, 13, 20]), ('Planar3DCode', [6, 16, 16]),
                    ('Planar3DCode', [2, 2, 130]), ('RotatedPlanar3DCode', [2, 2, 140]), ('XCubeCode', [2, 2, 130]),
                    ('RhombicToricCode', [2, 2, 260]), ('HollowPlanar3DCode', [3, 16, 17])]},
          'thorough': {'max_n': 400, 'l_max_2d': 9, 'l_max_3d': 6, 'cap': 3000000, 'l_thin': 6,
                       'large': [('Toric2DCode', [16, 17]), ('Toric2DCode', [2, 300]), ('Planar2DCode', [2, 260]), ('RotatedPlanar2DCode', [2, 257]),
                       ('Toric3DCode', [4, 16, 16]), ('Toric3DCode', [5, 13, 20]), ('Planar3DCode', [6, 16, 16]),
                       ('Planar3DCode', [2, 2, 130]), ('RotatedPlanar3DCode', [2, 2, 140]), ('XCubeCode', [2, 2, 130]),
                       ('RhombicToricCode', [2, 2, 260]), ('HollowPlanar3DCode', [3, 16, 17])] + [('Toric3DCode', [16, 16, 16]), ('Toric3DCode', [8, 32, 32]),
                                      ('Planar3DCode', [3, 20, 26]), ('Toric2DCode', [512, 3])]}}


def cases(tier, seed):
    b = BOUNDS[tier]
    cfgs = F.configs(b['max_n'], F.CLASSES_2D, l_max=b['l_max_2d'], deformed=False) + \
        F.configs(b['max_n'], F.CLASSES_3D, l_max=b['l_max_3d'], deformed=False)
    cfgs += F.thin_configs(b['max_n'], l_max=b['l_thin'])      # thin open-boundary lattices (a side of length 1)
    cfgs += F.ignored_parameter_configs(b['max_n'], l_max=b['l_thin'])   # Color666Planar with L_y != L_x
    out = [dict(c, cap=b['cap']) for c in cfgs]
    base = list(out)
    out += [{'part': 'session', 'cfgs': [dict(c, cap=min(b['cap'], 60000)) for c in seq]}
            for seq in session.interleave_by_size(base, 3)]
    # cross-class sessions: every class that has a given size tuple, one after the other in one process,
    # first in the listed order and then reversed (a value remembered per size must not leak between classes)
    by_size = {}
    for c in base:
        by_size.setdefault(tuple(c['size']), []).append(c)
    for size, lst in sorted(by_size.items()):
        if len(lst) >= 2 and max(size) <= 3:
            seq = [dict(c, cap=min(b['cap'], 60000)) for c in lst]
            out.append({'part': 'session', 'cfgs': seq + seq[::-1]})
    # sizes far beyond the search cap, chosen so that listed logicals get heavier than 255 qubits: only the
    # clauses that need no search are decided there (d >= 1; d not above the lightest listed logical)
    for cls, size in b['large']:
        out.append({'part': 'large', 'cls': cls, 'size': size, 'deformation': None})
    return out


def eval_large(cfg):
    res = {'evals': 1, 'nontrivial': 1, 'violations': [], 'outcomes': [], 'samples': [], 'extra': {}}
    code = F.build(cfg)
    n = code.n
    d = int(code.d)
    L = gf2.matrix_rows(code.logicals_x) + gf2.matrix_rows(code.logicals_z)
    ws = [gf2.weight(l, n) for l in L]
    wmin = min(ws)
    key = {'part': 'large', 'cls': cfg['cls'], 'size': list(cfg['size'])}
    if d < 1:
        res['violations'].append({'key': dict(key, kind='d-not-positive'),
                                  'detail': {'d': d, 'listed_logical_weights': sorted(ws)[:6], 'n': n}})
    elif d > wmin:
        res['violations'].append({'key': dict(key, kind='reported-d-exceeds-weight-of-a-listed-logical'),
                                  'detail': {'d': d, 'logical_weight': wmin}})
    elif d < wmin:
        # a lighter, unlisted logical may exist in principle; out of reach of the search at this size
        res['extra']['large_reported_d_below_listed_logicals_undecided'] = 1
    res['extra']['large_cases'] = 1
    res['outcomes'] = ['large|%s|d=%d|wmin=%d|wmax=%d' % (cfg['cls'], d, wmin, max(ws))]
    res['samples'].append({'config': F.cfg_label(cfg), 'n': n, 'd': d, 'lightest_listed': wmin, 'heaviest_listed': max(ws),
                           'covered': 'search-free clauses only'})
    return res


def table_size(n, A, per_qubit):
    return sum(math.comb(n, w) * per_qubit ** w for w in range(A + 1))


def search(cols_list, n, m, A, d):
    """cols_list[j] = list of combined ints (syndrome | effect << m) for the single-qubit operators on
    qubit j.  Enumerates every support of weight <= A.  Returns (entries, witness or None) where witness is
    a pair of half-operators whose sum has zero syndrome, non-zero logical effect and weight < d."""
    mask = (1 << m) - 1
    table = {0: {(0, 0): ()}}        # syndrome -> {(weight, effect): support}
    entries = 1
    stack = []

    def rec(start, depth, acc, supp):
        nonlocal entries
        for j in range(start, n):
            for t, c in enumerate(cols_list[j]):
                v = acc ^ c
                entries += 1
                s = v & mask
                key = (depth, v >> m)
                slot = table.get(s)
                if slot is None:
                    table[s] = {key: supp + ((j, t),)}
                elif key not in slot:
                    slot[key] = supp + ((j, t),)
                if depth < A:
                    rec(j + 1, depth + 1, v, supp + ((j, t),))
    if A >= 1:
        rec(0, 1, 0, ())
    for s, slot in table.items():
        if len(slot) < 2:
            continue
        items = list(slot.items())
        for i in range(len(items)):
            (w1, e1), s1 = items[i]
            for j in range(i + 1, len(items)):
                (w2, e2), s2 = items[j]
                if e1 != e2 and w1 + w2 < d:
                    return entries, (s1, s2)
    return entries, None


def eval_case(cfg):
    if cfg.get('part') == 'session':
        return session.run(cfg['cfgs'], eval_case, F.cfg_label)
    if cfg.get('part') == 'large':
        return eval_large(cfg)
    res = {'evals': 0, 'nontrivial': 0, 'violations': [], 'outcomes': [], 'samples': [], 'extra': {}}
    if F.known_invalid(cfg):
        res['skipped'] = 1
        res['evals'] = 1
        return res
    code = F.build(cfg)
    n = code.n
    d = int(code.d)
    H = gf2.matrix_rows(code.stabilizer_matrix)
    L = gf2.matrix_rows(code.logicals_x) + gf2.matrix_rows(code.logicals_z)
    m = len(H)
    key = {'cls': cfg['cls'], 'size': list(cfg['size'])}
    V = res['violations']
    # witness / consistency of the reported value with the listed logicals
    wmin = min(gf2.weight(l, n) for l in L)
    if d > wmin:
        lw = [l for l in L if gf2.weight(l, n) == wmin][0]
        V.append({'key': dict(key, kind='reported-d-exceeds-weight-of-a-listed-logical'),
                  'detail': {'d': d, 'logical_weight': wmin, 'logical': gf2.int_to_pauli_string(lw, n)[:150]}})
    if d < 1:
        V.append({'key': dict(key, kind='d-not-positive'), 'detail': {'d': d}})
        return res
    # deformed versions of this code: a single-qubit Clifford relabelling preserves weights, so every
    # deformed object must report the same d (its true distance is the same; C08 decides the relabelling)
    for dfm in F.deformations(cfg['cls']):
        try:
            dd = int(F.build({'cls': cfg['cls'], 'size': cfg['size'], 'deformation': dfm}).d)
        except Exception as exc:
            continue                # construction problems of deformed codes are C01's
        res['evals'] += 1
        if dd != d:
            V.append({'key': dict(key, kind='deformed-code-reports-different-d', deformation=dfm[0],
                                  axis=dfm[1].get('deformation_axis', 'default')),
                      'detail': {'d_undeformed': d, 'd_deformed': dd}})
            break
    low_mask = (1 << n) - 1
    css = all((h & low_mask) == 0 or (h >> n) == 0 for h in H)
    target = min(d, wmin)            # prove: nothing non-trivial below `target`
    A = target // 2                  # ceil((target-1)/2)
    size = table_size(n, A, 1 if css else 3) * (2 if css else 1)
    if size > cfg['cap']:
        res['evals'] = 1
        res['extra']['not_covered_table_too_large'] = 1
        res['outcomes'] = ['%s|capped' % cfg['cls']]
        res['samples'].append({'config': F.cfg_label(cfg), 'n': n, 'd': d, 'covered': False, 'table': size})
        return res

    def col(e):
        s = gf2.syndrome(H, e, n)
        eff = 0
        for i, l in enumerate(L):
            if gf2.symp(e, l, n):
                eff |= 1 << i
        return s | (eff << m)
    def run(target_):
        A_ = target_ // 2            # ceil((target_-1)/2)
        out = None
        if css:
            for sector, shift in (('X', 0), ('Z', n)):
                cols = [[col(1 << (shift + j))] for j in range(n)]
                ent, wit = search(cols, n, m, A_, target_)
                res['evals'] += ent
                if wit and not out:
                    out = (sector, wit)
        else:
            cols = [[col(1 << j), col(1 << (n + j)), col((1 << j) | (1 << (n + j)))] for j in range(n)]
            ent, wit = search(cols, n, m, A_, target_)
            res['evals'] += ent
            if wit:
                out = ('XZY', wit)
        return out
    found = run(target)
    if found:
        sector, (s1, s2) = found
        ops = {}
        for (j, t) in s1 + s2:
            p = sector if sector in 'XZ' else 'XZY'[t]
            ops[j] = ops.get(j, []) + [p]
        V.append({'key': dict(key, kind='logical-operator-lighter-than-reported-d'),
                  'detail': {'d': d, 'weight_at_most': len(ops), 'support': {str(code.qubit_coordinates[j]): ''.join(p)
                                                                              for j, p in sorted(ops.items())}}})
    if d < wmin and not found:
        # reported value lower than every listed logical: it is right only if some operator of weight
        # exactly d is a non-trivial logical -> search up to weight d
        if table_size(n, (d + 1) // 2, 1 if css else 3) * (2 if css else 1) <= cfg['cap']:
            if not run(d + 1):
                V.append({'key': dict(key, kind='reported-d-smaller-than-true-distance'),
                          'detail': {'d': d, 'lightest_listed_logical': wmin}})
        else:
            res['extra']['reported_d_below_listed_logicals_undecided'] = 1
    # vacuity guard: the same search, one weight higher, must see the listed logical of weight d
    if d == wmin and table_size(n, (d + 1) // 2, 1 if css else 3) * (2 if css else 1) <= cfg['cap']:
        if not run(d + 1):
            lw = [l for l in L if gf2.weight(l, n) == wmin][0]
            if gf2.syndrome(H, lw, n) != 0:
                # the operator the reported d is the weight of is not a logical at all, and the complete
                # search up to weight d found no non-trivial logical: the true distance is not d
                V.append({'key': dict(key, kind='no-logical-of-weight-d-exists-listed-one-anticommutes-with-generators'),
                          'detail': {'d': d, 'listed': gf2.int_to_pauli_string(lw, n)[:150]}})
            else:
                raise RuntimeError('search at weight <= d did not find the listed logical of weight d: %r' % (cfg,))
        else:
            res['extra']['witness_search_confirmed'] = 1
    res['nontrivial'] = 1 if target >= 2 else 0
    res['extra']['covered_cases'] = 1
    res['outcomes'] = ['%s|d=%d|css=%s' % (cfg['cls'], d, css)]
    res['samples'].append({'config': F.cfg_label(cfg), 'n': n, 'd': d, 'css': css, 'half_weight': A,
                           'table_entries': res['evals']})
    return res
