"""C13  Input specifications expand to exactly the requested simulations.

Three parts, one module:

registry   every key of CODES / DECODERS / ERROR_MODELS maps to the class of that
           name (looked up in the dict and through the real spec parser); every
           exported code class is registered.
roundtrip  for every code class x family sizes x noise (plain and every
           deformation the class offers) x every registered decoder that allows
           the class x {default, non-default} decoder parameters: the `inputs`
           BatchSimulation.save_file() writes are read back with load_json,
           re-instantiated through the registries (and through
           read_input_dict({'runs': [inputs]})) and compared with the originals:
           H, L_x, L_z (integer GF(2) rows), probability_distribution, decoder
           class and params.
expand     every spec built from the axes (code params 1-3 x form, noise params
           1-3 x form, decoder params absent/{}/dict/[d]/[d,d'], rates scalar/1-3,
           container ranges / [ranges, ranges] / runs) is fed to read_input_json
           (the path `panqec run` takes), read_input_dict, expand_input_ranges
           (and, for one spec per case, the `panqec run` click command itself);
           the built simulations are compared AS A MULTISET with a reference
           Cartesian product written as nested loops here.
splitting  the same with method {"name": "splitting", "parameters": {...}}: one
           SplittingSimulation per (code, noise, decoder parameters), holding every
           requested rate once, decoders[i] built for error_rates[i] (rate lists
           ascending / descending / unsorted, 1-4 rates), method parameters and
           recorded inputs as requested.
variants   axis values that print alike (noise differing only in deformation_kwargs,
           directions / rates / float decoder parameters 1e-9..1e-5 apart) are all
           separate requested elements, in all three containers.
pairing    every registered code x decoder pairing that constructs directly is built
           from a spec naming it, inside or outside the decoder's allowed_codes.
"""
import collections
import contextlib
import hashlib
import inspect
import io
import json
import os
import shutil
import tempfile
import traceback

import numpy as np

from mc import families as F
from mc import gf2
from mc import session

PROPERTY = 'C13'
LEVEL = 'exploration'
DESIGN_REF = 'DESIGN.md §4 C13, §5 D1'
TECHNIQUE = ('bounded exhaustive enumeration of every input spec built from the parameter-form axes, each parsed '
             'by the real read_input_json / read_input_dict / expand_input_ranges / `panqec run` and compared as '
             'a multiset with a nested-loop reference product; exhaustive sweep of all registry names; exhaustive '
             'record -> JSON -> re-instantiate round trip over class x size x noise x allowed decoder')
LEVEL_TEXT = ('Every spec of a complete finite box of spec shapes is parsed by the real parser and every built '
              'simulation (code class, lattice parameters, n, noise parameters, decoder class, decoder parameters, '
              'error rate, what the decoder was bound to, what is recorded as inputs) is compared, as a multiset, '
              'with a Cartesian product computed by plain nested loops that share no code with panqec. Registry '
              'names and the results-file round trip are finite sets and are swept completely. Defects of this '
              'property are shape dependent (a dropped axis, zip for product, a name bound to the wrong class), '
              'so a complete sweep of small shapes decides it inside the box.')
LEVEL_NOTE = ('Decoder parameters that a constructor turns into derived objects are read back where they are '
              'used (table _POINT_OF_USE: pymatching edge weights and which matchers exist for MatchingDecoder, '
              'also as a sub-decoder of the sweep / X-cube decoders; ldpc max_iter / osd_order / bp_method for '
              'BP-OSD; plain attributes for the rest); the default weights (none requested) are C09\'s. '
              'Near-identical axis values and code x decoder pairings outside allowed_codes are part of the '
              'alphabet (nothing may be merged or skipped on the strength of a printed label or a GUI hint); code '
              'labels of the family sizes never collide, so no code-parameter variant exists to enumerate. '
              'Composite decoders (any decoder holding BaseDecoder sub-objects: sweep+matching, X-cube): every '
              'sub-decoder of every built / re-instantiated decoder is compared (params, plain attributes, random '
              'generator state) with its class constructed by keyword from the decoder\'s parameters, and a '
              'sub-decoder parameter the decoder does not expose must not vary with the requested ones. '
              'Trusted: mc/gf2.py; the qubit-count formulas of the four code classes used in the expansion part; '
              'decoder default parameters are read from the constructor signature of the class of that name. '
              'Isolation between runs is decided on what the property observes, the built simulations (mutating '
              'the parameters one simulation records or hands out must not change another); that equal-valued runs '
              'returned by expand_input_ranges alias the caller\'s parameter containers is only counted '
              '(expanded_runs_aliasing_a_parameter_container), nothing in panqec mutates them. Not '
              'covered: more than 3 values per axis (4 rates for the splitting method), specs holding both "runs" '
              'and "ranges", count_runs, user-registered classes. Splitting method (covered): specs with method '
              '{"name": "splitting"} as a single ranges dict and next to a direct-method range in a list of ranges '
              '(explicit "runs" cannot name a method); only how the simulations are BUILT is decided here (one per '
              'code x noise x decoder-parameter element, all rates once, decoders[i] built for error_rates[i] with '
              'the requested parameters on that code and noise, method parameters, recorded inputs); the order in '
              'which a simulation keeps its rates is not prescribed; running the Markov chain is not part of C13.')
RULE = ('registry: every key of the three registries and every exported code class (distinct = distinct name). '
        'roundtrip: every (class, size, noise, decoder, decoder parameter set) whose original objects construct; '
        'distinct = distinct recorded-inputs JSON; non-trivial = the recorded inputs name a class and carry '
        'parameters (all do). expand: every combination of (family, container, code form x count, noise form x '
        'count, decoder parameter form, rate form x count); distinct = distinct spec JSON; non-trivial = the '
        'reference product has >= 2 elements (a dropped / duplicated / zipped axis is then observable). '
        'splitting: every combination of (family incl. the composite-decoder family, container in {ranges, list of '
        'ranges}, code form x count, noise form x count, decoder parameter form, rate list in {scalar, ascending, '
        'descending, unsorted} x 1..4 rates, method parameter set); distinct = distinct spec JSON; non-trivial = '
        '>= 2 rates (a decoder paired with another rate is then observable). variants: per family and axis in '
        '{noise differing only in deformation_kwargs, noise directions 1e-9..1e-5 apart (plain and deformed), rates '
        '1e-9..1e-5 apart, float decoder parameter 1e-9..1e-5 apart} x 3 containers x {1, 2} values on the other '
        'axes: every near-identical value is its own requested element. pairing: every registered code (smallest '
        'family size) x registered decoder x 3 noise directions x decoder parameter candidates whose decoder '
        'constructs when called directly: a ranges spec naming the pairing must build it for both rates, whether '
        'or not the code is in the decoder\'s allowed_codes; distinct = distinct spec JSON. structured: per 2-D '
        'code x 2 sizes x 3 containers: MatchingDecoder with explicit weights (X and Z vectors different at every '
        'qubit, as lists; single set, range of two sets, set next to the default) x error_type in {absent, X, Z} x '
        '{1, 2} noise sets, and BP-OSD parameter sets: the edge weights loaded in matcher_x / matcher_z and the '
        'parameters loaded in the ldpc objects must be the requested ones')
ASSUMPTIONS = [
    'n = 2ab (Toric2D), 2ab-a-b+1 (Planar2D), ab (RotatedPlanar2D), 3abc (Toric3D) as reference qubit counts',
    'omitted lattice lengths default to L_x (L_z only for 3-D classes), omitted decoder parameters default to '
    'the constructor signature defaults of the class of the requested name',
    'size family per class as fixed in DESIGN.md §3',
    'a code / noise / decoder object built twice from equal parameters in one process is identical (C02)',
]
BOUNDS = {
    'quick': {'families': 2, 'composite_decoder_families': 1, 'splitting_rates': [1, 4],
              'splitting_rate_orders': ['scalar', 'asc', 'desc', 'unsorted'], 'values_per_axis': 3, 'roundtrip_sizes_per_class': 2,
              'containers': ['ranges', 'ranges-list', 'runs']},
    'thorough': {'families': 4, 'composite_decoder_families': 1, 'splitting_rates': [1, 4],
                 'splitting_rate_orders': ['scalar', 'asc', 'desc', 'unsorted'], 'values_per_axis': 3, 'roundtrip_max_n': 150,
                 'roundtrip_l_max_2d': 6,
                 'roundtrip_l_max_3d': 4, 'containers': ['ranges', 'ranges-list', 'runs']},
}
BUDGET_S = {'quick': 300, 'thorough': 3600}

# --------------------------------------------------------------------------------------------
# alphabet of the expansion part

_NOISE = [
    {'r_x': 1, 'r_y': 0, 'r_z': 0},
    {'r_x': 0.25, 'r_y': 0.25, 'r_z': 0.5},
    {'r_x': 0, 'r_y': 0, 'r_z': 1, 'deformation_name': 'XZZX', 'deformation_kwargs': {'deformation_axis': 'y'}},
]
_SIZES_2D = [{'L_x': 2}, {'L_x': 3, 'L_y': 2}, {'L_x': 2, 'L_y': 3}]
# prefixes of this list are the size axis: L_x only; L_z omitted with L_y != L_x (the default is L_x, not L_y);
# all three given with L_z different; all three given with L_x different
_SIZES_3D = [{'L_x': 2}, {'L_x': 2, 'L_y': 3}, {'L_x': 2, 'L_y': 2, 'L_z': 3}, {'L_x': 3, 'L_y': 2, 'L_z': 2}]
FAMILIES = [
    {'code': 'Toric2DCode', 'dim': 2, 'sizes': _SIZES_2D, 'decoder': 'BeliefPropagationOSDDecoder',
     'dsets': [{'osd_order': 0}, {'osd_order': 3, 'max_bp_iter': 7}]},
    {'code': 'Planar2DCode', 'dim': 2, 'sizes': _SIZES_2D, 'decoder': 'MatchingDecoder',
     'dsets': [{'error_type': 'X'}, {'error_type': 'Z'}]},
    {'code': 'Toric3DCode', 'dim': 3, 'sizes': _SIZES_3D, 'decoder': 'BeliefPropagationOSDDecoder',
     'dsets': [{'max_bp_iter': 5}, {'channel_update': True, 'osd_order': 1}]},
    {'code': 'RotatedPlanar2DCode', 'dim': 2, 'sizes': _SIZES_2D, 'decoder': 'MemoryBeliefPropagationDecoder',
     'dsets': [{'max_bp_iter': 2}, {'alpha': 0.5, 'beta': 1}]},
]
# families whose decoder builds sub-decoders from its own parameters (non-default values in the range): run in
# both tiers over a reduced set of code / noise forms (the form axes are covered by the families above; what these
# add is the decoder-parameter axis reaching the sub-decoders). No closed qubit-count formula is trusted for these
# classes: n is left out of their observation (C01/C02 own the lattice).
COMPOSITE_FAMILIES = [
    {'code': 'RotatedPlanar3DCode', 'dim': 3, 'sizes': _SIZES_3D, 'decoder': 'RotatedSweepMatchDecoder',
     'dsets': [{'max_rounds': 1}, {'max_rounds': 2}]},
]
_COMPOSITE_FORM_COUNTS = [('dict', 1), ('poslist', 2)]
FAMILIES = FAMILIES + COMPOSITE_FAMILIES
_RATES = {1: [0.1], 2: [0.3, 0.1], 3: [0.3, 0.1, 0.2]}
# the second member of a list of two ranges: fixed, disjoint from every first member
_SECOND = {'code': 'RotatedPlanar2DCode', 'dim': 2, 'sizes': [{'L_x': 2}, {'L_x': 3, 'L_y': 2}],
           'noise': [{'r_x': 0, 'r_y': 1, 'r_z': 0}], 'decoder': 'BeliefPropagationOSDDecoder',
           'rates': [0.05, 0.15]}
_REF_N = {
    'Toric2DCode': lambda a, b, c: 2 * a * b,
    'Planar2DCode': lambda a, b, c: 2 * a * b - a - b + 1,
    'RotatedPlanar2DCode': lambda a, b, c: a * b,
    'Toric3DCode': lambda a, b, c: 3 * a * b * c,
}
_DIM = {'Toric2DCode': 2, 'Planar2DCode': 2, 'RotatedPlanar2DCode': 2, 'Toric3DCode': 3,
        'RotatedPlanar3DCode': 3}
DEC_FORMS = ['absent', 'empty', 'dict', 'list1', 'list2']
RATE_FORMS = [('scalar', 1), ('list', 1), ('list', 2), ('list', 3), ('scalar-zero', 1), ('list-zero', 2)]
_ZERO_RATES = {1: [0], 2: [0.0, 0.1]}     # a zero rate is falsy: must still be one requested rate
FORM_COUNTS = [('dict', 1), ('list', 1), ('poslist', 1), ('list', 2), ('poslist', 2), ('list', 3), ('poslist', 3),
               ('rlist', 3), ('rlist', 2)]

# splitting-method part: rate lists (ascending / descending / unsorted, 1..4 rates; a bare scalar) and method
# parameter sets; code / noise forms reduced as for the composite families (the form axes are covered above)
SPLIT_RATE_FORMS = [
    ('scalar', 1, 0.1), ('asc', 1, [0.1]),
    ('asc', 2, [0.05, 0.2]), ('desc', 2, [0.2, 0.05]),
    ('asc', 3, [0.05, 0.1, 0.3]), ('desc', 3, [0.3, 0.1, 0.05]), ('unsorted', 3, [0.1, 0.3, 0.05]),
    ('asc', 4, [0.05, 0.1, 0.2, 0.3]), ('desc', 4, [0.3, 0.2, 0.1, 0.05]), ('unsorted', 4, [0.1, 0.3, 0.05, 0.2]),
]
SPLIT_METHOD_PARAMS = [{'n_init_runs': 7}, {'n_init_runs': 3, 'start_run': 2}]
_SPLIT_FORM_COUNTS = {'quick': [('dict', 1), ('poslist', 2)],
                      'thorough': [('dict', 1), ('list', 2), ('poslist', 3), ('rlist', 3)]}

# near-identical values on one axis (values that print alike, or differ only in a parameter that labels leave
# out): every one of them is a separate requested element
_CLOSE_DELTAS = [0, 1e-9, 1e-7, 1e-5]
VARIANT_AXES = {
    'noise-kwargs': {'noise': [
        {'r_x': 0, 'r_y': 0, 'r_z': 1, 'deformation_name': 'XZZX', 'deformation_kwargs': {'deformation_axis': 'x'}},
        {'r_x': 0, 'r_y': 0, 'r_z': 1, 'deformation_name': 'XZZX', 'deformation_kwargs': {'deformation_axis': 'y'}},
        {'r_x': 0, 'r_y': 0, 'r_z': 1, 'deformation_name': 'XZZX'}]},
    'noise-direction': {'noise': [{'r_x': d, 'r_y': 0, 'r_z': 1 - d} for d in _CLOSE_DELTAS]},
    'noise-direction-deformed': {'noise': [
        {'r_x': d, 'r_y': 0, 'r_z': 1 - d, 'deformation_name': 'XZZX'} for d in _CLOSE_DELTAS[:3]]},
    'rate': {'rates': [0.1 + d for d in _CLOSE_DELTAS]},
    'decoder-parameter': {},            # families with a float decoder parameter ('dclose')
}
FAMILIES[3]['dclose'] = [{'alpha': 0.5}, {'alpha': 0.5 + 1e-9}, {'alpha': 0.5 + 1e-5}]
# (code, decoder) pairings: every registered code x registered decoder x these noise / parameter candidates that
# CONSTRUCTS when called directly must also come out of a spec naming it (allowed_codes is a hint for the GUI)
PAIR_NOISE = [{'r_x': 1, 'r_y': 0, 'r_z': 0}, {'r_x': 0, 'r_y': 0, 'r_z': 1},
              {'r_x': 1 / 3, 'r_y': 1 / 3, 'r_z': 1 / 3}]
PAIR_DECODER_PARAMS = {'MatchingDecoder': [{}, {'error_type': 'X'}, {'error_type': 'Z'}]}
PAIR_RATES = [0.02, 0.05]

# structured decoder parameters: MatchingDecoder `weights` = [per-qubit weights for X errors, for Z errors], as
# JSON carries them (lists), X and Z vectors different at every qubit; ranges of two such sets; with and without
# `error_type`. BP-OSD parameter sets on the same codes are followed into the ldpc objects.
STRUCT_CODES = ['Toric2DCode', 'Planar2DCode', 'RotatedPlanar2DCode']
STRUCT_SIZES = [[2, 3], [3, 3]]
STRUCT_WEIGHTS = [(lambda q: 1 + 0.01 * q, lambda q: 3 + 0.02 * q),
                  (lambda q: 5 + 0.03 * q, lambda q: 0.5 + 0.005 * q)]

# roundtrip part
_RT_NOISE = [{'r_x': 1, 'r_y': 0, 'r_z': 0},
             {'r_x': 1 / 3, 'r_y': 1 / 3, 'r_z': 1 / 3},
             {'r_x': 0.1, 'r_y': 0.2, 'r_z': 0.7}]
_RT_NONDEFAULT = {
    'MatchingDecoder': {'error_type': 'X'},
    'RotatedSweepMatchDecoder': {'max_rounds': 5},
    'BeliefPropagationOSDDecoder': {'max_bp_iter': 7, 'osd_order': 2, 'channel_update': True},
    'MemoryBeliefPropagationDecoder': {'max_bp_iter': 3, 'alpha': 0.75, 'beta': 1},
}


# --------------------------------------------------------------------------------------------
# small helpers

def canon(o):
    """JSON-able canonical form; numbers (not bools) become floats so 1 == 1.0."""
    if o is None or isinstance(o, (bool, str)):
        return o
    if isinstance(o, np.bool_):
        return bool(o)
    if isinstance(o, (int, float, np.integer, np.floating)):
        return float(o)
    if isinstance(o, dict):
        return {str(k): canon(v) for k, v in o.items()}
    if isinstance(o, (list, tuple, np.ndarray)):
        return [canon(v) for v in o]
    return 'object:' + type(o).__name__


def cj(o):
    return json.dumps(canon(o), sort_keys=True)


def _digest(s):
    return hashlib.sha1(s.encode()).hexdigest()[:10]


def _where(exc):
    """function name of the innermost panqec frame of an exception (for stable keys)."""
    hit = None
    for fs in traceback.extract_tb(exc.__traceback__):
        fn = fs.filename.replace('\\', '/')
        if '/panqec/' in fn and '/verif/' not in fn:
            hit = fs.name
    return hit or 'outside-panqec'


@contextlib.contextmanager
def _quiet():
    with contextlib.redirect_stdout(io.StringIO()), contextlib.redirect_stderr(io.StringIO()):
        yield


def _positional(d, keys):
    return [d[k] for k in keys if k in d]


_CODE_KEYS = ['L_x', 'L_y', 'L_z']
_NOISE_KEYS = ['r_x', 'r_y', 'r_z', 'deformation_name', 'deformation_kwargs']


# --------------------------------------------------------------------------------------------
# reference (shares no code with panqec)

def ref_code(name, p):
    dim = _DIM[name] if name in _DIM else (2 if name in F.CLASSES_2D else 3)
    if isinstance(p, dict):
        lx, ly, lz = p['L_x'], p.get('L_y'), p.get('L_z')
    else:
        lx = p[0]
        ly = p[1] if len(p) > 1 else None
        lz = p[2] if len(p) > 2 else None
    if ly is None:
        ly = lx
    if dim == 3 and lz is None:
        lz = lx
    if dim == 2:
        lz = None
    return [name, {'L_x': lx, 'L_y': ly, 'L_z': lz}, _REF_N[name](lx, ly, lz) if name in _REF_N else None]


def ref_noise(p):
    if isinstance(p, dict):
        r = [p['r_x'], p['r_y'], p['r_z']]
        dn, dk = p.get('deformation_name'), p.get('deformation_kwargs')
    else:
        r = list(p[:3])
        dn = p[3] if len(p) > 3 else None
        dk = p[4] if len(p) > 4 else None
    return ['PauliErrorModel', {'r_x': r[0], 'r_y': r[1], 'r_z': r[2], 'deformation_name': dn,
                                'deformation_kwargs': dk if dk else {}}]


_SIG_CACHE = {}


def decoder_defaults(name):
    """constructor defaults of the decoder class exported under this name by panqec.decoders
    (the class is found by attribute name, not through the registry under test)."""
    if name not in _SIG_CACHE:
        import panqec.decoders as D
        sig = inspect.signature(getattr(D, name).__init__)
        _SIG_CACHE[name] = {k: v.default for k, v in sig.parameters.items()
                            if k not in ('self', 'code', 'error_model', 'error_rate')
                            and v.default is not inspect.Parameter.empty}
    return dict(_SIG_CACHE[name])


def ref_decoder(name, requested):
    full = decoder_defaults(name)
    full.update(requested)
    return [name, full]


def ref_observation(code_name, cp, nz, dec_name, dreq, rate):
    c = ref_code(code_name, cp)
    n = ref_noise(nz)
    d = ref_decoder(dec_name, dreq)
    return cj({'code': c, 'noise': n, 'decoder': d, 'rate': rate,
               'bound': [c[0], c[1], n[0], n[1], rate],
               'recorded': [c[0], c[1], c[2], n[0], n[1], d[0], d[1], rate]})


def observe(sim, cache=None):
    """canonical observation of one built simulation. `cache` (per batch, keyed by object identity of
    the shared code / error-model objects) only saves recomputing identical sub-parts."""
    code, em, dec = sim.code, sim.error_model, sim.decoder
    cache = {} if cache is None else cache
    kc = ('code', id(code))
    if kc not in cache:
        cp = code.params
        cache[kc] = (code, canon([type(code).__name__, {k: cp.get(k) for k in _CODE_KEYS},
                                  code.n if type(code).__name__ in _REF_N else None]))
    ke = ('noise', id(em))
    if ke not in cache:
        cache[ke] = (em, canon([type(em).__name__, em.params]))
    c_part, n_part = cache[kc][1], cache[ke][1]
    if dec.code is code:
        bc = c_part[:2]
    else:
        bc = canon([type(dec.code).__name__, {k: dec.code.params.get(k) for k in _CODE_KEYS}])
    if dec.error_model is em:
        be = n_part
    else:
        be = canon([type(dec.error_model).__name__, dec.error_model.params])
    inp = sim._inputs
    return json.dumps({
        'code': c_part,
        'noise': n_part,
        'decoder': canon([type(dec).__name__, dec.params]),
        'rate': canon(sim.error_rate),
        'bound': [bc[0], bc[1], be[0], be[1], canon(dec.error_rate)],
        'recorded': canon([inp['code']['name'], {k: inp['code']['parameters'].get(k) for k in _CODE_KEYS},
                           inp['code']['n'] if inp['code']['name'] in _REF_N else None,
                           inp['error_model']['name'], inp['error_model']['parameters'],
                           inp['decoder']['name'], inp['decoder']['parameters'], inp['error_rate']]),
    }, sort_keys=True)


# --------------------------------------------------------------------------------------------
# spec construction

def _elems(sets, form, count, keys):
    chosen = sets[:count]
    if form == 'dict':
        return chosen[0], [chosen[0]]
    if form == 'list':
        return list(chosen), list(chosen)
    if form == 'rlist':
        # the same parameter sets with their keywords written in the opposite order (a dict is a dict:
        # the order in which a JSON file lists the keywords carries no meaning)
        return [dict(reversed(list(d.items()))) for d in chosen], list(chosen)
    pos = [_positional(d, keys) for d in chosen]
    return pos, pos


def _range_and_product(fam, code_form, n_code, noise_form, n_noise, dec_form, rate_form, n_rates):
    """-> (ranges dict, reference product as a list of (code, cp, nz, decoder, dreq, rate)) — nested loops."""
    code_field, code_elems = _elems(fam['sizes'], code_form, n_code, _CODE_KEYS)
    noise_field, noise_elems = _elems(_NOISE, noise_form, n_noise, _NOISE_KEYS)
    dec = {'name': fam['decoder']}
    if dec_form == 'absent':
        dlist = [{}]
    elif dec_form == 'empty':
        dec['parameters'] = {}
        dlist = [{}]
    elif dec_form == 'dict':
        dec['parameters'] = fam['dsets'][0]
        dlist = [fam['dsets'][0]]
    elif dec_form == 'list1':
        dec['parameters'] = [fam['dsets'][0]]
        dlist = [fam['dsets'][0]]
    else:
        dec['parameters'] = [fam['dsets'][0], fam['dsets'][1]]
        dlist = [fam['dsets'][0], fam['dsets'][1]]
    rates = _ZERO_RATES[n_rates] if rate_form.endswith('-zero') else _RATES[n_rates]
    rate_field = rates[0] if rate_form.startswith('scalar') else list(rates)
    rng = {'label': 'c13', 'code': {'name': fam['code'], 'parameters': code_field},
           'error_model': {'name': 'PauliErrorModel', 'parameters': noise_field},
           'decoder': dec, 'error_rate': rate_field}
    product = []
    for cp in code_elems:
        for nz in noise_elems:
            for dreq in dlist:
                for r in rates:
                    product.append((fam['code'], cp, nz, fam['decoder'], dreq, r))
    return rng, product


def _second_range():
    rng = {'label': 'c13b', 'code': {'name': _SECOND['code'], 'parameters': list(_SECOND['sizes'])},
           'error_model': {'name': 'PauliErrorModel', 'parameters': list(_SECOND['noise'])},
           'decoder': {'name': _SECOND['decoder']}, 'error_rate': list(_SECOND['rates'])}
    product = []
    for cp in _SECOND['sizes']:
        for nz in _SECOND['noise']:
            for r in _SECOND['rates']:
                product.append((_SECOND['code'], cp, nz, _SECOND['decoder'], {}, r))
    return rng, product


def build_spec(fam, container, code_form, n_code, noise_form, n_noise, dec_form, rate_form, n_rates):
    """-> (spec, product, list of (ranges dict, its product) for expand_input_ranges)"""
    rng, product = _range_and_product(fam, code_form, n_code, noise_form, n_noise, dec_form, rate_form, n_rates)
    if container == 'ranges':
        return {'ranges': rng}, product, [(rng, product)]
    if container == 'ranges-list':
        rng2, product2 = _second_range()
        return {'ranges': [rng, rng2]}, product + product2, [(rng, product), (rng2, product2)]
    runs = []
    for (cname, cp, nz, dname, dreq, r) in product:
        dec = {'name': dname}
        if dec_form == 'empty':
            dec['parameters'] = {}
        elif dec_form != 'absent':
            dec['parameters'] = dreq
        runs.append({'label': 'c13', 'code': {'name': cname, 'parameters': cp},
                     'error_model': {'name': 'PauliErrorModel', 'parameters': nz},
                     'decoder': dec, 'error_rate': r})
    return {'runs': runs}, product, []


def _spec_level(run):
    d = run.get('decoder', {})
    return cj({'code': [run['code'].get('name'), run['code'].get('parameters')],
               'noise': [run['error_model'].get('name'), run['error_model'].get('parameters')],
               'decoder': [d.get('name'), d.get('parameters')],
               'rate': run.get('error_rate')})


def _spec_level_ref(t):
    cname, cp, nz, dname, dreq, r = t
    return cj({'code': [cname, cp], 'noise': ['PauliErrorModel', nz], 'decoder': [dname, dreq], 'rate': r})


# --------------------------------------------------------------------------------------------
# cases

def _rt_noises(name):
    """plain noise sets, then a biased noise under every deformation configuration the class offers"""
    noises = [dict(nz) for nz in _RT_NOISE]
    for dn, kw in F.deformations(name):
        nz = {'r_x': 0.1, 'r_y': 0.2, 'r_z': 0.7, 'deformation_name': dn}
        if kw:
            nz['deformation_kwargs'] = dict(kw)
        noises.append(nz)
    return noises


def _rt_sizes(tier, name):
    b = BOUNDS[tier]
    if tier == 'quick':
        szs = F.sizes(name, 0, None, b['roundtrip_sizes_per_class'])
    else:
        lm = b['roundtrip_l_max_2d'] if name in F.CLASSES_2D else b['roundtrip_l_max_3d']
        szs = F.sizes(name, b['roundtrip_max_n'], lm, 3)
    return szs


def cases(tier, seed):
    b = BOUNDS[tier]
    out = [{'part': 'registry'}]
    rt = []
    for name in F.CLASSES:
        for s in _rt_sizes(tier, name):
            for ni in range(len(_rt_noises(name))):
                rt.append({'part': 'roundtrip', 'cls': name, 'size': list(s), 'noise': ni})
    rt.sort(key=lambda c: (F.n_qubits(c['cls'], c['size']) or 0, c['cls'], c['size'], c['noise']))
    out += rt
    ex = []
    for fi in range(b['families']):
        for container in b['containers']:
            for cform, nc in FORM_COUNTS:
                for nform, nn in FORM_COUNTS:
                    if container == 'runs' and (cform == 'dict' or nform == 'dict'):
                        continue        # identical to the 'list' form once written out as explicit runs
                    ex.append({'part': 'expand', 'family': fi, 'container': container,
                               'code_form': cform, 'n_code': nc, 'noise_form': nform, 'n_noise': nn})
    for fi in range(len(FAMILIES) - len(COMPOSITE_FAMILIES), len(FAMILIES)):
        for container in b['containers']:
            for cform, nc in _COMPOSITE_FORM_COUNTS:
                for nform, nn in _COMPOSITE_FORM_COUNTS:
                    if container == 'runs' and (cform == 'dict' or nform == 'dict'):
                        continue
                    ex.append({'part': 'expand', 'family': fi, 'container': container,
                               'code_form': cform, 'n_code': nc, 'noise_form': nform, 'n_noise': nn})
    ex.sort(key=lambda c: (c['n_code'] * c['n_noise'], c['family'], b['containers'].index(c['container']),
                           c['n_code'], c['code_form'], c['noise_form']))
    out += ex
    # splitting method: ranges / list of ranges (explicit "runs" cannot name a method)
    sp = []
    fams = list(range(b['families'])) + list(range(len(FAMILIES) - len(COMPOSITE_FAMILIES), len(FAMILIES)))
    for fi in fams:
        for container in ('ranges', 'ranges-list'):
            for cform, nc in _SPLIT_FORM_COUNTS[tier]:
                for nform, nn in _SPLIT_FORM_COUNTS[tier]:
                    sp.append({'part': 'splitting', 'family': fi, 'container': container,
                               'code_form': cform, 'n_code': nc, 'noise_form': nform, 'n_noise': nn})
    sp.sort(key=lambda c: (c['n_code'] * c['n_noise'], c['family'], c['container']))
    out += sp
    # near-identical values on one axis; pairings of every code with every decoder
    fams = list(range(b['families']))
    for fi in range(len(FAMILIES)):
        for axis in VARIANT_AXES:
            if axis == 'decoder-parameter':
                if 'dclose' in FAMILIES[fi]:
                    out.append({'part': 'variants', 'family': fi, 'axis': axis})
            elif fi in fams:
                out.append({'part': 'variants', 'family': fi, 'axis': axis})
    for name in F.CLASSES:
        out.append({'part': 'pairing', 'cls': name})
    # structured (array-valued) decoder parameters and parameters handed on to derived objects
    for name in STRUCT_CODES:
        for size in STRUCT_SIZES:
            out.append({'part': 'structured', 'cls': name, 'size': size})
    # sessions: specs in different parameter forms parsed one after the other in ONE process
    for fi in range(b['families']):
        # (an asymmetric subset of the sizes after the full set: a mix-up between two sizes of the full
        # set is a permutation and leaves the multiset of a 3-size spec unchanged)
        seq = [{'part': 'expand', 'family': fi, 'container': 'ranges', 'code_form': cf, 'n_code': nc,
                'noise_form': nf, 'n_noise': nn}
               for cf, nc, nf, nn in (('list', 3, 'list', 3), ('rlist', 2, 'rlist', 2), ('poslist', 3, 'poslist', 3),
                                      ('rlist', 3, 'list', 2), ('list', 2, 'rlist', 3))]
        out.append({'part': 'session', 'cases': seq})
    return out


def eval_case(case):
    if case['part'] == 'session':
        return session.run(case['cases'], eval_case,
                           lambda c: 'expand family=%s code_form=%s noise_form=%s' % (
                               c['family'], c['code_form'], c['noise_form']))
    if case['part'] == 'registry':
        return eval_registry(case)
    if case['part'] == 'roundtrip':
        return eval_roundtrip(case)
    if case['part'] == 'splitting':
        return eval_splitting(case)
    if case['part'] == 'variants':
        return eval_variants(case)
    if case['part'] == 'pairing':
        return eval_pairing(case)
    if case['part'] == 'structured':
        return eval_structured(case)
    return eval_expand(case)


def _new_res():
    return {'evals': 0, 'nontrivial': 0, 'skipped': 0, 'violations': [], 'outcomes': [], 'samples': [],
            'extra': {}}


def _bump(res, k, n=1):
    res['extra'][k] = res['extra'].get(k, 0) + n


# --------------------------------------------------------------------------------------------
# part 2: registries

def _parse_one(run):
    from panqec.simulation import read_input_dict
    with _quiet():
        b = read_input_dict({'runs': [json.loads(json.dumps(run))]}, '/dev/shm/c13-unused.json', verbose=False)
    return b._simulations[0]


def eval_registry(case):
    import panqec.codes as PC
    from panqec.config import CODES, DECODERS, ERROR_MODELS
    res = _new_res()
    V = res['violations']
    names = set()
    for regname, reg in (('CODES', CODES), ('DECODERS', DECODERS), ('ERROR_MODELS', ERROR_MODELS)):
        for k in sorted(reg):
            res['evals'] += 1
            names.add((regname, k))
            got = getattr(reg[k], '__name__', repr(reg[k]))
            res['outcomes'].append('%s|%s' % (regname[:3], k == got))
            if got != k:
                V.append({'key': {'kind': 'registry-name-resolves-to-other-class', 'via': 'registry',
                                  'registry': regname, 'name': k, 'resolves_to': got},
                          'detail': {'message': "%s[%r] is %s" % (regname, k, got)}})
    for name in sorted(set(PC.__all__) - {'StabilizerCode'}):
        res['evals'] += 1
        names.add(('exported', name))
        if CODES.get(name) is not getattr(PC, name):
            V.append({'key': {'kind': 'exported-code-class-not-registered', 'cls': name,
                              'registered_under_name': getattr(CODES.get(name), '__name__', None)},
                      'detail': {'message': 'panqec.codes.%s is exported but CODES[%r] is %s'
                                            % (name, name, getattr(CODES.get(name), '__name__', None)),
                                 'registered_under_other_key': [k for k, v in CODES.items()
                                                                if v is getattr(PC, name)]}})
    # the same names through the real spec parser
    noise = {'name': 'PauliErrorModel', 'parameters': {'r_x': 0.1, 'r_y': 0.2, 'r_z': 0.7}}
    for k in sorted(CODES):
        if k not in F.CLASSES:
            continue
        size = F.sizes(k, 0, None, 1)[0]
        run = {'code': {'name': k, 'parameters': list(size)}, 'error_model': noise,
               'decoder': {'name': 'BeliefPropagationOSDDecoder'}, 'error_rate': 0.1}
        res['evals'] += 1
        try:
            sim = _parse_one(run)
        except Exception as exc:
            V.append({'key': {'kind': 'raises', 'via': 'parser', 'registry': 'CODES', 'name': k,
                              'exc': type(exc).__name__, 'where': _where(exc)},
                      'detail': {'message': str(exc)[:200]}})
            continue
        got = type(sim.code).__name__
        if got != k or sim._inputs['code']['name'] != got:
            V.append({'key': {'kind': 'registry-name-resolves-to-other-class', 'via': 'parser',
                              'registry': 'CODES', 'name': k, 'resolves_to': got},
                      'detail': {'recorded_name': sim._inputs['code']['name'], 'size': list(size)}})
    for k in sorted(DECODERS):
        allowed = getattr(DECODERS[k], 'allowed_codes', None) or ['Toric2DCode']
        built = None
        for cname in allowed:
            if cname not in F.CLASSES:
                continue
            for size in F.sizes(cname, 0, None, 2):
                run = {'code': {'name': cname, 'parameters': list(size)}, 'error_model': noise,
                       'decoder': {'name': k}, 'error_rate': 0.1}
                try:
                    built = _parse_one(run)
                    break
                except Exception:
                    built = None
            if built is not None:
                break
        res['evals'] += 1
        if built is None:
            res['skipped'] += 1          # constructibility of a decoder is C05's business
            continue
        got = type(built.decoder).__name__
        if got != k or built._inputs['decoder']['name'] != got:
            V.append({'key': {'kind': 'registry-name-resolves-to-other-class', 'via': 'parser',
                              'registry': 'DECODERS', 'name': k, 'resolves_to': got},
                      'detail': {'recorded_name': built._inputs['decoder']['name']}})
    for k in sorted(ERROR_MODELS):
        run = {'code': {'name': 'Toric2DCode', 'parameters': [2, 2]},
               'error_model': {'name': k, 'parameters': noise['parameters']},
               'decoder': {'name': 'BeliefPropagationOSDDecoder'}, 'error_rate': 0.1}
        res['evals'] += 1
        try:
            sim = _parse_one(run)
        except Exception:
            res['skipped'] += 1
            continue
        got = type(sim.error_model).__name__
        if got != k or sim._inputs['error_model']['name'] != got:
            V.append({'key': {'kind': 'registry-name-resolves-to-other-class', 'via': 'parser',
                              'registry': 'ERROR_MODELS', 'name': k, 'resolves_to': got},
                      'detail': {'recorded_name': sim._inputs['error_model']['name']}})
    res['nontrivial'] = len(names)
    res['outcomes'] = sorted(set(res['outcomes']))[:50]
    res['samples'].append({'registered': {'CODES': len(CODES), 'DECODERS': len(DECODERS),
                                          'ERROR_MODELS': len(ERROR_MODELS)}})
    return res


# --------------------------------------------------------------------------------------------
# part 3: results-file round trip

def _code_rows(code):
    return (gf2.matrix_rows(code.stabilizer_matrix), gf2.matrix_rows(code.logicals_x),
            gf2.matrix_rows(code.logicals_z))


def _dist_equal(a, b):
    if len(a) != len(b):
        return False
    for x, y in zip(a, b):
        x, y = np.asarray(x), np.asarray(y)
        if x.shape != y.shape or not np.array_equal(x, y):
            return False
    return True


def eval_roundtrip(case):
    import panqec.codes as PC
    from panqec.config import CODES, DECODERS, ERROR_MODELS
    from panqec.error_models import PauliErrorModel
    from panqec.simulation import BatchSimulation, DirectSimulation, read_input_dict
    from panqec.utils import NumpyEncoder, load_json
    name, size = case['cls'], list(case['size'])
    res = _new_res()
    V = res['violations']
    base_key = {'cls': name, 'size': size, 'square': len(set(size)) == 1}
    try:
        code = getattr(PC, name)(*size)
        rows = _code_rows(code)
        nkd = [int(code.n), int(code.k), int(code.d)]
    except Exception:
        res['skipped'] += 1              # not constructible (e.g. D12b sizes): C01's business
        res['evals'] += 1
        return res
    noises = _rt_noises(name)
    if case.get('noise') is not None:                # one noise set per work item (balance)
        noises = [noises[case['noise']]]
    dec_classes = []
    for k in sorted(DECODERS):
        D = DECODERS[k]
        if D not in dec_classes and (D.allowed_codes is None or name in D.allowed_codes):
            dec_classes.append(D)
    sims, meta = [], []
    for nz in noises:
        try:
            em = PauliErrorModel(**nz)
            for p in (0.1, 0.05):
                em.probability_distribution(code, p)
        except Exception:
            _bump(res, 'roundtrip_noise_not_constructible')
            continue
        for D in dec_classes:
            psets = [{}]
            if D.__name__ in _RT_NONDEFAULT:
                psets.append(_RT_NONDEFAULT[D.__name__])
            for pi, pset in enumerate(psets):
                p = 0.1 if pi == 0 else 0.05
                try:
                    with _quiet():
                        dec = D(code, em, p, **pset)
                        sim = DirectSimulation(code, em, dec, p, verbose=False)
                except Exception:
                    _bump(res, 'roundtrip_decoder_not_constructible')      # C05's business
                    continue
                sims.append(sim)
                meta.append({'noise': nz, 'decoder': D.__name__, 'pset': pset, 'rate': p, 'em': em, 'dec': dec})
    if not sims:
        res['skipped'] += 1
        return res
    tmp = tempfile.mkdtemp(prefix='c13_', dir='/dev/shm' if os.path.isdir('/dev/shm') else None)
    try:
        path = os.path.join(tmp, 'results.json')
        with _quiet():
            batch = BatchSimulation(path, verbose=False)
            for s in sims:
                batch.append(s)
            batch.save_file()
            data = load_json(path)
        res['evals'] += 1
    finally:
        shutil.rmtree(tmp, ignore_errors=True)
    if not isinstance(data, list) or len(data) != len(sims):
        V.append({'key': dict(base_key, kind='results-file-entry-count'),
                  'detail': {'written': len(sims), 'read': len(data) if isinstance(data, list) else None}})
        return res
    code_cache = {}
    code_reported = False
    noise_reported, dec_reported = set(), set()      # one report per noise set / per decoder configuration
    digests = set()
    n_viol = 0
    recorded_runs = []
    for i, (sim, m) in enumerate(zip(sims, meta)):
        inputs = data[i]['inputs']
        recorded_runs.append(inputs)
        digests.add(_digest(json.dumps(inputs, sort_keys=True)))
        sub_key = dict(base_key, noise=cj(m['noise'])[:120], decoder=m['decoder'],
                       decoder_params='default' if not m['pset'] else 'non-default')
        direct = json.loads(json.dumps(sim._inputs, cls=NumpyEncoder))
        if direct != inputs:
            n_viol += 1
            V.append({'key': dict(sub_key, kind='file-inputs-differ-from-simulation-inputs'),
                      'detail': {'file': inputs, 'simulation': direct}})
            continue
        res['evals'] += 1
        try:
            ck = json.dumps(inputs['code'], sort_keys=True)
            if ck not in code_cache:
                c2 = CODES[inputs['code']['name']](**inputs['code']['parameters'])
                code_cache[ck] = (c2, _code_rows(c2), [int(c2.n), int(c2.k), int(c2.d)])
            code2, rows2, nkd2 = code_cache[ck]
            em2 = ERROR_MODELS[inputs['error_model']['name']](**inputs['error_model']['parameters'])
            with _quiet():
                dec2 = DECODERS[inputs['decoder']['name']](code2, em2, inputs['error_rate'],
                                                           **inputs['decoder']['parameters'])
        except Exception as exc:
            n_viol += 1
            V.append({'key': dict(sub_key, kind='reinstantiate-raises', exc=type(exc).__name__,
                                  where=_where(exc)),
                      'detail': {'message': str(exc)[:200], 'inputs': inputs}})
            continue
        # code
        rec = inputs['code']
        code_bad = []
        if type(code2).__name__ != name:
            code_bad.append('class')
        if rows2[0] != rows[0]:
            code_bad.append('H')
        if rows2[1] != rows[1]:
            code_bad.append('L_x')
        if rows2[2] != rows[2]:
            code_bad.append('L_z')
        if nkd2 != nkd or [rec.get('n'), rec.get('k'), rec.get('d')] != nkd:
            code_bad.append('n,k,d')
        if code_bad and not code_reported:
            code_reported = True
            n_viol += 1
            V.append({'key': dict(base_key, kind='roundtrip-code-differs', recorded_name=rec['name'],
                                  reinstantiated_cls=type(code2).__name__, differs=code_bad),
                      'detail': {'recorded': rec, 'original_nkd': nkd, 'reinstantiated_nkd': nkd2,
                                 'same_row_set_H': sorted(rows2[0]) == sorted(rows[0])}})
        # noise (on the original code object, so that a code mismatch does not mask it)
        noise_bad = []
        if type(em2).__name__ != 'PauliErrorModel':
            noise_bad.append('class')
        if cj(em2.params) != cj(m['em'].params):
            noise_bad.append('params')
        p = m['rate']
        if inputs['error_rate'] != p:
            noise_bad.append('error_rate')
        d1 = m['em'].probability_distribution(code, p)
        try:
            d2 = em2.probability_distribution(code, inputs['error_rate'])
            if not _dist_equal(d1, d2):
                noise_bad.append('probability_distribution')
            if not code_bad:
                d3 = em2.probability_distribution(code2, inputs['error_rate'])
                if not _dist_equal(d1, d3):
                    noise_bad.append('probability_distribution(reinstantiated code)')
        except Exception as exc:
            noise_bad.append('probability_distribution raises %s' % type(exc).__name__)
        if noise_bad:
            n_viol += 1
        if noise_bad and cj(m['noise']) not in noise_reported:
            noise_reported.add(cj(m['noise']))
            V.append({'key': dict(base_key, noise=sub_key['noise'], kind='roundtrip-noise-differs',
                                  differs=noise_bad),
                      'detail': {'recorded': inputs['error_model'], 'original': canon(m['em'].params),
                                 'reinstantiated': canon(em2.params)}})
        # decoder configuration
        dec_bad = []
        if type(dec2).__name__ != m['decoder']:
            dec_bad.append('class')
        if cj(dec2.params) != cj(m['dec'].params):
            dec_bad.append('params')
        want = dict(decoder_defaults(m['decoder']))
        want.update(m['pset'])
        if cj(dec2.params) != cj(want):
            dec_bad.append('params-vs-requested')
        if dec2.error_rate != p:
            dec_bad.append('error_rate')
        if dec_bad:
            n_viol += 1
        if dec_bad and (m['decoder'], bool(m['pset'])) not in dec_reported:
            dec_reported.add((m['decoder'], bool(m['pset'])))
            V.append({'key': dict(base_key, decoder=sub_key['decoder'], decoder_params=sub_key['decoder_params'],
                                  kind='roundtrip-decoder-differs', differs=dec_bad),
                      'detail': {'recorded': inputs['decoder'], 'original': canon(m['dec'].params),
                                 'reinstantiated': canon(dec2.params), 'requested': canon(want)}})
        # composite decoders: the sub-decoders of the original and of the re-instantiated decoder must
        # effectively carry the decoder's parameters
        for which, d in (('original', m['dec']), ('reinstantiated', dec2)):
            cprob, unreq = composite_problems(d)
            cprob = cprob + point_of_use_problems(d, deep=True)
            if unreq:
                _bump(res, 'composite_decoders_checked')
            for kind, kf, det in cprob:
                n_viol += 1
                tag = (kind, kf.get('decoder'), kf.get('sub'), bool(m['pset']), which)
                if tag not in dec_reported:
                    dec_reported.add(tag)
                    V.append({'key': dict(base_key, kind=kind, which=which,
                                          decoder_params=sub_key['decoder_params'], **kf),
                              'detail': det})
    # the same recorded inputs re-run the way a user would: as explicit runs through the parser
    if not code_reported:
        res['evals'] += 1
        try:
            with _quiet():
                b2 = read_input_dict({'runs': json.loads(json.dumps(recorded_runs))},
                                     '/dev/shm/c13-unused.json', verbose=False)
            sims2 = list(b2._simulations)
            if len(sims2) != len(sims):
                n_viol += 1
                V.append({'key': dict(base_key, kind='rerun-of-recorded-inputs-count'),
                          'detail': {'recorded': len(sims), 'built': len(sims2)}})
            else:
                rows_cache = {}
                for s1, s2, m in zip(sims, sims2, meta):
                    pk = cj(s2.code.params)
                    if pk not in rows_cache:
                        rows_cache[pk] = _code_rows(s2.code)
                    same = (type(s2.code).__name__ == name and rows_cache[pk] == rows
                            and cj(s2.error_model.params) == cj(s1.error_model.params)
                            and type(s2.decoder).__name__ == m['decoder']
                            and cj(s2.decoder.params) == cj(s1.decoder.params)
                            and s2.error_rate == s1.error_rate
                            and json.loads(json.dumps(s2._inputs, cls=NumpyEncoder))
                            == json.loads(json.dumps(s1._inputs, cls=NumpyEncoder)))
                    if not same:
                        n_viol += 1
                        V.append({'key': dict(base_key, kind='rerun-of-recorded-inputs-differs',
                                              noise=cj(m['noise'])[:120], decoder=m['decoder']),
                                  'detail': {'original': canon(s1._inputs), 'rebuilt': canon(s2._inputs)}})
                        break
        except Exception as exc:
            n_viol += 1
            V.append({'key': dict(base_key, kind='rerun-of-recorded-inputs-raises', exc=type(exc).__name__,
                                  where=_where(exc)),
                      'detail': {'message': str(exc)[:200]}})
    res['nontrivial'] = len(digests)
    _bump(res, 'roundtrip_simulations', len(sims))
    _bump(res, 'violations_total', n_viol)
    res['violations'] = V[:5]
    res['outcomes'].append('rt|%s|%d|%d|%d' % (name, nkd[0], len(sims), n_viol))
    res['samples'].append({'config': '%s%s' % (name, tuple(size)), 'noise': noises[0] if len(noises) == 1
                           else 'all', 'simulations_round_tripped': len(sims),
                           'example_inputs': recorded_runs[-1]})
    return res


# --------------------------------------------------------------------------------------------
# part 1: expansion

def _probe_built(sims, before):
    """mutate every simulation's recorded parameter dicts (and the dicts its objects hand out);
    -> number of simulations whose recorded or live parameters changed because ANOTHER simulation's
    were mutated. `before` = observe() of every simulation before the mutation."""
    for i, s in enumerate(sims):
        for part in ('code', 'error_model', 'decoder'):
            s._inputs[part]['parameters']['__probe__'] = i
        s.code.params['__probe__'] = i
        s.error_model.params['__probe__'] = i
        s.decoder.params['__probe__'] = i
    bad = 0
    for i, s in enumerate(sims):
        ok = all(s._inputs[part]['parameters'].get('__probe__') == i
                 for part in ('code', 'error_model', 'decoder'))
        if not ok:
            bad += 1
    for s in sims:
        for part in ('code', 'error_model', 'decoder'):
            s._inputs[part]['parameters'].pop('__probe__', None)
    for i, s in enumerate(sims):
        if observe(s) != before[i]:
            bad += 1
    return bad


def _probe_expanded(runs):
    """-> number of expanded runs that share a parameter container with another run."""
    shared = 0
    seen = {}
    for i, run in enumerate(runs):
        for part in ('code', 'error_model', 'decoder'):
            p = run.get(part, {}).get('parameters')
            if isinstance(p, (dict, list)):
                if id(p) in seen and seen[id(p)] != i:
                    shared += 1
                    break
                seen[id(p)] = i
    return shared


# ---- composite decoders: the sub-decoders must effectively carry the decoder's parameters

def _subdecoders(dec):
    """[(attribute path, sub-decoder)] for every BaseDecoder held by an attribute of `dec` (directly or in a
    dict / list / tuple)."""
    from panqec.decoders import BaseDecoder
    out = []
    for name, val in sorted(vars(dec).items()):
        if isinstance(val, BaseDecoder):
            out.append((name, val))
        elif isinstance(val, dict):
            out += [('%s[%s]' % (name, k), v) for k, v in sorted(val.items(), key=lambda kv: str(kv[0]))
                    if isinstance(v, BaseDecoder)]
        elif isinstance(val, (list, tuple)):
            out += [('%s[%d]' % (name, i), v) for i, v in enumerate(val) if isinstance(v, BaseDecoder)]
    return out


_HAS_SUBS = {}


def _ctor_names(cls):
    return [k for k in inspect.signature(cls.__init__).parameters
            if k not in ('self', 'code', 'error_model', 'error_rate', 'args', 'kwargs')]


def _effective_state(dec):
    """what a decoder object is effectively configured with: its params, every plain-valued instance attribute
    and the state of every random generator it holds."""
    attrs, rngs = {}, {}
    for name, val in sorted(vars(dec).items()):
        if val is None or isinstance(val, (bool, int, float, str, np.integer, np.floating, np.bool_)):
            attrs[name] = canon(val)
        elif isinstance(val, np.random.Generator):
            rngs[name] = _digest(json.dumps(val.bit_generator.state, sort_keys=True, default=str))
    return {'params': canon(dec.params), 'attrs': attrs, 'rng': rngs}


# ---- parameters consumed by the constructor into derived objects: checked where they are used

def _matching_point_of_use(dec, deep):
    """MatchingDecoder: `error_type` decides which matchers exist; explicit `weights` = (weights for X errors,
    weights for Z errors) must be the edge weights loaded in the pymatching graph of matcher_x / matcher_z (every
    edge carries the requested weight of the qubit it flips)."""
    out = []
    params = dec.params
    et = params.get('error_type')
    have = [hasattr(dec, 'matcher_x'), hasattr(dec, 'matcher_z')]
    want = [et in (None, 'X'), et in (None, 'Z')]
    if have != want:
        out.append(('error_type', {'error_type': et, 'has_matcher_x': have[0], 'has_matcher_z': have[1]}))
    w = params.get('weights')
    if w is not None:
        for label, attr, vec in (('X', 'matcher_x', w[0]), ('Z', 'matcher_z', w[1])):
            m = getattr(dec, attr, None)
            if m is None:
                continue
            vec = [float(x) for x in np.asarray(vec).ravel()]
            bad = []
            for (_u, _v, a) in m.edges():
                for q in sorted(a.get('fault_ids', ())):
                    if q >= len(vec) or abs(a['weight'] - vec[q]) > 1e-9 * max(1.0, abs(vec[q])):
                        bad.append([int(q), float(a['weight']), vec[q] if q < len(vec) else None])
            if bad:
                out.append(('weights[%s]' % label, {'matcher': attr, 'n_edges_with_other_weight': len(bad),
                                                     'first_qubit_loaded_requested': bad[0]}))
    return out


def _bposd_point_of_use(dec, deep):
    """BeliefPropagationOSDDecoder hands its parameters to the ldpc decoders when these are initialised."""
    if not deep:
        return []
    out = []
    params = dec.params
    with _quiet():
        if not getattr(dec, '_initialized', False):
            dec.initialize_decoders()
    for attr in ('x_decoder', 'z_decoder', 'decoder'):
        ld = getattr(dec, attr, None)
        if ld is None or not hasattr(ld, 'max_iter'):
            continue
        got = {'max_bp_iter': ld.max_iter, 'osd_order': ld.osd_order, 'bp_method': ld.bp_method}
        diff = sorted(k for k in got if k in params and canon(got[k]) != canon(params[k]))
        if diff:
            out.append((','.join(diff), {'ldpc_object': attr, 'loaded': canon(got),
                                         'requested': canon({k: params[k] for k in got if k in params})}))
    return out


_POINT_OF_USE = {'MatchingDecoder': _matching_point_of_use,
                 'BeliefPropagationOSDDecoder': _bposd_point_of_use}


def point_of_use_problems(dec, deep=False, path='', depth=0):
    """the table above applied to a decoder and, recursively, to every sub-decoder it holds"""
    problems = []
    fn = _POINT_OF_USE.get(type(dec).__name__)
    if fn is not None:
        for what, det in fn(dec, deep):
            problems.append(('decoder-parameter-not-in-effect-at-point-of-use',
                             {'decoder_cls': type(dec).__name__, 'sub': path or None, 'parameter': what}, det))
    if depth < 3 and _HAS_SUBS.get(type(dec)) is not False:
        for sp, sub in _subdecoders(dec):
            problems += point_of_use_problems(sub, deep, (path + '.' + sp).lstrip('.'), depth + 1)
    return problems


def composite_problems(dec):
    """-> (problems, unrequested) for one built decoder.
    problems: [(kind, key fields, detail)].  For every sub-decoder and every parameter of `dec` that the
    sub-decoder's constructor also takes, the sub-decoder must be the one obtained by constructing its class with
    KEYWORD arguments: the decoder's value for the shared parameters, the sub-decoder's own reported values for
    the others.  unrequested: {(path): canonical JSON of the sub-decoder parameters `dec` does not expose}."""
    problems, unrequested = [], {}
    # (no decoder is ever used to decode in this check, so whether a class holds sub-decoders is decided by
    # its constructor: remembered per class to keep the per-simulation cost negligible)
    if _HAS_SUBS.get(type(dec)) is False:
        return problems, unrequested
    subs = _subdecoders(dec)
    _HAS_SUBS[type(dec)] = bool(subs)
    if not subs:
        return problems, unrequested
    parent = dec.params
    for path, sub in subs:
        base = {'decoder': type(dec).__name__, 'sub': path, 'sub_cls': type(sub).__name__}
        if sub.error_rate != dec.error_rate or cj(sub.error_model.params) != cj(dec.error_model.params):
            problems.append(('sub-decoder-bound-to-other-noise-or-rate', base,
                             {'decoder_rate': canon(dec.error_rate), 'sub_rate': canon(sub.error_rate),
                              'decoder_noise': canon(dec.error_model.params),
                              'sub_noise': canon(sub.error_model.params)}))
        names = _ctor_names(type(sub))
        own = sub.params
        shared = [k for k in names if k in parent]
        unrequested[path] = cj({k: own.get(k) for k in names if k not in parent and k in own})
        if not shared:
            continue
        kw = {k: own[k] for k in names if k in own}
        kw.update({k: parent[k] for k in shared})
        try:
            with _quiet():
                ref = type(sub)(sub.code, sub.error_model, sub.error_rate, **kw)
        except Exception:
            continue                    # constructibility of a decoder is C05's business
        a, b = _effective_state(sub), _effective_state(ref)
        if a != b:
            diff = sorted('%s.%s' % (sect, k) for sect in a for k in set(a[sect]) | set(b[sect])
                          if a[sect].get(k) != b[sect].get(k))
            problems.append(('sub-decoder-does-not-carry-decoder-parameters',
                             dict(base, parameters=shared, differs=diff),
                             {'decoder_params': canon(parent), 'sub_decoder_effective': a,
                              'keyword_constructed_reference': b}))
    return problems, unrequested


def composite_batch_problems(sims, deep=False):
    """composite_problems over the decoders of one batch + : a sub-decoder parameter the decoder does not expose
    must not change with the decoder parameters the spec requests (same code, noise and rate)."""
    problems, groups, n = [], {}, 0
    for s in sims:
        dec = s.decoder
        pr, unreq = composite_problems(dec)
        problems += pr
        problems += point_of_use_problems(dec, deep)
        if unreq:
            n += 1
        for path, val in unreq.items():
            g = (type(dec).__name__, path, cj(s.code.params), cj(s.error_model.params), cj(s.error_rate))
            groups.setdefault(g, {}).setdefault(val, cj(dec.params))
    for g, vals in sorted(groups.items()):
        if len(vals) > 1:
            problems.append(('sub-decoder-unrequested-parameter-varies-with-requested-parameters',
                             {'decoder': g[0], 'sub': g[1]},
                             {'code': json.loads(g[2]), 'rate': json.loads(g[4]),
                              'sub_parameters_by_decoder_parameters':
                                  [[json.loads(dp), json.loads(v)] for v, dp in sorted(vals.items())][:4]}))
            break
    return problems, n


def _multiset_diff(got, exp):
    missing = exp - got
    extra = got - exp
    return missing, extra


def _via_cli(spec_path, out_path):
    """run the real `panqec run` click command (0 trials) and capture the BatchSimulation it builds."""
    from click.testing import CliRunner
    import panqec.cli as cli
    import panqec.simulation._batch_simulation as bs
    captured = []
    orig = bs.read_input_json

    def wrapper(*a, **k):
        b = orig(*a, **k)
        captured.append(b)
        return b
    bs.read_input_json = wrapper
    try:
        result = CliRunner().invoke(cli.cli, ['run', '-i', spec_path, '-o', out_path, '-t', '0'])
    finally:
        bs.read_input_json = orig
    if result.exception is not None and not isinstance(result.exception, SystemExit):
        raise result.exception
    if len(captured) != 1:
        raise RuntimeError('panqec run built %d batch simulations' % len(captured))
    return captured[0]


def eval_expand(case):
    from panqec.simulation import expand_input_ranges, read_input_dict, read_input_json
    fam = FAMILIES[case['family']]
    res = _new_res()
    all_v = []
    digests = set()
    nontrivial = set()
    tmp = tempfile.mkdtemp(prefix='c13_', dir='/dev/shm' if os.path.isdir('/dev/shm') else None)
    spec_list = []
    for dec_form in DEC_FORMS:
        for rate_form, n_rates in RATE_FORMS:
            if case['container'] == 'runs' and (dec_form == 'list1' or rate_form.startswith('scalar')):
                continue                 # identical specs once written out as explicit runs
            spec_list.append((dec_form, rate_form, n_rates))
    try:
        for si, (dec_form, rate_form, n_rates) in enumerate(spec_list):
            spec, product, ranges = build_spec(fam, case['container'], case['code_form'], case['n_code'],
                                               case['noise_form'], case['n_noise'], dec_form, rate_form,
                                               n_rates)
            text = json.dumps(spec)             # keyword order as written (it is part of the form axis)
            dg = _digest(text)
            digests.add(dg)
            expected = collections.Counter(ref_observation(*t) for t in product)
            if sum(expected.values()) >= 2:
                nontrivial.add(dg)
            key0 = {'family': fam['code'], 'decoder': fam['decoder'], 'container': case['container'],
                    'code_form': case['code_form'], 'n_code': case['n_code'],
                    'noise_form': case['noise_form'], 'n_noise': case['n_noise'],
                    'dec_form': dec_form, 'rate_form': rate_form, 'n_rates': n_rates,
                    'n_expected': sum(expected.values())}
            # an exception stops the whole spec before anything is expanded, so its key carries the axes that
            # select the raising code path (container, decoder-parameter form, rate form) and the family; the
            # remaining shape of the smallest raising spec of this case is in the detail
            key_r = {k: key0[k] for k in ('family', 'decoder', 'container', 'dec_form', 'rate_form', 'n_rates')}
            shape = {k: key0[k] for k in ('code_form', 'n_code', 'noise_form', 'n_noise', 'n_expected')}
            spec_path = os.path.join(tmp, 'spec%d.json' % si)
            with open(spec_path, 'w') as f:
                f.write(text)
            out_path = os.path.join(tmp, 'out%d.json' % si)
            paths = [('read_input_json', lambda: read_input_json(spec_path, out_path)),
                     ('read_input_dict', lambda: read_input_dict(json.loads(text), out_path, verbose=False))]
            if si == len(spec_list) - 1:
                paths.append(('panqec-run', lambda: _via_cli(spec_path, out_path)))
            status = []
            for pname, fn in paths:
                res['evals'] += 1
                try:
                    with _quiet():
                        batch = fn()
                    sims = list(batch._simulations)
                    cache = {}
                    obs = [observe(s, cache) for s in sims]
                    got = collections.Counter(obs)
                except Exception as exc:
                    status.append('raises:' + type(exc).__name__)
                    all_v.append({'key': dict(key_r, kind='raises', path=pname, exc=type(exc).__name__,
                                              where=_where(exc)),
                                  'detail': {'message': str(exc)[:200], 'shape': shape,
                                             'spec': spec if len(text) < 1500 else text[:1500]}})
                    continue
                cprob, ncomp = composite_batch_problems(sims)
                _bump(res, 'composite_decoders_checked', ncomp)
                for kind, kf, det in cprob:
                    all_v.append({'key': dict(key0, kind=kind, path=pname, **kf), 'detail': det})
                if got != expected:
                    missing, extra = _multiset_diff(got, expected)
                    status.append('mismatch')
                    all_v.append({'key': dict(key0, kind='expansion-mismatch', path=pname,
                                              n_got=sum(got.values()), dropped=bool(missing),
                                              unrequested_or_duplicated=bool(extra)),
                                  'detail': {'missing': [json.loads(x) for x in list(missing)[:2]],
                                             'extra': [json.loads(x) for x in list(extra)[:2]],
                                             'n_missing': sum(missing.values()),
                                             'n_extra': sum(extra.values()),
                                             'spec': spec if len(text) < 1500 else text[:1500]}})
                else:
                    status.append('ok%d' % len(sims))
                    bad = _probe_built(sims, obs)
                    if bad:
                        all_v.append({'key': dict(key0, kind='built-simulations-share-parameter-objects',
                                                  path=pname),
                                      'detail': {'simulations_affected_by_mutating_another': bad}})
            # expand_input_ranges on every ranges dict of the spec
            for ri, (rng, rproduct) in enumerate(ranges):
                res['evals'] += 1
                try:
                    with _quiet():
                        runs = expand_input_ranges(json.loads(json.dumps(rng)))
                    got = collections.Counter(_spec_level(r) for r in runs)
                except Exception as exc:
                    status.append('raises:' + type(exc).__name__)
                    if ri == 0:
                        all_v.append({'key': dict(key_r, kind='raises', path='expand_input_ranges',
                                                  exc=type(exc).__name__, where=_where(exc)),
                                      'detail': {'message': str(exc)[:200], 'shape': shape, 'ranges': rng}})
                    continue
                exp = collections.Counter(_spec_level_ref(t) for t in rproduct)
                if got != exp:
                    missing, extra = _multiset_diff(got, exp)
                    status.append('mismatch')
                    all_v.append({'key': dict(key0, kind='expansion-mismatch', path='expand_input_ranges',
                                              range_index=ri, n_expected=sum(exp.values()),
                                              n_got=sum(got.values()), dropped=bool(missing),
                                              unrequested_or_duplicated=bool(extra)),
                                  'detail': {'missing': [json.loads(x) for x in list(missing)[:2]],
                                             'extra': [json.loads(x) for x in list(extra)[:2]],
                                             'ranges': rng}})
                else:
                    status.append('ok%d' % len(runs))
                    # informational (see LEVEL_NOTE): equal-valued runs of expand_input_ranges alias the
                    # spec's parameter containers; nothing in panqec mutates them afterwards
                    _bump(res, 'expanded_runs_aliasing_a_parameter_container', _probe_expanded(runs))
            res['outcomes'].append('%s|%s' % (case['container'], ','.join(status)))
            if si == len(spec_list) - 1:
                res['samples'].append({'spec': spec if len(text) < 900 else text[:900],
                                       'expected_simulations': sum(expected.values()), 'status': status})
    finally:
        shutil.rmtree(tmp, ignore_errors=True)
    res['nontrivial'] = len(nontrivial)
    _bump(res, 'specs', len(digests))
    _bump(res, 'violations_total', len(all_v))
    # simplest spec first; one per (kind, path) — for 'raises' one per (exception, raising function), the
    # first path that shows it; at most 5
    seen = set()
    for v in all_v:
        if v['key']['kind'] == 'raises':
            t = ('raises', v['key']['exc'], v['key']['where'])
        else:
            t = (v['key']['kind'], v['key']['path'])
        if t in seen:
            continue
        seen.add(t)
        res['violations'].append(v)
    res['violations'] = res['violations'][:5]
    res['outcomes'] = sorted(set(res['outcomes']))[:50]
    return res


# --------------------------------------------------------------------------------------------
# part 4: the splitting method

def _split_method_defaults():
    from panqec.simulation import SplittingSimulation
    sig = inspect.signature(SplittingSimulation.__init__)
    return {k: sig.parameters[k].default for k in ('n_init_runs', 'start_run')
            if sig.parameters[k].default is not inspect.Parameter.empty}


def ref_split_observation(code_name, cp, nz, dec_name, dreq, rates, mparams):
    c = ref_code(code_name, cp)
    n = ref_noise(nz)
    d = ref_decoder(dec_name, dreq)
    m = _split_method_defaults()
    m.update(mparams)
    return cj({'sim': 'SplittingSimulation', 'code': c, 'noise': n, 'decoder': d, 'rates': sorted(rates),
               'method': m,
               'recorded': [c[0], c[1], c[2], n[0], n[1], d[0], d[1], sorted(rates),
                            {'name': 'splitting', 'parameters': m}]})


def observe_split(sim):
    """canonical observation of a SplittingSimulation, and the list of pairing problems inside it."""
    code, em = sim.code, sim.error_model
    cp = code.params
    decs = list(sim.decoders)
    rates = [canon(r) for r in sim.error_rates]
    problems = []
    if len(decs) != len(rates):
        problems.append(('splitting-decoder-count', {'n_decoders': len(decs), 'n_rates': len(rates)}))
    wrong = [[i, rates[i], canon(d.error_rate)] for i, d in enumerate(decs[:len(rates)])
             if canon(d.error_rate) != rates[i]]
    if wrong:
        problems.append(('splitting-decoder-built-for-other-rate',
                         {'error_rates': rates, 'decoder_error_rates': [canon(d.error_rate) for d in decs],
                          'first': wrong[0]}))
    c_part = canon([type(code).__name__, {k: cp.get(k) for k in _CODE_KEYS},
                    code.n if type(code).__name__ in _REF_N else None])
    n_part = canon([type(em).__name__, em.params])
    other = [i for i, d in enumerate(decs)
             if canon([type(d.code).__name__, {k: d.code.params.get(k) for k in _CODE_KEYS}]) != c_part[:2]
             or canon([type(d.error_model).__name__, d.error_model.params]) != n_part]
    if other:
        problems.append(('splitting-decoder-bound-to-other-code-or-noise', {'decoder_indices': other[:4]}))
    dparts = sorted({cj([type(d).__name__, d.params]) for d in decs})
    inp = sim._inputs
    obs = json.dumps({
        'sim': type(sim).__name__, 'code': c_part, 'noise': n_part,
        'decoder': json.loads(dparts[0]) if len(dparts) == 1 else [json.loads(x) for x in dparts],
        'rates': sorted(rates),
        'method': canon({'n_init_runs': sim.n_init_runs, 'start_run': sim.start_run}),
        'recorded': canon([inp['code']['name'], {k: inp['code']['parameters'].get(k) for k in _CODE_KEYS},
                           inp['code']['n'] if inp['code']['name'] in _REF_N else None,
                           inp['error_model']['name'], inp['error_model']['parameters'],
                           inp['decoder']['name'], inp['decoder']['parameters'],
                           sorted(canon(list(inp.get('error_rates', [])))), inp.get('method')]),
    }, sort_keys=True)
    return obs, problems


class _DecView:
    """one (simulation, decoder index) of a SplittingSimulation seen as a single-decoder simulation"""
    def __init__(self, sim, i):
        self.code, self.error_model = sim.code, sim.error_model
        self.decoder, self.error_rate = sim.decoders[i], sim.decoders[i].error_rate


def eval_splitting(case):
    from panqec.simulation import read_input_dict, read_input_json
    fam = FAMILIES[case['family']]
    res = _new_res()
    all_v = []
    digests, nontrivial = set(), set()
    tmp = tempfile.mkdtemp(prefix='c13_', dir='/dev/shm' if os.path.isdir('/dev/shm') else None)
    spec_list = [(df, rf, mi) for df in DEC_FORMS for rf in range(len(SPLIT_RATE_FORMS))
                 for mi in range(len(SPLIT_METHOD_PARAMS))]
    try:
        for si, (dec_form, rfi, mi) in enumerate(spec_list):
            order, n_rates, rate_field = SPLIT_RATE_FORMS[rfi]
            rates = [rate_field] if order == 'scalar' else list(rate_field)
            mparams = SPLIT_METHOD_PARAMS[mi]
            rng, product = _range_and_product(fam, case['code_form'], case['n_code'], case['noise_form'],
                                              case['n_noise'], dec_form, 'list', 1)
            rng['error_rate'] = rate_field
            rng['method'] = {'name': 'splitting', 'parameters': dict(mparams)}
            expected = collections.Counter()
            for (cname, cp, nz, dname, dreq, _r) in product:       # one element per (code, noise, decoder set)
                expected[ref_split_observation(cname, cp, nz, dname, dreq, rates, mparams)] += 1
            if case['container'] == 'ranges':
                spec = {'ranges': rng}
            else:
                rng2, product2 = _second_range()                   # a direct-method range next to it
                spec = {'ranges': [rng, rng2]}
                expected.update(ref_observation(*t) for t in product2)
            text = json.dumps(spec)
            dg = _digest(text)
            digests.add(dg)
            if len(rates) >= 2:
                nontrivial.add(dg)
            key0 = {'method': 'splitting', 'family': fam['code'], 'decoder': fam['decoder'],
                    'container': case['container'], 'code_form': case['code_form'], 'n_code': case['n_code'],
                    'noise_form': case['noise_form'], 'n_noise': case['n_noise'], 'dec_form': dec_form,
                    'rate_order': order, 'n_rates': n_rates, 'method_parameters': sorted(mparams),
                    'n_expected': sum(expected.values())}
            spec_path = os.path.join(tmp, 'spec%d.json' % si)
            with open(spec_path, 'w') as f:
                f.write(text)
            out_path = os.path.join(tmp, 'out%d.json' % si)
            paths = [('read_input_json', lambda: read_input_json(spec_path, out_path)),
                     ('read_input_dict', lambda: read_input_dict(json.loads(text), out_path, verbose=False))]
            if si == len(spec_list) - 1:
                paths.append(('panqec-run', lambda: _via_cli(spec_path, out_path)))
            status = []
            for pname, fn in paths:
                res['evals'] += 1
                try:
                    with _quiet():
                        batch = fn()
                    sims = list(batch._simulations)
                    obs, problems, views = [], [], []
                    for s in sims:
                        if hasattr(s, 'decoders'):
                            o, pr = observe_split(s)
                            obs.append(o)
                            problems += pr
                            views += [_DecView(s, i) for i in range(len(s.decoders))]
                        else:
                            obs.append(observe(s))
                    got = collections.Counter(obs)
                    cprob, ncomp = composite_batch_problems(views)
                except Exception as exc:
                    status.append('raises:' + type(exc).__name__)
                    all_v.append({'key': dict(key0, kind='raises', path=pname, exc=type(exc).__name__,
                                              where=_where(exc)),
                                  'detail': {'message': str(exc)[:200],
                                             'spec': spec if len(text) < 1500 else text[:1500]}})
                    continue
                _bump(res, 'splitting_simulations', sum(1 for s in sims if hasattr(s, 'decoders')))
                _bump(res, 'composite_decoders_checked', ncomp)
                seen_kind = set()
                for kind, det in problems:
                    if kind not in seen_kind:
                        seen_kind.add(kind)
                        all_v.append({'key': dict(key0, kind=kind, path=pname),
                                      'detail': dict(det, spec=spec if len(text) < 1500 else text[:1500])})
                for kind, kf, det in cprob:
                    all_v.append({'key': dict(key0, kind=kind, path=pname, **kf), 'detail': det})
                if got != expected:
                    missing, extra = _multiset_diff(got, expected)
                    status.append('mismatch')
                    all_v.append({'key': dict(key0, kind='expansion-mismatch', path=pname,
                                              n_got=sum(got.values()), dropped=bool(missing),
                                              unrequested_or_duplicated=bool(extra)),
                                  'detail': {'missing': [json.loads(x) for x in list(missing)[:2]],
                                             'extra': [json.loads(x) for x in list(extra)[:2]],
                                             'n_missing': sum(missing.values()), 'n_extra': sum(extra.values()),
                                             'spec': spec if len(text) < 1500 else text[:1500]}})
                else:
                    status.append(('ok%d' if not problems else 'paired-wrong%d') % len(sims))
            res['outcomes'].append('split|%s|%s' % (case['container'], ','.join(status)))
            if si == len(spec_list) - 1:
                res['samples'].append({'spec': spec if len(text) < 900 else text[:900],
                                       'expected_simulations': sum(expected.values()), 'status': status})
    finally:
        shutil.rmtree(tmp, ignore_errors=True)
    res['nontrivial'] = len(nontrivial)
    _bump(res, 'splitting_specs', len(digests))
    _bump(res, 'violations_total', len(all_v))
    seen = set()
    for v in all_v:
        t = (v['key']['kind'], v['key']['path'])
        if t in seen:
            continue
        seen.add(t)
        res['violations'].append(v)
    res['violations'] = res['violations'][:5]
    res['outcomes'] = sorted(set(res['outcomes']))[:50]
    return res


# --------------------------------------------------------------------------------------------
# part 5: near-identical axis values; part 6: code x decoder pairings

def _generic_spec(container, cname, code_elems, noise_elems, dname, dlist, rates):
    """-> (spec, reference product by nested loops)"""
    product = []
    for cp in code_elems:
        for nz in noise_elems:
            for dreq in dlist:
                for r in rates:
                    product.append((cname, cp, nz, dname, dreq, r))
    if container == 'runs':
        runs = []
        for (_c, cp, nz, _d, dreq, r) in product:
            dec = {'name': dname}
            if dreq:
                dec['parameters'] = dreq
            runs.append({'label': 'c13', 'code': {'name': cname, 'parameters': cp},
                         'error_model': {'name': 'PauliErrorModel', 'parameters': nz},
                         'decoder': dec, 'error_rate': r})
        return {'runs': runs}, product
    dec = {'name': dname}
    if any(dlist):
        dec['parameters'] = list(dlist)
    rng = {'label': 'c13', 'code': {'name': cname, 'parameters': list(code_elems)},
           'error_model': {'name': 'PauliErrorModel', 'parameters': list(noise_elems)},
           'decoder': dec, 'error_rate': list(rates)}
    if container == 'ranges':
        return {'ranges': rng}, product
    rng2, product2 = _second_range()
    return {'ranges': [rng, rng2]}, product + product2


def _check_spec(res, all_v, tmp, tag, spec, product, key0, deep=False):
    """parse `spec` by read_input_json and read_input_dict and compare the built simulations, as a multiset,
    with the reference product."""
    from panqec.simulation import read_input_dict, read_input_json
    text = json.dumps(spec)
    expected = collections.Counter(ref_observation(*t) for t in product)
    spec_path = os.path.join(tmp, 'spec_%s.json' % tag)
    with open(spec_path, 'w') as f:
        f.write(text)
    out_path = os.path.join(tmp, 'out_%s.json' % tag)
    status = []
    for pname, fn in (('read_input_json', lambda: read_input_json(spec_path, out_path)),
                      ('read_input_dict', lambda: read_input_dict(json.loads(text), out_path, verbose=False))):
        res['evals'] += 1
        try:
            with _quiet():
                batch = fn()
            sims = list(batch._simulations)
            cache = {}
            got = collections.Counter(observe(x, cache) for x in sims)
            cprob, _n = composite_batch_problems(sims, deep)
        except Exception as exc:
            status.append('raises:' + type(exc).__name__)
            all_v.append({'key': dict(key0, kind='raises', path=pname, exc=type(exc).__name__, where=_where(exc)),
                          'detail': {'message': str(exc)[:200], 'spec': spec if len(text) < 1500 else text[:1500]}})
            continue
        for kind, kf, det in cprob:
            all_v.append({'key': dict(key0, kind=kind, path=pname, **kf), 'detail': det})
        if got != expected:
            missing, extra = _multiset_diff(got, expected)
            status.append('mismatch')
            all_v.append({'key': dict(key0, kind='expansion-mismatch', path=pname,
                                      n_expected=sum(expected.values()), n_got=sum(got.values()),
                                      dropped=bool(missing), unrequested_or_duplicated=bool(extra)),
                          'detail': {'missing': [json.loads(x) for x in list(missing)[:2]],
                                     'extra': [json.loads(x) for x in list(extra)[:2]],
                                     'n_missing': sum(missing.values()), 'n_extra': sum(extra.values()),
                                     'spec': spec if len(text) < 1500 else text[:1500]}})
        else:
            status.append('ok%d' % len(sims))
    return status, _digest(text)


def _finish(res, all_v, digests, counter_name):
    res['nontrivial'] = len(digests)
    _bump(res, counter_name, len(digests))
    _bump(res, 'violations_total', len(all_v))
    seen = set()
    for v in all_v:
        t = (v['key']['kind'], v['key'].get('path'), v['key'].get('container'), v['key'].get('decoder'))
        if t not in seen:
            seen.add(t)
            res['violations'].append(v)
    res['violations'] = res['violations'][:5]
    res['outcomes'] = sorted(set(res['outcomes']))[:50]
    return res


def eval_variants(case):
    fam = FAMILIES[case['family']]
    axis = case['axis']
    va = VARIANT_AXES[axis]
    res = _new_res()
    all_v, digests = [], set()
    code_elems = list(fam['sizes'][:2])
    noise_elems = list(va.get('noise', _NOISE[:2]))
    rates = list(va.get('rates', [0.1, 0.2]))
    dlist = list(fam['dclose']) if axis == 'decoder-parameter' else list(fam['dsets'][:2])
    tmp = tempfile.mkdtemp(prefix='c13_', dir='/dev/shm' if os.path.isdir('/dev/shm') else None)
    try:
        for container in ('ranges', 'ranges-list', 'runs'):
            for n_other in (1, 2):          # the other axes with one value, then with two
                ce = code_elems[:n_other]
                ne = noise_elems if 'noise' in va else noise_elems[:n_other]
                re_ = rates if 'rates' in va else rates[:n_other]
                dl = dlist if axis == 'decoder-parameter' else dlist[:n_other]
                spec, product = _generic_spec(container, fam['code'], ce, ne, fam['decoder'], dl, re_)
                key0 = {'part': 'variants', 'axis': axis, 'family': fam['code'], 'decoder': fam['decoder'],
                        'container': container, 'other_axes_values': n_other}
                status, dg = _check_spec(res, all_v, tmp, '%s%d' % (container, n_other), spec, product, key0)
                digests.add(dg)
                res['outcomes'].append('var|%s|%s|%s' % (axis, container, ','.join(status)))
        res['samples'].append({'axis': axis, 'last_spec': spec if len(json.dumps(spec)) < 900 else None})
    finally:
        shutil.rmtree(tmp, ignore_errors=True)
    return _finish(res, all_v, digests, 'variant_specs')


def eval_pairing(case):
    import panqec.codes as PC
    from panqec.config import DECODERS
    from panqec.error_models import PauliErrorModel
    name = case['cls']
    res = _new_res()
    all_v, digests = [], set()
    size = list(F.sizes(name, 0, None, 1)[0])
    try:
        code = getattr(PC, name)(*size)
        code.stabilizer_matrix
    except Exception:
        res['skipped'] += 1
        res['evals'] += 1
        return res
    tmp = tempfile.mkdtemp(prefix='c13_', dir='/dev/shm' if os.path.isdir('/dev/shm') else None)
    n_spec = 0
    try:
        for dname in sorted(DECODERS):
            D = DECODERS[dname]
            if D.__name__ != dname:
                continue                  # a mis-bound name is the registry part's finding
            allowed = D.allowed_codes is None or name in D.allowed_codes
            for nz in PAIR_NOISE:
                for dreq in PAIR_DECODER_PARAMS.get(dname, [{}]):
                    res['evals'] += 1
                    try:
                        with _quiet():
                            for p in PAIR_RATES:
                                D(code, PauliErrorModel(**nz), p, **dreq)
                    except Exception:
                        _bump(res, 'pairings_not_constructible')
                        continue
                    n_spec += 1
                    spec, product = _generic_spec('ranges', name, [size], [nz], dname, [dreq], PAIR_RATES)
                    key0 = {'part': 'pairing', 'cls': name, 'size': size, 'decoder': dname,
                            'in_allowed_codes': allowed, 'noise': cj(nz), 'decoder_params': cj(dreq)}
                    status, dg = _check_spec(res, all_v, tmp, 's%d' % n_spec, spec, product, key0)
                    digests.add(dg)
                    _bump(res, 'pairings_outside_allowed_codes' if not allowed else 'pairings_inside_allowed_codes')
                    res['outcomes'].append('pair|%s|%s|%s' % (dname, allowed, ','.join(status)))
        res['samples'].append({'cls': name, 'size': size, 'constructible_pairing_specs': n_spec})
    finally:
        shutil.rmtree(tmp, ignore_errors=True)
    return _finish(res, all_v, digests, 'pairing_specs')


# --------------------------------------------------------------------------------------------
# part 7: structured decoder parameters, followed to where they are used

def eval_structured(case):
    name, size = case['cls'], list(case['size'])
    res = _new_res()
    all_v, digests = [], set()
    a, b = size
    n = _REF_N[name](a, b, None)
    wsets = [[[fx(q) for q in range(n)], [fz(q) for q in range(n)]] for fx, fz in STRUCT_WEIGHTS]
    dlists = []
    for et in (None, 'X', 'Z'):
        base = {} if et is None else {'error_type': et}
        dlists.append(('weights', et, [dict(base, weights=wsets[0])]))
        dlists.append(('weights-range', et, [dict(base, weights=wsets[0]), dict(base, weights=wsets[1])]))
        dlists.append(('weights-and-default', et, [dict(base, weights=wsets[1]), dict(base)]))
    tmp = tempfile.mkdtemp(prefix='c13_', dir='/dev/shm' if os.path.isdir('/dev/shm') else None)
    try:
        i = 0
        for container in ('ranges', 'ranges-list', 'runs'):
            for form, et, dlist in dlists:
                for noise in (_NOISE[1:2], _NOISE[:2]):
                    i += 1
                    spec, product = _generic_spec(container, name, [size], noise, 'MatchingDecoder', dlist,
                                                  [0.1, 0.2])
                    key0 = {'part': 'structured', 'cls': name, 'size': size, 'decoder': 'MatchingDecoder',
                            'container': container, 'decoder_parameter_form': form, 'error_type': et,
                            'n_noise': len(noise)}
                    status, dg = _check_spec(res, all_v, tmp, 's%d' % i, spec, product, key0, deep=True)
                    digests.add(dg)
                    res['outcomes'].append('struct|%s|%s|%s' % (form, et, ','.join(status)))
            for dlist in ([FAMILIES[0]['dsets'][1]], list(FAMILIES[0]['dsets']), [{'bp_method': 'product_sum'}]):
                i += 1
                spec, product = _generic_spec(container, name, [size], _NOISE[:2], 'BeliefPropagationOSDDecoder',
                                              dlist, [0.1, 0.2])
                key0 = {'part': 'structured', 'cls': name, 'size': size, 'decoder': 'BeliefPropagationOSDDecoder',
                        'container': container, 'decoder_parameter_form': 'followed-into-ldpc',
                        'n_decoder_sets': len(dlist)}
                status, dg = _check_spec(res, all_v, tmp, 's%d' % i, spec, product, key0, deep=True)
                digests.add(dg)
                res['outcomes'].append('struct|bposd|%s' % ','.join(status))
        res['samples'].append({'cls': name, 'size': size, 'specs': i})
    finally:
        shutil.rmtree(tmp, ignore_errors=True)
    return _finish(res, all_v, digests, 'structured_parameter_specs')
