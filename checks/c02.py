"""C02  Parity-check matrix is the faithful image of the lattice definition.

A1 library codes (same configurations as C01): coordinates distinct/disjoint,
   row i == BSF image of get_stabilizer(coord_i), to_bsf/from_bsf inverse,
   CSS masks / Hx / Hz / sector extraction.
A2 the complete universe of user-defined StabilizerCode subclasses on <= 3
   qubits with <= 2 stabilizers of arbitrary X/Y/Z support, over several
   coordinate shapes; to_bsf/from_bsf bijective on all 4^n operators.
A3 hash seeds: child interpreters under different PYTHONHASHSEED must produce
   identical indexing digests.
"""
import hashlib
import itertools
import json
import os
import subprocess
import sys

import numpy as np

from mc import families as F
from mc import gf2
from mc import session

PROPERTY = 'C02'
LEVEL = 'exploration'
DESIGN_REF = 'DESIGN.md §4 C02'
TECHNIQUE = ('bounded exhaustive enumeration: every library (class, size, deformation) below a qubit bound, the '
             'complete universe of user-defined codes on <=3 qubits with <=2 arbitrary stabilizers, and a finite '
             'set of interpreter hash seeds; row-by-row comparison with an independent BSF reference')
LEVEL_TEXT = ('Each configuration is built with the real coordinate API and every row, coordinate list, index map, '
              'CSS mask and conversion is compared with reference code written from the definition '
              '(X=(1,0), Z=(0,1), Y=(1,1)). The user-defined part replaces random subclasses by the complete small '
              'universe; hash-seed independence is decided on a finite seed set in child interpreters.')
LEVEL_NOTE = ('Trusted: mc/gf2.py. Not covered: sizes above the bound, user codes with more than 3 qubits / 2 '
              'stabilizers, hash seeds outside the enumerated set.')
RULE = ('A1: every (class, size, deformation) in the C01 domain (incl. the thin lattices with a side of length 1, Color666PlanarCode with L_y != L_x, and every other size tuple with sides <= 3 that a constructor accepts); A2: every pair of non-identity Pauli supports on '
        'n=2 (225) and n=3 (3969 in thorough; quick: all 63 single stabilizers and a complete 63x63 sweep sharded '
        'over fewer coordinate shapes) for each coordinate shape; A3: one child interpreter per PYTHONHASHSEED. '
        'distinct non-trivial = distinct configurations with at least one non-empty generator; A1 also on used '
        'objects and in per-class sessions (several objects in one process); from_bsf additionally on sparse rows '
        'with unsorted indices / explicit zeros as sparse arithmetic leaves them')
ASSUMPTIONS = ['size family per class as fixed in DESIGN.md §3', 'GF(2)/BSF reference mc/gf2.py']
BOUNDS = {'quick': {'max_n': 150, 'l_max_2d': 6, 'l_max_3d': 4, 'hash_seeds': 8, 'user_shapes': 3},
          'thorough': {'max_n': 1500, 'l_max_2d': 9, 'l_max_3d': 6, 'hash_seeds': 64, 'user_shapes': 6}}

# coordinate shapes for user-defined codes: n qubit coordinates + 2 stabilizer coordinates
SHAPES = [
    ('1-tuples', lambda n: [(i,) for i in range(n)], [(100,), (101,)]),
    ('2-tuples-noncontiguous', lambda n: [(5 * i + 1, -3 * i) for i in range(n)], [(-7, 2), (40, 40)]),
    ('3-tuples-negative', lambda n: [(-i, i, 2 - i) for i in range(n)], [(9, 9, 9), (-9, -9, -9)]),
    ('2-tuples-reversed-order', lambda n: [(n - i, 0) for i in range(n)], [(0, 1), (0, 2)]),
    ('mixed-large', lambda n: [(10 ** 6 * (i + 1), -10 ** 6) for i in range(n)], [(0, 0), (1, 1)]),
    ('3-tuples-type-suffix', lambda n: [(i, i, 0) for i in range(n)], [(0, 0, 1), (1, 1, 1)]),
]


def cases(tier, seed):
    b = BOUNDS[tier]
    out = [dict(c, part='A1') for c in F.configs(b['max_n'], F.CLASSES_2D, l_max=b['l_max_2d'], used=True)]
    out += [dict(c, part='A1') for c in F.configs(b['max_n'], F.CLASSES_3D, l_max=b['l_max_3d'], used=True)]
    # thin lattices (a side of length 1) the open-boundary classes accept, and Color666PlanarCode with
    # L_y != L_x (L_y is ignored): valid codes on the reference tree, outside the DESIGN §3 table
    out += [dict(c, part='A1') for c in F.thin_configs(b['max_n'], l_max=4, deformed=True)]
    out += [dict(c, part='A1') for c in F.ignored_parameter_configs(b['max_n'], l_max=4)]
    # sizes outside every family that the constructors nevertheless accept (sides <= 3): the structural
    # clauses apply to whatever object the library hands out; a refused size is skipped
    out += [dict(c, part='A1') for c in F.accepted_outside_family(3)]
    lib = [c for c in out if F.in_family(c['cls'], c['size']) and min(c['size']) > 1 and not (c['cls'] == 'Color666PlanarCode' and c['size'][0] != c['size'][1])]
    out += [{'part': 'session', 'cfgs': seq} for seq in session.interleave_by_size(lib)]
    out += [{'part': 'session', 'cfgs': seq} for seq in session.across_classes(lib)]
    for sh in range(b['user_shapes']):
        out.append({'part': 'A2', 'n': 1, 'shape': sh, 'first': None})
        out.append({'part': 'A2', 'n': 2, 'shape': sh, 'first': None})
        # n = 3: shard the 63 x 64 space by the first stabilizer
        for first in range(1, 64):
            out.append({'part': 'A2', 'n': 3, 'shape': sh, 'first': first})
    out.append({'part': 'A3', 'seeds': list(range(b['hash_seeds']))})
    return out


def key_of(cfg, kind, **kw):
    d = cfg.get('deformation')
    k = {'part': 'A1', 'kind': kind, 'cls': cfg['cls'], 'size': list(cfg['size']),
         'square': len(set(cfg['size'])) == 1, 'deformation': d[0] if d else None,
         'axis': (d[1].get('deformation_axis', 'default') if d else None),
         'object': 'used' if cfg.get('pre') else 'fresh'}
    k.update(kw)
    return k


# --------------------------------------------------------------------- A1
def eval_library(cfg):
    res = {'evals': 1, 'nontrivial': 0, 'violations': [], 'outcomes': [], 'samples': [], 'extra': {}}
    V = res['violations']

    def bad(kind, **detail):
        if len(V) < 5:
            V.append({'key': key_of(cfg, kind), 'detail': detail})

    try:
        code = F.build(cfg)
        n = code.n
        qc = list(code.qubit_coordinates)
        sc = list(code.stabilizer_coordinates)
        Hm = code.stabilizer_matrix
        H = gf2.matrix_rows(Hm)
    except Exception as exc:
        # C01 owns "cannot be constructed"; here it only means nothing to compare -- unless the object exists and
        # its own lattice definition names a site outside its qubit set (then the matrix cannot be its image)
        res['skipped'] = 1
        res['extra']['construction_failed'] = 1
        try:
            code2 = F.build(cfg)
            qs = set(tuple(q) for q in code2.qubit_coordinates)
            for loc in code2.stabilizer_coordinates:
                outside = [list(q) for q in code2.get_stabilizer(loc) if tuple(q) not in qs]
                if outside:
                    res['skipped'] = 0
                    res['evals'] = res.get('evals', 0) + 1
                    bad('stabilizer-support-outside-qubit-set', stabilizer=list(loc),
                        sites=outside[:4], exc=type(exc).__name__)
                    break
        except Exception:
            pass
        return res
    m = len(sc)
    if len(set(qc)) != len(qc):
        bad('duplicate-qubit-coordinate')
    if len(set(sc)) != len(sc):
        bad('duplicate-stabilizer-coordinate')
    if set(qc) & set(sc):
        bad('qubit-and-stabilizer-share-coordinate', shared=str(sorted(set(qc) & set(sc))[:3]))
    if Hm.shape != (m, 2 * n) or len(H) != m:
        bad('matrix-shape', shape=list(Hm.shape), m=m, n=n)
        return res
    qidx = {loc: i for i, loc in enumerate(qc)}
    if dict(code.qubit_index) != qidx:
        bad('qubit-index-differs-from-coordinate-order')
    if dict(code.stabilizer_index) != {loc: i for i, loc in enumerate(sc)}:
        bad('stabilizer-index-differs-from-coordinate-order')
    # rows are the BSF images of the operators returned for each coordinate
    for i, loc in enumerate(sc):
        op = code.get_stabilizer(loc)
        if len(op) == 0:
            bad('empty-stabilizer', row=i, coord=str(loc))
            continue
        if any(q not in qidx for q in op):
            bad('stabilizer-support-outside-qubits', row=i, coord=str(loc))
            continue
        if any(p not in ('X', 'Y', 'Z') for p in op.values()):
            bad('stabilizer-non-pauli-label', row=i, coord=str(loc))
            continue
        ref = gf2.op_dict_to_int(op, qidx, n)
        if H[i] != ref:
            bad('row-differs-from-operator', row=i, coord=str(loc),
                row_pauli=gf2.int_to_pauli_string(H[i], n)[:80], op_pauli=gf2.int_to_pauli_string(ref, n)[:80])
        # dict -> bsf -> dict
        try:
            v = code.to_bsf(op)
            if gf2.vec_to_int(v) != ref or len(v) != 2 * n:
                bad('to_bsf-differs-from-definition', row=i)
            back = code.from_bsf(np.asarray(v))
            if back != op:
                bad('from_bsf(to_bsf(op))!=op', row=i)
            back2 = code.from_bsf(Hm[i])          # sparse row, as decoders/GUI pass it
            if back2 != op:
                bad('from_bsf(sparse row)!=op', row=i)
        except Exception as exc:
            bad('conversion-raises', row=i, exc=type(exc).__name__, msg=str(exc)[:100])
    # sparse rows as sparse arithmetic produces them (unsorted indices, explicitly stored zeros)
    try:
        from scipy.sparse import csr_matrix as _csr
        pairs = 0
        for i in range(m):
            for j in range(i + 1, m):
                if not (H[i] & H[j] or ((H[i] >> n) & (H[j] & ((1 << n) - 1))) or ((H[j] >> n) & (H[i] & ((1 << n) - 1)))):
                    continue
                pr = Hm[i] + Hm[j]
                pr.data %= 2
                want = H[i] ^ H[j]
                ref_op = {qc[t]: ch for t, ch in enumerate(gf2.int_to_pauli_string(want, n)) if ch != 'I'}
                if code.from_bsf(pr) != ref_op:
                    bad('from_bsf(sparse sum of two generators) wrong', rows=[i, j],
                        sorted_indices=bool(pr.has_sorted_indices))
                pairs += 1
                if pairs >= 12:
                    break
            if pairs >= 12:
                break
        # every single-qubit Y as a csr row with its two columns stored in descending order
        for i in range(min(n, 40)):
            r = _csr((np.array([1, 1], dtype='uint8'), np.array([n + i, i]), np.array([0, 2])), shape=(1, 2 * n))
            if code.from_bsf(r) != {qc[i]: 'Y'}:
                bad('from_bsf(sparse row with unsorted indices) wrong', qubit=i, got=str(code.from_bsf(r)))
                break
    except Exception as exc:
        bad('conversion-raises', exc=type(exc).__name__, msg=str(exc)[:100])
    # logicals: images of the operator dicts
    try:
        for nm, getter, mat in (('x', code.get_logicals_x, code.logicals_x), ('z', code.get_logicals_z, code.logicals_z)):
            ops = getter()
            rows = gf2.matrix_rows(mat)
            if len(ops) != len(rows):
                bad('logical-count-mismatch', which=nm)
            for j, (op, r) in enumerate(zip(ops, rows)):
                if any(q not in qidx for q in op):
                    bad('logical-support-outside-qubits', which=nm, index=j)
                elif gf2.op_dict_to_int(op, qidx, n) != r:
                    bad('logical-row-differs-from-operator', which=nm, index=j)
                elif code.from_bsf(mat[j]) != {q: p for q, p in op.items()}:
                    bad('from_bsf(logical)!=op', which=nm, index=j)
    except Exception as exc:
        res['extra']['logicals_failed'] = 1     # C01 reports invalid logicals
    # bijection on the single-qubit basis (linear extension is by construction of to/from_bsf)
    for i in range(n):
        for p, v in (('X', 1 << i), ('Z', 1 << (n + i)), ('Y', (1 << i) | (1 << (n + i)))):
            vec = np.array(gf2.int_to_vec(v, 2 * n), dtype=np.uint8)
            op = code.from_bsf(vec)
            if op != {qc[i]: p}:
                bad('from_bsf-single-qubit', qubit=i, pauli=p, got=str(op))
                break
            if gf2.vec_to_int(code.to_bsf(op)) != v:
                bad('to_bsf-single-qubit', qubit=i, pauli=p)
                break
    # CSS structure
    xm = [bool((h & ((1 << n) - 1))) for h in H]
    zm = [bool(h >> n) for h in H]
    ref_css = not any(a and b for a, b in zip(xm, zm))
    try:
        xi = [bool(t) for t in code.x_indices]
        zi = [bool(t) for t in code.z_indices]
        if xi != xm or zi != zm:
            bad('type-masks-differ', x_ok=xi == xm, z_ok=zi == zm)
        if bool(code.is_css) != ref_css:
            bad('is_css-wrong', is_css=bool(code.is_css), reference=ref_css)
        if ref_css:
            if any(a == b for a, b in zip(xi, zi)):
                bad('css-masks-do-not-partition-rows')
            mask = (1 << n) - 1
            Hx = gf2.matrix_rows(code.Hx) if code.Hx.shape[0] else []
            Hz = gf2.matrix_rows(code.Hz) if code.Hz.shape[0] else []
            if code.Hx.shape[1] != n or code.Hz.shape[1] != n:
                bad('Hx/Hz-width')
            if Hx != [h & mask for h, t in zip(H, xm) if t]:
                bad('Hx-differs-from-X-block')
            if Hz != [h >> n for h, t in zip(H, zm) if t]:
                bad('Hz-differs-from-Z-block')
            # sector extraction and sector independence on the single-qubit basis
            for i in range(n):
                for p, v in (('X', 1 << i), ('Z', 1 << (n + i))):
                    e = np.array(gf2.int_to_vec(v, 2 * n), dtype=np.uint8)
                    s = code.measure_syndrome(e)
                    sref = gf2.syndrome(H, v, n)
                    if gf2.vec_to_int(s) != sref:
                        bad('syndrome-differs', qubit=i, pauli=p)
                        break
                    sx = [int(t) for t in code.extract_x_syndrome(s)]
                    sz = [int(t) for t in code.extract_z_syndrome(s)]
                    if sx != [(sref >> r) & 1 for r in range(m) if xm[r]] or \
                            sz != [(sref >> r) & 1 for r in range(m) if zm[r]]:
                        bad('sector-extraction-differs', qubit=i, pauli=p)
                        break
                    if p == 'X' and any(sx):
                        bad('x-syndrome-depends-on-x-part-of-error', qubit=i)
                        break
                    if p == 'Z' and any(sz):
                        bad('z-syndrome-depends-on-z-part-of-error', qubit=i)
                        break
        else:
            try:
                code.Hx
                bad('Hx-available-on-non-css-code')
            except ValueError:
                pass
    except Exception as exc:
        bad('css-api-raises', exc=type(exc).__name__, msg=str(exc)[:120])
    res['nontrivial'] = 1 if (n and m) else 0
    res['outcomes'].append(hashlib.sha1(repr((cfg['cls'], n, m, ref_css, H[:3])).encode()).hexdigest()[:10])
    res['samples'].append({'config': F.cfg_label(cfg), 'n': n, 'generators': m, 'css': ref_css})
    return res


# --------------------------------------------------------------------- A2
def make_user_code(qubits, stab_coords, stab_ops):
    from panqec.codes import StabilizerCode

    class UserCode(StabilizerCode):
        dimension = 2
        label = 'user'

        def get_qubit_coordinates(self):
            return list(qubits)

        def get_stabilizer_coordinates(self):
            return list(stab_coords)

        def qubit_axis(self, location):
            return 'x'

        def stabilizer_type(self, location):
            return 'generic'

        def get_stabilizer(self, location):
            return dict(stab_ops[location])

        def get_logicals_x(self):
            return []

        def get_logicals_z(self):
            return []

    return UserCode(1)


def pauli_index_to_op(idx, qubits):
    """idx in base 4 (digit i = Pauli on qubit i, 0=I) -> operator dict."""
    op = {}
    for i, q in enumerate(qubits):
        d = (idx >> (2 * i)) & 3
        if d:
            op[q] = 'XYZ'[d - 1]
    return op


def eval_user(case):
    n, sh = case['n'], case['shape']
    name, qf, scoords = SHAPES[sh]
    qubits = qf(n)
    res = {'evals': 0, 'nontrivial': 0, 'violations': [], 'outcomes': [], 'samples': [], 'extra': {}}
    V = res['violations']
    qidx = {q: i for i, q in enumerate(qubits)}
    firsts = [case['first']] if case['first'] else list(range(1, 4 ** n))
    digests = set()
    for a in firsts:
        for b in range(0, 4 ** n):          # b == 0: a single stabilizer
            ops = [pauli_index_to_op(a, qubits)] + ([pauli_index_to_op(b, qubits)] if b else [])
            coords = scoords[:len(ops)]
            code = make_user_code(qubits, coords, dict(zip(coords, ops)))
            res['evals'] += 1
            ref = [gf2.op_dict_to_int(op, qidx, n) for op in ops]
            kind = None
            try:
                H = gf2.matrix_rows(code.stabilizer_matrix)
                if H != ref:
                    kind = 'row-differs-from-operator'
                elif code.n != n or code.stabilizer_matrix.shape != (len(ops), 2 * n):
                    kind = 'matrix-shape'
                else:
                    xm = [bool(h & ((1 << n) - 1)) for h in ref]
                    zm = [bool(h >> n) for h in ref]
                    css = not any(x and z for x, z in zip(xm, zm))
                    if [bool(t) for t in code.x_indices] != xm or [bool(t) for t in code.z_indices] != zm:
                        kind = 'type-masks-differ'
                    elif bool(code.is_css) != css:
                        kind = 'is_css-wrong'
                    elif css:
                        mask = (1 << n) - 1
                        Hx = gf2.matrix_rows(code.Hx) if code.Hx.shape[0] else []
                        Hz = gf2.matrix_rows(code.Hz) if code.Hz.shape[0] else []
                        if Hx != [h & mask for h, t in zip(ref, xm) if t] or \
                                Hz != [h >> n for h, t in zip(ref, zm) if t]:
                            kind = 'Hx/Hz-differ-from-blocks'
                # conversions on all 4^n operators (once per code is redundant: do it for b <= 1)
                if kind is None and b <= 1:
                    for idx in range(4 ** n):
                        op = pauli_index_to_op(idx, qubits)
                        v = gf2.op_dict_to_int(op, qidx, n)
                        got = code.to_bsf(op)
                        if len(got) != 2 * n or gf2.vec_to_int(got) != v:
                            kind = 'to_bsf-differs-from-definition'
                            break
                        vec = np.array(gf2.int_to_vec(v, 2 * n), dtype=np.uint8)
                        if code.from_bsf(vec) != op or code.from_bsf(vec.reshape(1, -1)) != op:
                            kind = 'from_bsf-not-inverse'
                            break
                        nz = [t for t in range(2 * n) if (v >> t) & 1]
                        if nz:
                            from scipy.sparse import csr_matrix as _csr
                            rrev = _csr((np.ones(len(nz), dtype='uint8'), np.array(nz[::-1]), np.array([0, len(nz)])),
                                        shape=(1, 2 * n))
                            zero_col = [t for t in range(2 * n) if not (v >> t) & 1]
                            cols = nz + zero_col[:1]
                            rzero = _csr((np.array([1] * len(nz) + [0] * len(zero_col[:1]), dtype='uint8'),
                                          np.array(cols), np.array([0, len(cols)])), shape=(1, 2 * n))
                            if code.from_bsf(rrev) != op:
                                kind = 'from_bsf(sparse row with unsorted indices) wrong'
                                break
                            if code.from_bsf(rzero) != op:
                                kind = 'from_bsf(sparse row with explicit zero) wrong'
                                break
                        s = gf2.vec_to_int(code.measure_syndrome(vec))
                        if s != gf2.syndrome(ref, v, n):
                            kind = 'syndrome-differs'
                            break
                    res['evals'] += 4 ** n
            except Exception as exc:
                kind = 'raises-' + type(exc).__name__
            digests.add((a, b))
            if kind and len(V) < 4:
                V.append({'key': {'part': 'A2', 'kind': kind, 'n': n, 'shape': name},
                          'detail': {'stabilizers': [gf2.int_to_pauli_string(r, n) for r in ref],
                                     'qubits': [str(q) for q in qubits]}})
            if kind:
                res['extra']['a2_failures'] = res['extra'].get('a2_failures', 0) + 1
    res['nontrivial'] = len(digests)
    res['outcomes'] = ['A2|%d|%s' % (n, name)]
    res['samples'].append({'user_code': {'qubits': [list(q) for q in qubits],
                                         'stabilizers': [gf2.int_to_pauli_string(
                                             gf2.op_dict_to_int(pauli_index_to_op(firsts[-1], qubits), qidx, n), n)]}})
    return res


# --------------------------------------------------------------------- A3
CHILD = r'''
import sys, hashlib, warnings
warnings.filterwarnings('ignore')
sys.path.insert(0, %(verif)r)
from mc import families as F
import numpy as np
for name in F.CLASSES:
    szs = F.sizes(name, 60, l_max=4)[:2]
    for s in szs:
        for d in [None] + F.deformations(name)[:2]:
            cfg = {'cls': name, 'size': s, 'deformation': d}
            try:
                c = F.build(cfg)
                parts = [repr(list(c.qubit_coordinates)), repr(list(c.stabilizer_coordinates)),
                         repr(sorted(c.qubit_index.items(), key=lambda t: t[1])),
                         repr(sorted(c.stabilizer_index.items(), key=lambda t: t[1])),
                         c.stabilizer_matrix.toarray().tobytes().hex(),
                         np.asarray(c.logicals_x).tobytes().hex(), np.asarray(c.logicals_z).tobytes().hex(),
                         np.asarray(c.x_indices).tobytes().hex(), np.asarray(c.z_indices).tobytes().hex()]
                dig = hashlib.sha1('|'.join(parts).encode()).hexdigest()
            except Exception as exc:
                dig = 'EXC-' + type(exc).__name__
            print(F.cfg_label(cfg).replace(' ', ''), dig)
'''


def eval_seeds(case):
    res = {'evals': 0, 'nontrivial': 0, 'violations': [], 'outcomes': [], 'samples': [], 'extra': {}}
    verif = os.path.dirname(os.path.dirname(os.path.abspath(__file__)))
    code = CHILD % {'verif': verif}
    procs = []
    tables = {}
    seeds = case['seeds']
    batch = 8
    for lo in range(0, len(seeds), batch):
        procs = []
        for s in seeds[lo:lo + batch]:
            env = dict(os.environ)
            env['PYTHONHASHSEED'] = str(s)
            procs.append((s, subprocess.Popen([sys.executable, '-c', code], env=env, stdout=subprocess.PIPE,
                                              stderr=subprocess.PIPE, text=True)))
        for s, p in procs:
            out, err = p.communicate(timeout=600)
            if p.returncode != 0:
                raise RuntimeError('hash-seed child %d failed: %s' % (s, err[-500:]))
            tables[s] = dict(l.split() for l in out.strip().splitlines() if ' ' in l)
    base = tables[seeds[0]]
    res['evals'] = sum(len(t) for t in tables.values())
    res['nontrivial'] = len(base) * (len(seeds) - 1)      # (config, other seed) comparisons
    for s in seeds[1:]:
        for cfg, dig in base.items():
            if tables[s].get(cfg) != dig and len(res['violations']) < 5:
                res['violations'].append({'key': {'part': 'A3', 'kind': 'indexing-depends-on-hash-seed',
                                                  'config': cfg},
                                          'detail': {'seed_a': seeds[0], 'seed_b': s}})
    res['outcomes'] = ['A3|%d' % len(set(tuple(sorted(t.items())) for t in tables.values()))]
    res['samples'].append({'hash_seeds': seeds[:4], 'configs_digested': len(base)})
    res['extra']['hash_seed_children'] = len(seeds)
    return res


def eval_case(case):
    if case['part'] == 'session':
        return session.run(case['cfgs'], eval_library, F.cfg_label)
    if case['part'] == 'A1':
        return eval_library(case)
    if case['part'] == 'A2':
        return eval_user(case)
    return eval_seeds(case)
