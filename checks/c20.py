"""C20  Visualizer backend serves every offered choice with faithful data.

Alphabet: the requests the menus of panqec/gui/js/main.js can build, sent to the
real Flask application of panqec/gui/_gui.py through its test client:
every name from /code-names (2-D and 3-D) x every name from /deformation-names
plus "None" x picture in {kitaev, rotated} x menu sizes L in 1..12 and the
"coprime" option (L+1, L[, L]), restricted to the DESIGN §3 family and a qubit
bound; /decoder-names and /deformation-names for every code; /decode for every
offered decoder x 4 error models x noise deformation x code deformation x the
syndromes of all weight <= 1 errors on the smallest menu size of the family;
/new-errors with numpy.random.default_rng answering the same seeded stream on
both sides, including the probability extremes p = 0 (identity) and p = 1 (every
qubit hit); /decode also at the slider minimum p = 0 and the smallest step 0.01.
Polygon / triangle stabilizers are additionally checked geometrically: no drawn
vertex may leave the frame spanned by all element locations of the answer.
Oracle: reference code in this file (drawability rules read off
gui/js/shapes.js and topologicalCode.js, location transforms read off the
per-class representation overrides) and the library objects built
independently with mc.families.build for the matrices / decoders / noise.
"""
import contextlib
import hashlib
import io
import json
import re
import traceback

from mc import families as F

PROPERTY = 'C20'
LEVEL = 'exploration'
DESIGN_REF = 'DESIGN.md §4 C20, §3, §5 (D13, D12b)'
TECHNIQUE = ('bounded exhaustive enumeration of every request the visualizer menus can build (code x deformation x '
             'picture x menu size incl. coprime option; decoder x error model x noise deformation x all weight<=1 '
             'syndromes; seeded new-errors), each sent to the real Flask application and compared with the library '
             'object built independently')
LEVEL_TEXT = ('The failures this property guards against are missing or misspelt (class, picture, stabilizer type) '
              'entries and endpoint glue errors that only show for one particular menu combination; the menu space '
              'below the qubit bound is finite and small, so every combination is requested from the real '
              'application and every answer is checked completely (status, per-entry drawability, order, matrices, '
              'decoder list, corrections, generated errors). No abstraction is involved: the explored object is the '
              'Flask application itself.')
LEVEL_NOTE = ('Trusted: Flask test client == a browser POST; the drawability rules (required parameters per shape) '
              'read off gui/js/shapes.js; the location transforms read off the class overrides; the library '
              'decoders / PauliErrorModel as reference for /decode and /new-errors (their own correctness is '
              'C05-C10/C07). Not covered: the JavaScript rendering itself, sizes above the qubit bound, '
              'errors of weight >= 2 in /decode, slider values other than the listed ones.')
RULE = ('one sub-case = one HTTP request a menu combination produces. /code-data: every (code name, deformation '
        'or None, picture, menu size L or coprime (L+1,L[,L])) with the size in the DESIGN §3 family and n <= bound; '
        'non-trivial when the answer carries >= 1 qubit and >= 1 stabilizer. /decode: every (code, code '
        'deformation, noise deformation, error model, offered decoder, syndrome of a weight <= 1 Pauli error) on '
        'the smallest family menu size; non-trivial when the syndrome is non-zero and the library returns a '
        'correction. /new-errors: every (code, two smallest menu sizes, code deformation, noise deformation, error '
        'model, p incl. the extremes 0 and 1, seed); non-trivial when the generated error is not the identity. '
        '/decode is repeated at p = 0 and p = 0.01 for the undeformed code and noise. Distinct = distinct request '
        'body (measured by digest).')
ASSUMPTIONS = [
    'size family per class as fixed in DESIGN.md §3 (Color666PlanarCode ignores L_y, so its coprime menu size is '
    'in the family)',
    'a shape is drawable iff gui/js/shapes.js finds every parameter it reads for that object',
    'CSS-only decoders refusing a deformed code object with ValueError is by design (counted as library_refuses)',
    'MBP is requested with max_bp_iter=3 (pure-Python decoder), BP-OSD with the menu default 20',
    'p is sent as the browser sends it (JSON 0 / 1 are integers); the library object is built with the SAME value, '
    'so a decoder that cannot be built at integer p = 0 (BP-OSD, XCube Matching: TypeError in ldpc/pymatching '
    'setup, measured on /repo e8dca0f) counts as "both refuse", and for those decoders 0.01 (the slider step) is '
    'requested as well; '
    'p = 1 lies beyond the slider maximum 0.5 and is requested only from /new-errors, where the answer is fixed '
    'a priori (every qubit carries a Pauli)',
    'table: every qubit / stabilizer description equals the entry of gui-config.json (read by the check itself '
    'from the tree under test) for (class, picture, stabilizer type): object, colours (names resolved with the '
    'code object\'s colormap), opacities and every parameter except the position-dependent ones the class '
    'overrides recompute (axis, normal, angle, vertices, w, length). The kitaev table stands in only where the '
    'picture\'s own table is missing or empty. Boundary cubes of the two shifted-cube classes are redrawn as '
    'rectangles by their override (object/params replaced; colours and opacities still compared). Measured on '
    '/repo f731468, thorough box: no other deviation from the tables in either picture',
    'deformation-independence: under every offered deformation each qubit / stabilizer description (object, '
    'params, location, type, opacity and also colour) equals the one /code-data returns for the undeformed code at '
    'the same index and picture. Rule taken from gui-config.json: its tables are keyed by (class, picture, '
    'stabilizer type) only and stabilizer_type is a function of the coordinate, so nothing in a description may '
    'depend on the Pauli content; measured on /repo (thorough box, both pictures): all descriptions identical',
    'geometry: every vertex of a polygon/triangle stabilizer, placed as gui/js/shapes.js places it (rotation by '
    'angle, orientation by normal, translation by location), lies inside the axis-aligned frame spanned by all '
    'qubit and stabilizer locations of the same answer, up to 1e-9. Measured on /repo e8dca0f over the whole '
    'thorough box (417 code x size x deformation, both pictures): overshoot is exactly 0 for Color488Code, '
    'Color666PlanarCode, RhombicPlanarCode, HollowRhombicCode; the two periodic lattices whose seam polygons are '
    'drawn whole get their measured allowance (= the half-extent of the polygon): Color666ToricCode 2.0, '
    'RhombicToricCode 1.0',
]
BOUNDS = {
    'quick': {'max_n': 150, 'menu_L': [1, 12], 'decode_weight': 1, 'mbp_max_n': 12, 'mbp_iter': 3,
              'bposd_iter': 20, 'p_decode': 0.1, 'p_decode_extremes': [0, 0.01],
              'new_errors_p': [0, 0.1, 0.5, 1], 'new_errors_seeds': [1, 2], 'new_errors_sizes': 2},
    'thorough': {'max_n': 600, 'menu_L': [1, 12], 'decode_weight': 1, 'mbp_max_n': 100, 'mbp_iter': 3,
                 'bposd_iter': 20, 'p_decode': 0.1, 'p_decode_extremes': [0, 0.01],
                 'new_errors_p': [0, 0.1, 0.3, 0.5, 1], 'new_errors_seeds': [1, 2, 3], 'new_errors_sizes': 2},
}
BUDGET_S = {'quick': 900, 'thorough': 7200}      # ~550 / ~3700 core-seconds of work: ~40 s / ~4 min on 16 idle cores

ERROR_MODELS = ['Pure X', 'Pure Y', 'Pure Z', 'Depolarizing']        # main.js:345-350
DIRECTIONS = {'Pure X': (1, 0, 0), 'Pure Y': (0, 1, 0), 'Pure Z': (0, 0, 1),
              'Depolarizing': (1 / 3, 1 / 3, 1 / 3)}                 # what the labels mean
MENU_ALPHA, MENU_BETA = 0.4, 0                                        # main.js:17-18 defaults
# decoders whose library constructor refuses the integer 0 the browser sends for p = 0 (measured, see
# ASSUMPTIONS): p = 0 is still requested (outcome "both refuse"), and the slider step 0.01 in addition
REFUSE_AT_P0 = ('BP-OSD', 'XCube Matching')

# ---- drawability rules read off gui/js/shapes.js -------------------------------------------
NUM, VEC3, VERTS, AXIS = 'num', 'vec3', 'verts', 'axis'
SHAPE_PARAMS = {
    'sphere': {'radius': NUM},
    'rectangle': {'w': NUM, 'h': NUM, 'normal': VEC3, 'angle': NUM},
    'cylinder': {'radius': NUM, 'length': NUM, 'angle': NUM, 'axis': AXIS},
    'octahedron': {'length': NUM, 'angle': NUM},
    'box': {'Lx': NUM, 'Ly': NUM, 'Lz': NUM},
    'cube': {'length': NUM},
    'triangle': {'vertices': VERTS},
    'hexagon': {'radius': NUM, 'normal': VEC3, 'angle': NUM},
    'polygon': {'vertices': VERTS, 'normal': VEC3, 'angle': NUM},
    'cuboctahedron': {},
    'truncated_octahedron': {},
}
NEEDS_3D_LOCATION = {'box', 'cube', 'cuboctahedron', 'truncated_octahedron'}   # read location[2] unguarded
HEX = re.compile(r'^0x[0-9A-Fa-f]{6}$')

# ---- location transforms read off the class overrides --------------------------------------
COLOR_2D = {'Color666ToricCode', 'Color666PlanarCode', 'Color488Code'}       # (x, y, sector) -> (x, y)
STRETCH_Z = {'RotatedToric3DCode', 'RotatedPlanar3DCode'}                    # rotated picture: z * 1.4142
SHIFTED_CUBES = {'RhombicPlanarCode', 'HollowRhombicCode'}                   # boundary cubes drawn 0.9 inwards


def _is_num(x):
    return isinstance(x, (int, float)) and not isinstance(x, bool) and x == x


def _param_ok(kind, v):
    if kind == NUM:
        return _is_num(v)
    if kind == VEC3:
        return isinstance(v, list) and len(v) == 3 and all(_is_num(t) for t in v)
    if kind == VERTS:
        return (isinstance(v, list) and len(v) >= 3
                and all(isinstance(p, list) and len(p) in (2, 3) and all(_is_num(t) for t in p) for p in v)
                and len({len(p) for p in v}) == 1)
    if kind == AXIS:
        return v in ('x', 'y', 'z')
    return False


def _opacity_ok(op):
    if not isinstance(op, dict):
        return False
    for act in ('activated', 'deactivated'):
        d = op.get(act)
        if not isinstance(d, dict):
            return False
        for lvl in ('min', 'max'):
            if not _is_num(d.get(lvl)) or not 0 <= d[lvl] <= 1:
                return False
    return True


def _entry_problem(entry, colour_keys, dim):
    """None, or (what, info) for the first rule an entry breaks."""
    if not isinstance(entry, dict):
        return 'not-an-object', ''
    for k in ('object', 'color', 'opacity', 'params', 'location'):
        if k not in entry:
            return 'missing-field', k
    obj = entry['object']
    if obj not in SHAPE_PARAMS:
        return 'unknown-object', str(obj)[:30]
    col = entry['color']
    if not isinstance(col, dict):
        return 'colour', 'not a table'
    for k in colour_keys:
        if not (isinstance(col.get(k), str) and HEX.match(col[k])):
            return 'colour', '%s=%r' % (k, col.get(k))
    if not _opacity_ok(entry['opacity']):
        return 'opacity', ''
    par = entry['params']
    if not isinstance(par, dict):
        return 'params', 'not a table'
    for k, kind in SHAPE_PARAMS[obj].items():
        if k not in par or not _param_ok(kind, par[k]):
            return 'params', '%s:%s=%r' % (obj, k, par.get(k))
    if obj == 'triangle' and any(len(p) != 3 for p in par['vertices']):
        return 'params', 'triangle vertices are not 3-d'
    loc = entry['location']
    if not (isinstance(loc, list) and len(loc) in (2, 3) and all(_is_num(t) for t in loc)):
        return 'location-shape', repr(loc)[:40]
    if len(loc) != dim or (obj in NEEDS_3D_LOCATION and len(loc) != 3):
        return 'location-shape', repr(loc)[:40]
    return None


def _close(a, b):
    return abs(a - b) <= 1e-9


def _qubit_location_ok(cn, rotated, coord, loc):
    exp = [float(c) for c in coord]
    if rotated and cn in STRETCH_Z:
        exp[2] = exp[2] * 1.4142
    return len(loc) == len(exp) and all(_close(a, b) for a, b in zip(loc, exp))


def _stab_location_ok(cn, rotated, coord, stab_type, loc):
    c = list(coord)
    if cn in COLOR_2D:
        c = c[:2]
    elif len(c) == 4:               # (axis, x, y, z) face / triangle labels
        c = c[1:]
    exp = [float(t) for t in c]
    if rotated and cn in STRETCH_Z:
        exp[2] = exp[2] * 1.4142
    if len(loc) != len(exp):
        return False
    diff = [i for i in range(len(exp)) if not _close(loc[i], exp[i])]
    if not diff:
        return True
    if cn in SHIFTED_CUBES and stab_type == 'cube' and len(diff) == 1:
        return _close(abs(loc[diff[0]] - exp[diff[0]]), 0.9)
    return False


# ---- the description prescribed by gui-config.json, read independently ----------------------
# parameters the class overrides recompute from the element's position (read off the overrides: orientation of
# faces / qubits, clipped boundary polygons, the longer vertical edges and wider upright faces of the rotated 3-D
# lattices); every other parameter, the object, the colours and the opacities come from the table unchanged
POSITION_DEPENDENT_PARAMS = ('axis', 'normal', 'angle', 'vertices', 'w', 'length')


def _load_gui_config():
    import os
    import panqec
    with open(os.path.join(os.path.dirname(panqec.__file__), 'codes', 'gui-config.json')) as f:
        return json.load(f)


def _prescribed(config, cn, picture, element, stab_type):
    """Table entry for (class, picture, element[, stabilizer type]); the picture's own table, the kitaev table
    only where the picture's table is missing or empty (base-class comment: 'Codes without a dedicated rotated
    picture leave that table empty'). None if there is no entry."""
    tabs = config.get(cn, {}).get('qubits' if element == 'qubit' else 'stabilizers', {})
    tab = tabs.get(picture) or tabs.get('kitaev')
    if element == 'stabilizer':
        tab = (tab or {}).get(stab_type)
    return tab or None


def _table_problem(tab, entry, colormap, redrawn):
    """None, or (field, info): the first field of a returned description that is not what the table says.
    `redrawn`: the element is one of the boundary cubes the class draws as a shifted rectangle (object and
    parameters replaced by the override; colours and opacities still come from the table)."""
    if tab is None:
        return 'table', 'gui-config.json has no entry'
    try:
        want_col = {k: colormap[v] for k, v in tab['color'].items()}
    except KeyError as exc:
        return 'color', 'colour name %s of the table is not in the colormap' % exc
    if entry['color'] != want_col:
        return 'color', 'colours %r, table prescribes %r' % (entry['color'], want_col)
    if entry['opacity'] != tab['opacity']:
        return 'opacity', 'opacity %r, table prescribes %r' % (entry['opacity'], tab['opacity'])
    if redrawn:
        return None
    if entry['object'] != tab['object']:
        return 'object', 'object %r, table prescribes %r' % (entry['object'], tab['object'])
    for k, v in tab['params'].items():
        if k not in entry['params']:
            return 'params', 'parameter %r of the table is missing' % k
        if k not in POSITION_DEPENDENT_PARAMS and entry['params'][k] != v:
            return 'params', 'parameter %s=%r, table prescribes %r' % (k, entry['params'][k], v)
    return None


# ---- geometry of objects with explicit vertices (gui/js/shapes.js: triangle, polygon) -------
GEOMETRY_ALLOWANCE = {'Color666ToricCode': 2.0, 'RhombicToricCode': 1.0}     # see ASSUMPTIONS; others 0


def _pad3(loc):
    return [float(t) for t in loc] + [0.0] * (3 - len(loc))


def _drawn_vertices(entry):
    """Absolute vertices as shapes.js computes them, or None for objects without explicit vertices."""
    import math
    par, loc = entry['params'], _pad3(entry['location'])
    if entry['object'] == 'triangle':
        rel = [tuple(float(t) for t in v) for v in par['vertices']]
    elif entry['object'] == 'polygon':
        nx, ny, nz = (float(t) for t in par['normal'])
        nxz, nxy = math.hypot(nx, nz), math.hypot(nx, ny)
        theta = math.pi / 2 if nxz == 0 else math.acos(nz / nxz)
        theta = theta if nx >= 0 else -theta
        alpha = 0.0 if nxy == 0 else math.acos(nx / nxy)
        alpha = alpha if ny > 0 else -alpha
        rel = []
        for v in par['vertices']:
            x, y, z = float(v[0]), float(v[1]), 0.0
            c, s = math.cos(par['angle']), math.sin(par['angle'])
            x, y = c * x - s * y, s * x + c * y                 # rotateZ(angle)
            c, s = math.cos(theta), math.sin(theta)
            x, z = c * x + s * z, -s * x + c * z                # rotateY(theta)
            c, s = math.cos(alpha), math.sin(alpha)
            x, y = c * x - s * y, s * x + c * y                 # rotateZ(alpha)
            rel.append((x, y, z))
    else:
        return None
    return [tuple(loc[a] + v[a] for a in range(3)) for v in rel]


def _geometry_problem(cn, Q, S):
    """None, or (index, info, overshoot) of the first stabilizer drawn beyond the frame of the answer."""
    pts = [_pad3(e['location']) for e in Q] + [_pad3(e['location']) for e in S]
    lo = [min(p[a] for p in pts) for a in range(3)]
    hi = [max(p[a] for p in pts) for a in range(3)]
    allow = GEOMETRY_ALLOWANCE.get(cn, 0.0) + 1e-9
    n_polys = 0
    first = None
    for i, e in enumerate(S):
        vs = _drawn_vertices(e)
        if vs is None:
            continue
        n_polys += 1
        over = max(max(max(v[a] - hi[a], lo[a] - v[a]) for v in vs) for a in range(3))
        if over > allow and first is None:
            first = (i, 'vertices %s of the %s at %r leave the frame %s..%s by %.4f'
                     % ([[round(t, 4) for t in v] for v in vs], e['object'], e['location'],
                        [round(t, 4) for t in lo], [round(t, 4) for t in hi], over), over)
    return first, n_polys


# ---- menu enumeration ----------------------------------------------------------------------

def _menu_in_family(cn, size):
    if cn == 'Color666PlanarCode':          # §3: "L_x >= 1, any L_y (L_y is ignored by the class)"
        return min(size) >= 1
    return F.in_family(cn, size)


def _menu_sizes(cn, dim, max_n, L_range):
    """[(n, size, L, coprime)] offered by the menu, in the family, n <= max_n (n None: constructor raises)."""
    out = []
    for L in range(L_range[0], L_range[1] + 1):
        n_sq = None
        for cop in (False, True):
            size = [L + 1 if cop else L] + [L] * (dim - 1)
            n = F.n_qubits(cn, size)
            if not cop:
                n_sq = n
            if not _menu_in_family(cn, size):
                continue
            if n is not None and n > max_n:
                continue
            out.append((n if n is not None else 0, size, L, cop))
        if n_sq is not None and n_sq > max_n:
            break                           # n grows with L
    out.sort(key=lambda t: (t[0], t[1]))
    return out


_SHARED = None          # set by a 'session' case: every request of the session goes to ONE backend


def _client():
    import logging
    from panqec.gui import GUI
    if _SHARED is not None:
        return _SHARED
    gui = GUI()
    gui.app.logger.disabled = True
    logging.getLogger('werkzeug').disabled = True
    return gui, gui.app.test_client()


def _post(cl, url, body):
    r = cl.post(url, json=body)
    data = None
    if r.status_code == 200:
        data = json.loads(r.data)
    return r.status_code, data


def _code_table():
    """[(code name, class name, dimension, deformation names, decoder names)] as the endpoints list them."""
    import panqec.gui._gui as G
    gui, cl = _client()
    out = []
    for dim in (2, 3):
        st, names = _post(cl, '/code-names', {'dimension': dim})
        for name in names:
            cls = G.codes[name]
            st1, defs = _post(cl, '/deformation-names', {'code_name': name})
            st2, decs = _post(cl, '/decoder-names', {'code_name': name})
            out.append((name, cls.__name__, dim, defs if st1 == 200 else [], decs if st2 == 200 else []))
    return out


def cases(tier, seed):
    b = BOUNDS[tier]
    out = [{'kind': 'names'}]
    table = _code_table()
    cd, ne, de = [], [], []
    for name, cn, dim, defs, decs in table:
        if cn not in F.CLASSES:
            continue                        # reported by the 'names' case
        sizes = _menu_sizes(cn, dim, b['max_n'], b['menu_L'])
        for n, size, L, cop in sizes:
            for d in ['None'] + defs:
                cd.append((n, {'kind': 'code-data', 'code_name': name, 'cls': cn, 'dim': dim, 'size': size,
                               'L': L, 'coprime': cop, 'deformation': d}))
        valid = [t for t in sizes if not (cn == 'Color666ToricCode' and len(set(t[1])) > 1)]   # D12b: no code
        if not valid:
            continue
        picked = [valid[0]] + [t for t in valid[1:] if t[3] != valid[0][3]][:b['new_errors_sizes'] - 1]
        for n, size, L, cop in picked:
            for d in ['None'] + defs:
                ne.append((n, {'kind': 'new-errors', 'code_name': name, 'cls': cn, 'dim': dim, 'size': size,
                               'L': L, 'coprime': cop, 'deformation': d, 'noise_deformations': ['None'] + defs,
                               'p': b['new_errors_p'], 'seeds': b['new_errors_seeds']}))
        n, size, L, cop = valid[0]
        for dn in decs:
            mbp = dn == 'MBP'
            if mbp and n > b['mbp_max_n']:
                continue
            chunk = max(1, (150 if mbp else 1500) // max(n, 1))
            for d in ['None'] + defs:
                for nd in ['None'] + defs:
                    for em in ERROR_MODELS:
                        for lo in range(0, n, chunk):
                            de.append((n, {'kind': 'decode', 'code_name': name, 'cls': cn, 'dim': dim,
                                           'size': size, 'L': L, 'coprime': cop, 'deformation': d,
                                           'noise_deformation': nd, 'error_model': em, 'decoder': dn,
                                           'lo': lo, 'hi': min(n, lo + chunk), 'p': b['p_decode'],
                                           'max_bp_iter': b['mbp_iter'] if mbp else b['bposd_iter']}))
                            if d == 'None' and nd == 'None':        # slider minimum and smallest step
                                for pe in b['p_decode_extremes']:
                                    if pe == 0 or dn in REFUSE_AT_P0:
                                        de.append((n, dict(de[-1][1], p=pe)))
    for lst in (cd, ne, de):
        lst.sort(key=lambda t: t[0])
        out += [c for _, c in lst]
    # sessions: request sequences against one backend (deformation toggled, size changed, then decode /
    # new-errors), built from the request cases above
    sessions = []
    by_code = {}
    for _, c in cd:
        by_code.setdefault(c['code_name'], []).append(c)
    for name, lst in by_code.items():
        if lst[0]['cls'] == 'Color666ToricCode':
            lst = [c for c in lst if len(set(c['size'])) == 1]          # D12b sizes cannot be built at all
        sizes = []
        for c in lst:
            if c['size'] not in sizes:
                sizes.append(c['size'])
        sizes = sizes[:2]
        at = {(tuple(c['size']), c['deformation']): c for c in lst}
        defs = [d for d in dict.fromkeys(c['deformation'] for c in lst) if d != 'None']
        s0 = tuple(sizes[0])
        first_dec = next((c for _, c in de if c['code_name'] == name and tuple(c['size']) == s0
                          and c['deformation'] == 'None' and c['noise_deformation'] == 'None'), None)
        first_ne = next((c for _, c in ne if c['code_name'] == name and tuple(c['size']) == s0
                         and c['deformation'] == 'None'), None)
        for d in defs:
            sessions.append({'kind': 'session', 'seq': [at[(s0, d)], at[(s0, 'None')]]})
            sessions.append({'kind': 'session', 'seq': [at[(s0, 'None')], at[(s0, d)], at[(s0, 'None')]]})
            if first_dec is not None:
                sessions.append({'kind': 'session', 'seq': [at[(s0, d)], first_dec]})
            if first_ne is not None:
                sessions.append({'kind': 'session', 'seq': [at[(s0, d)], first_ne]})
        if len(defs) > 1:
            sessions.append({'kind': 'session', 'seq': [at[(s0, defs[0])], at[(s0, defs[1])], at[(s0, defs[0])]]})
        if len(sizes) > 1:
            s1 = tuple(sizes[1])
            sessions.append({'kind': 'session', 'seq': [at[(s0, 'None')], at[(s1, 'None')], at[(s0, 'None')]]})
    return out + sessions


# ---- evaluation ----------------------------------------------------------------------------

def _where(exc):
    hit = None
    for fs in traceback.extract_tb(exc.__traceback__):
        if '/panqec/' in fs.filename.replace('\\', '/'):
            hit = fs
    return '%s:%s' % (hit.filename.rsplit('/', 1)[-1], hit.name) if hit else None


class _Catch:
    """Records the exception behind an HTTP 500 (Flask's got_request_exception signal)."""

    def __init__(self, app):
        from flask import got_request_exception
        self.exc = None
        self._h = self._handler          # keep a strong reference: blinker connects weakly
        got_request_exception.connect(self._h, app)

    def _handler(self, sender, exception=None, **kw):
        self.exc = exception

    def take(self):
        e, self.exc = self.exc, None
        return e


def _base_key(case, endpoint, kind, **kw):
    k = {'kind': kind, 'endpoint': endpoint, 'code_name': case['code_name'], 'cls': case['cls'],
         'size': list(case['size']), 'square': len(set(case['size'])) == 1, 'coprime': bool(case['coprime']),
         'deformation': case['deformation']}
    k.update(kw)
    return k


def _req_base(case):
    s = case['size']
    return {'Lx': s[0], 'Ly': s[1], 'Lz': case['L'], 'code_name': case['code_name'],
            'code_deformation_name': case['deformation']}


def _cfg(case):
    d = case['deformation']
    return {'cls': case['cls'], 'size': list(case['size']), 'deformation': None if d == 'None' else [d, {}]}


def _digest(obj):
    return hashlib.sha1(json.dumps(obj, sort_keys=True, default=str).encode()).hexdigest()[:10]


def _new(res=None):
    return {'evals': 0, 'nontrivial': 0, 'violations': [], 'outcomes': [], 'samples': [], 'skipped': 0,
            'extra': {}}


def _bump(res, name, by=1):
    res['extra'][name] = res['extra'].get(name, 0) + by


def _eval_names(case):
    import panqec.gui._gui as G
    res = _new()
    gui, cl = _client()
    seen = {}
    for dim in (2, 3):
        st, names = _post(cl, '/code-names', {'dimension': dim})
        res['evals'] += 1
        if st != 200 or not isinstance(names, list):
            res['violations'].append({'key': {'kind': 'http-status', 'endpoint': '/code-names', 'dimension': dim,
                                              'status': st}, 'detail': {}})
            continue
        for name in names:
            cls = G.codes.get(name)
            if cls is None or name in seen or cls.dimension != dim:
                res['violations'].append({'key': {'kind': 'code-list', 'endpoint': '/code-names',
                                                  'code_name': name, 'dimension': dim},
                                          'detail': {'message': 'unknown, duplicate or wrong-dimension name'}})
                continue
            seen[name] = cls
    for name, cls in seen.items():
        cn = cls.__name__
        if cn not in F.CLASSES:
            _bump(res, 'codes_without_family_entry')
            res['capped'] = 1
        # decoders offered == those declaring support
        st, decs = _post(cl, '/decoder-names', {'code_name': name})
        res['evals'] += 1
        expected = sorted(dn for dn, dc in G.decoders.items()
                          if dc.allowed_codes is None or cn in dc.allowed_codes)
        if st != 200:
            res['violations'].append({'key': {'kind': 'http-status', 'endpoint': '/decoder-names',
                                              'code_name': name, 'cls': cn, 'status': st}, 'detail': {}})
        elif sorted(decs) != expected:
            res['violations'].append({'key': {'kind': 'decoder-list', 'endpoint': '/decoder-names',
                                              'code_name': name, 'cls': cn},
                                      'detail': {'offered': decs, 'declaring_support': expected}})
        else:
            res['nontrivial'] += 1
            res['outcomes'].append('dec|%s|%s' % (cn, ','.join(decs)))
        # deformation menu == what the class offers
        st, defs = _post(cl, '/deformation-names', {'code_name': name})
        res['evals'] += 1
        if st != 200:
            res['violations'].append({'key': {'kind': 'http-status', 'endpoint': '/deformation-names',
                                              'code_name': name, 'cls': cn, 'status': st}, 'detail': {}})
        elif list(defs) != list(cls.deformation_names) or len(set(defs)) != len(defs) or 'None' in defs:
            res['violations'].append({'key': {'kind': 'deformation-list', 'endpoint': '/deformation-names',
                                              'code_name': name, 'cls': cn},
                                      'detail': {'offered': defs, 'class': list(cls.deformation_names)}})
        else:
            res['nontrivial'] += 1
            res['outcomes'].append('def|%s|%s' % (cn, ','.join(defs)))
    _bump(res, 'codes_offered', len(seen))
    res['samples'].append({'codes_offered': sorted(seen)})
    return res


def _eval_code_data(case):
    import numpy as np
    res = _new()
    V = res['violations']
    gui, cl = _client()
    catch = _Catch(gui.app)
    cn, dim = case['cls'], case['dim']
    lib = None
    n_viol = 0
    for rotated in (False, True):
        picture = 'rotated' if rotated else 'kitaev'
        body = dict(_req_base(case), rotated_picture=rotated)
        st, data = _post(cl, '/code-data', body)
        res['evals'] += 1
        _bump(res, 'code_data_requests')
        exc = catch.take()

        def emit(kind, detail, **kw):
            V.append({'key': _base_key(case, '/code-data', kind, picture=picture, **kw), 'detail': detail})

        if st != 200:
            n_viol += 1
            emit('http-status', {'message': str(exc)[:200] if exc is not None else '', 'request': body},
                 status=st, exc=type(exc).__name__ if exc is not None else None,
                 where=_where(exc) if exc is not None else None)
            res['outcomes'].append('%s|%s|%d' % (cn, picture, st))
            continue
        if lib is None:
            lib = F.build(_cfg(case))
            lib_H = lib.stabilizer_matrix.toarray()
            lib_lx = np.asarray(lib.logicals_x)
            lib_lz = np.asarray(lib.logicals_z)
            qcoords = list(lib.qubit_coordinates)
            scoords = list(lib.stabilizer_coordinates)
            stypes = [lib.stabilizer_type(c) for c in scoords]
            config = _load_gui_config()
        n, m = lib.n, len(scoords)
        before = len(V)
        missing = [k for k in ('H', 'qubits', 'stabilizers', 'logical_x', 'logical_z')
                   if not isinstance(data, dict) or k not in data]
        if missing:
            emit('missing-field', {'fields': missing})
            n_viol += 1
            continue
        Q, S = data['qubits'], data['stabilizers']
        if len(Q) != n or len(S) != m:
            emit('length', {'qubits': len(Q), 'n': n, 'stabilizers': len(S), 'm': m})
        else:
            bad = None
            for i, e in enumerate(Q):
                p = _entry_problem(e, ('I', 'X', 'Y', 'Z'), dim)
                if p is None and not _qubit_location_ok(cn, rotated, qcoords[i], e['location']):
                    p = ('location', 'location %r for coordinate %r' % (e['location'], qcoords[i]))
                if p is None:
                    t = _table_problem(_prescribed(config, cn, picture, 'qubit', None), e, lib.colormap, False)
                    p = t and ('table', '%s: %s' % t)
                    _bump(res, 'descriptions_compared_with_table')
                if p is not None:
                    bad = bad or ('qubit', i, p)
                    _bump(res, 'bad_entries')
            for i, e in enumerate(S):
                p = _entry_problem(e, ('activated', 'deactivated'), dim)
                if p is None and e.get('type') != stypes[i]:
                    p = ('type', 'type %r, library says %r' % (e.get('type'), stypes[i]))
                if p is None and not _stab_location_ok(cn, rotated, scoords[i], stypes[i], e['location']):
                    p = ('location', 'location %r for coordinate %r' % (e['location'], scoords[i]))
                if p is None:
                    redrawn = (cn in SHIFTED_CUBES and stypes[i] == 'cube' and e['object'] == 'rectangle'
                               and any(not _close(a, b) for a, b in zip(e['location'], scoords[i])))
                    t = _table_problem(_prescribed(config, cn, picture, 'stabilizer', stypes[i]), e,
                                       lib.colormap, redrawn)
                    p = t and ('table', '%s: %s' % t)
                    _bump(res, 'descriptions_compared_with_table')
                if p is not None:
                    bad = bad or ('stabilizer', i, p)
                    _bump(res, 'bad_entries')
            if bad is None:
                geo, n_polys = _geometry_problem(cn, Q, S)
                _bump(res, 'polygons_checked', n_polys)
                if geo is not None:
                    bad = ('stabilizer', geo[0], ('geometry', geo[1]))
                    _bump(res, 'bad_entries')
            if bad is None and case['deformation'] != 'None':
                # a Clifford deformation relabels Paulis; it moves / reshapes / recolours nothing: the tables of
                # gui-config.json are keyed by (class, picture, stabilizer type) and the type is a function of
                # the coordinate alone, so the answer for the undeformed code prescribes every description
                st0, data0 = _post(cl, '/code-data', dict(body, code_deformation_name='None'))
                catch.take()
                res['evals'] += 1
                _bump(res, 'undeformed_reference_requests')
                if st0 == 200 and len(data0['qubits']) == n and len(data0['stabilizers']) == m:
                    for what, lst, ref in (('qubit', Q, data0['qubits']), ('stabilizer', S, data0['stabilizers'])):
                        for i, (e, e0) in enumerate(zip(lst, ref)):
                            _bump(res, 'descriptions_compared_with_undeformed')
                            if e != e0:
                                fld = next(k for k in sorted(set(e) | set(e0)) if e.get(k) != e0.get(k))
                                bad = bad or (what, i, ('depends-on-deformation',
                                                        '%s is %r under %s, %r on the undeformed code'
                                                        % (fld, e.get(fld), case['deformation'], e0.get(fld))))
                                _bump(res, 'bad_entries')
                else:
                    _bump(res, 'undeformed_reference_unavailable')
            if bad:
                what, i, (rule, info) = bad
                emit('entry-' + rule, {'first': '%s %d' % (what, i), 'info': info,
                                       'stabilizer_type': stypes[i] if what == 'stabilizer' else None},
                     element=what)
        for fld, ref in (('H', lib_H), ('logical_x', lib_lx), ('logical_z', lib_lz)):
            try:
                got = np.array(data[fld])
            except ValueError:
                got = None
            if got is None or got.shape != ref.shape or not np.array_equal(got, ref):
                emit('matrix-mismatch', {'got_shape': None if got is None else list(got.shape),
                                         'library_shape': list(ref.shape)}, field=fld)
            elif not np.isin(got, (0, 1)).all():
                emit('matrix-not-binary', {}, field=fld)
        n_viol += len(V) - before
        if n >= 1 and m >= 1 and len(V) == before:
            res['nontrivial'] += 1
        objs = sorted({e.get('object') for e in Q + S if isinstance(e, dict)})
        res['outcomes'].append('%s|%s|%d|%d|%s' % (cn, picture, n, m, ','.join(map(str, objs))))
        if not rotated:
            res['samples'].append({'request': body, 'n': n, 'stabilizers': m, 'objects': objs})
    _bump(res, 'code_data_violations', n_viol)
    del V[5:]
    return res


@contextlib.contextmanager
def _seeded_default_rng(seed):
    """numpy.random.default_rng() (no seed given) answers the stream of `seed`: the RNG is environment."""
    import numpy as np
    orig = np.random.default_rng

    def patched(s=None, *a, **k):
        return orig(seed if s is None else s, *a, **k)
    np.random.default_rng = patched
    try:
        yield
    finally:
        np.random.default_rng = orig


def _eval_new_errors(case):
    import numpy as np
    from panqec.error_models import PauliErrorModel
    res = _new()
    V = res['violations']
    gui, cl = _client()
    catch = _Catch(gui.app)
    seen = set()
    n_viol = 0
    for nd in case['noise_deformations']:
        for em in ERROR_MODELS:
            for p in case['p']:
                # at the extremes the answer does not depend on the stream: one seed
                for seed in (case['seeds'] if 0 < p < 1 else case['seeds'][:1]):
                    body = dict(_req_base(case), p=p, noise_deformation_name=nd, error_model=em)
                    with _seeded_default_rng(seed):
                        st, got = _post(cl, '/new-errors', body)
                    exc = catch.take()
                    lib = F.build(_cfg(case))
                    with _seeded_default_rng(seed):
                        ref = PauliErrorModel(*DIRECTIONS[em],
                                              deformation_name=None if nd == 'None' else nd).generate(lib, p)
                    ref = np.asarray(ref).tolist()
                    res['evals'] += 1
                    _bump(res, 'new_errors_requests')
                    key = None
                    nq = lib.n
                    if st != 200:
                        key = _base_key(case, '/new-errors', 'http-status', noise_deformation=nd, error_model=em,
                                        p=p, status=st, exc=type(exc).__name__ if exc is not None else None,
                                        where=_where(exc) if exc is not None else None)
                    elif p == 0 and (not isinstance(got, list) or len(got) != 2 * nq or any(got)):
                        # a priori: probability 0 leaves every qubit alone
                        key = _base_key(case, '/new-errors', 'new-errors-at-p0-not-identity',
                                        noise_deformation=nd, error_model=em, p=p)
                    elif p == 1 and (not isinstance(got, list) or len(got) != 2 * nq
                                     or not all(got[i] or got[nq + i] for i in range(nq))):
                        # a priori: probability 1 puts a Pauli on every qubit
                        key = _base_key(case, '/new-errors', 'new-errors-at-p1-not-full-weight',
                                        noise_deformation=nd, error_model=em, p=p)
                    elif got != ref:
                        key = _base_key(case, '/new-errors', 'new-errors-mismatch', noise_deformation=nd,
                                        error_model=em, p=p)
                    if key is not None:
                        n_viol += 1
                        if len(V) < 5 and key not in [v['key'] for v in V]:
                            V.append({'key': key, 'detail': {'request': body, 'seed': seed,
                                                             'endpoint': got if got is None else str(got)[:200],
                                                             'library': str(ref)[:200],
                                                             'message': str(exc)[:200] if exc else ''}})
                        continue
                    if len(ref) != 2 * lib.n:
                        raise AssertionError('library error has wrong length')      # harness-level sanity
                    if any(ref):
                        seen.add(_digest([body, seed]))
                    if p in (0, 1):
                        _bump(res, 'new_errors_extreme_p_requests')
                    res['outcomes'].append('%s|%s|%d' % (case['cls'], em, sum(ref)))
    res['nontrivial'] = len(seen)
    res['outcomes'] = sorted(set(res['outcomes']))[:50]
    res['samples'].append({'request': body, 'seed': seed, 'errors': ref[:40]})
    _bump(res, 'new_errors_violations', n_viol)
    return res


def _decoder_kwargs(dn, max_bp_iter):
    """What the menu parameters mean for each decoder (main.js sends max_bp_iter/alpha/beta with every
    request; BP-OSD is used at order 0)."""
    kw = {}
    if dn in ('BP-OSD', 'MBP'):
        kw['max_bp_iter'] = max_bp_iter
    if dn == 'BP-OSD':
        kw['osd_order'] = 0
    if dn == 'MBP':
        kw['alpha'] = MENU_ALPHA
        kw['beta'] = MENU_BETA
    return kw


def _eval_decode(case):
    import numpy as np
    import panqec.gui._gui as G
    from panqec.error_models import PauliErrorModel
    res = _new()
    V = res['violations']
    gui, cl = _client()
    catch = _Catch(gui.app)
    dn, em, nd = case['decoder'], case['error_model'], case['noise_deformation']
    probe = F.build(_cfg(case))
    n = probe.n
    errors = []
    if case['lo'] == 0:
        errors.append(('I', -1, np.zeros(2 * n, dtype=np.uint8)))
    for q in range(case['lo'], case['hi']):
        for pauli in 'XYZ':
            e = np.zeros(2 * n, dtype=np.uint8)
            if pauli in 'XY':
                e[q] = 1
            if pauli in 'ZY':
                e[n + q] = 1
            errors.append((pauli, q, e))
    seen = set()
    n_viol = 0
    kw = _decoder_kwargs(dn, case['max_bp_iter'])
    for pauli, q, e in errors:
        syndrome = [int(t) for t in probe.measure_syndrome(e)]
        body = dict(_req_base(case), p=case['p'], max_bp_iter=case['max_bp_iter'], alpha=MENU_ALPHA,
                    beta=MENU_BETA, channel_update=False, syndrome=syndrome, noise_deformation_name=nd,
                    decoder=dn, error_model=em)
        with contextlib.redirect_stdout(io.StringIO()):
            st, got = _post(cl, '/decode', body)
        exc = catch.take()
        # the corresponding library decoder, same kwargs, fresh code, fresh decoder
        lib = F.build(_cfg(case))
        lib_exc = None
        ref = None
        try:
            with contextlib.redirect_stdout(io.StringIO()):
                model = PauliErrorModel(*DIRECTIONS[em], deformation_name=None if nd == 'None' else nd)
                dec = G.decoders[dn](lib, model, case['p'], **kw)
                c = np.asarray(dec.decode(np.array(syndrome)))
            ref = {'x': [int(t) for t in c[:n]], 'z': [int(t) for t in c[n:]]}
        except Exception as x:              # refusal by the library is an outcome, compared below
            lib_exc = x
        res['evals'] += 1
        _bump(res, 'decode_requests')
        if case['p'] != 0.1:
            _bump(res, 'decode_extreme_p_requests')
        key = None
        if lib_exc is not None and st != 200:
            same = exc is not None and type(exc) is type(lib_exc)
            if same:
                by_design = isinstance(lib_exc, ValueError) and case['deformation'] != 'None'
                _bump(res, 'library_refuses' if by_design else 'library_raises_other')
                if case['p'] == 0:
                    _bump(res, 'both_refuse_at_p0')
                res['outcomes'].append('%s|%s|refuse:%s' % (case['cls'], dn, type(lib_exc).__name__))
                continue
            key = _base_key(case, '/decode', 'decode-refusal-differs', decoder=dn, error_model=em, p=case['p'],
                            noise_deformation=nd, status=st, exc=type(exc).__name__ if exc else None,
                            library_exc=type(lib_exc).__name__)
        elif lib_exc is not None:
            key = _base_key(case, '/decode', 'decode-answers-where-library-refuses', decoder=dn, error_model=em,
                            p=case['p'],
                            noise_deformation=nd, library_exc=type(lib_exc).__name__)
        elif st != 200:
            key = _base_key(case, '/decode', 'http-status', decoder=dn, error_model=em, noise_deformation=nd,
                            p=case['p'],
                            status=st, exc=type(exc).__name__ if exc is not None else None,
                            where=_where(exc) if exc is not None else None)
        elif got != ref:
            key = _base_key(case, '/decode', 'decode-mismatch', decoder=dn, error_model=em, noise_deformation=nd,
                            p=case['p'])
        if key is not None:
            n_viol += 1
            if len(V) < 5 and key not in [v['key'] for v in V]:
                V.append({'key': key, 'detail': {'error': '%s on qubit %d' % (pauli, q),
                                                 'request': {k: v for k, v in body.items() if k != 'syndrome'},
                                                 'syndrome_weight': sum(syndrome),
                                                 'endpoint': str(got)[:300], 'library': str(ref)[:300],
                                                 'message': str(exc)[:200] if exc is not None else '',
                                                 'library_message': str(lib_exc)[:200] if lib_exc else ''}})
            continue
        if any(syndrome):
            seen.add(_digest(body))
        res['outcomes'].append('%s|%s|w%d' % (case['cls'], dn, sum(ref['x']) + sum(ref['z'])))
    res['nontrivial'] = len(seen)
    res['outcomes'] = sorted(set(res['outcomes']))[:50]
    if case['lo'] == 0 and em == 'Depolarizing':
        res['samples'].append({'request': {k: v for k, v in body.items() if k != 'syndrome'},
                               'error': '%s on qubit %d' % (pauli, q), 'correction': ref})
    _bump(res, 'decode_violations', n_viol)
    return res


def _eval_session(case):
    """A menu session: several requests answered by ONE backend object, each judged by the same absolute
    oracle as when it is the only request (a backend that remembers a code between requests must not let
    an earlier choice of deformation / size leak into a later answer)."""
    global _SHARED
    _SHARED = None
    _SHARED = _client()
    total = _new()
    try:
        for pos, sub in enumerate(case['seq']):
            r = eval_case(sub)
            for v in r.get('violations', []):
                v['key']['session_position'] = pos
                v['key']['part'] = 'session'
                v['detail']['requests_before'] = [
                    '%s %s %s def=%s' % (q['kind'], q['code_name'], q['size'], q['deformation'])
                    for q in case['seq'][:pos]]
            for k, val in r.items():
                if isinstance(val, bool):
                    continue
                if isinstance(val, int):
                    total[k] = total.get(k, 0) + val
                elif isinstance(val, list):
                    total[k] = (total.get(k) or []) + val
                elif isinstance(val, dict):
                    tgt = total.setdefault(k, {})
                    for kk, vv in val.items():
                        tgt[kk] = tgt.get(kk, 0) + vv
    finally:
        _SHARED = None
    total['samples'] = [{'session': ['%s %s %s def=%s' % (q['kind'], q['code_name'], q['size'], q['deformation'])
                                     for q in case['seq']]}]
    total['outcomes'] = (total.get('outcomes') or [])[:50]
    _bump(total, 'sessions')
    return total


def eval_case(case):
    kind = case['kind']
    if kind == 'session':
        return _eval_session(case)
    if kind == 'names':
        return _eval_names(case)
    if kind == 'code-data':
        return _eval_code_data(case)
    if kind == 'new-errors':
        return _eval_new_errors(case)
    if kind == 'decode':
        return _eval_decode(case)
    raise ValueError(kind)
