"""C18  Error probabilities multiply per qubit and normalise.

Part 'enum'       codes with n <= 6: ALL 4^n Pauli errors x direction grid (r_y > 0 included) x
                  p in {0.01, 0.1, 0.5} x noise-side deformation (None + every name/axis of the class).
                  error_probability(e) == prod_i channel(i, sigma_i); log form == its logarithm
                  (-inf for probability zero); sum over all 4^n errors == 1; equal to the total
                  variate mass of the script that makes PauliErrorModel.generate produce e
                  (product of the interval lengths; the midpoint script is replayed through
                  generate with a ScriptedRNG and must produce e with exactly n variates).
Part 'lowweight'  one to three members of every class with 6 < n <= 100: all errors of weight <= 2
                  (quick, and n > 60: weight <= 1 plus all 9 Pauli pairs on three qubit pairs).
Part 'metropolis' SplittingSimulation.get_next_error with numpy.random.choice replaced by a script:
                  the check dictates the proposed qubit and Pauli (ALL (qubit, Pauli) proposals from
                  a set of previous errors) and records the acceptance probability handed to
                  choice(p=[1-q, q]); q == min(1, P(new)/P(prev)) with P from the reference channel
                  product; the returned log-probability is log P(returned error).

Part 'large-n'    codes with n about 1000-1200 x {identity, all-X, a fixed mixed pattern, weight-1} x p in {0.3, 0.4} x
                  2 directions x noise deformation off/on: the log form equals the reference SUM of logs
                  (finite; the product itself underflows there, which is legitimate for the plain form only).
Accepted branch   (b = 1) is run with two stub decoders: the zero correction (proposal kept whenever it is not
                  a stabilizer) and the 'perfect' one returning the proposal itself (total error 0: the step must
                  stay on the previous error and return log P(previous)).

Error dtype       the binary symplectic vector is also passed as bool, int64 and float64 (0./1.) arrays: all 4^n
                  errors on the n = 4 codes for three directions with r_x != r_y, every noise deformation;
                  weight <= 1 on every other code; one Metropolis sub-case starts from a bool previous error.
                  Same oracle.  A dtype the implementation refuses with an exception is counted, not reported.

Normalisation beyond n <= 6 (every class, every deformation name/axis it offers; independent of get_deformation):
                  part 'sum8': plain-form sum over ALL 4^n errors == 1 on the smallest member with 6 < n <= 8 of
                  every class that has one; every enum/lowweight case: per-qubit marginal normalisation
                  P(I..I) + P(X_i) + P(Y_i) + P(Z_i) == (1-p)^(n-1) for every qubit i (with the product form,
                  checked at weight <= 2, this is sum-to-one for any n); sampling (largest p of the case): per qubit a grid of 10
                  interior variates is fed to generate (other qubits: identity) and the error it produces must have
                  error_probability > 0 (variates within 1e-9 of a cumulative boundary are skipped).

Reference channel (written from the definition, shares nothing with error_probability):
(p_I, p_X, p_Y, p_Z)_undeformed = (1-p, p r_x, p r_y, p r_z) on every qubit; with a noise-side
deformation D_i = code.get_deformation(coordinate_i, name, **kwargs):  p_def[sigma][i] = p_undef[D_i(sigma)].
"""
import itertools
import json
import math

import numpy as np

from mc import families as F
from mc.env_rng import ScriptedRNG, class_intervals

PROPERTY = 'C18'
LEVEL = 'exploration'
DESIGN_REF = 'DESIGN.md §4 C18, §5 D2'
TECHNIQUE = ('bounded exhaustive enumeration of all 4^n Pauli errors (n <= 6) / all low-weight errors (n <= 100) x '
             'noise-direction simplex grid x error rates x noise-side deformations, each evaluated by the real '
             'error_probability and compared with a per-qubit channel product written from the definition; '
             'exhaustive enumeration of all (previous error, qubit, Pauli) Metropolis proposals with the '
             'random choices of get_next_error scripted and the acceptance probability recorded')
LEVEL_TEXT = ('error_probability is a pure function of (error, direction, rate, deformation pattern); for every code '
              'with n <= 6 the complete error space is evaluated, so normalisation and the product form are decided '
              'exactly inside the bound (float tolerance 1e-12), and per-qubit masks that are wrong on one of the four '
              'single-qubit Paulis (D2: Y mask true on identity) cannot escape a complete sweep that includes r_y > 0. '
              'The Metropolis step is executed on the real get_next_error for every proposal it can make from the '
              'chosen previous errors; its only randomness (three numpy.random.choice calls) is the environment the '
              'check owns.')
LEVEL_NOTE = ('Trusted: code.get_deformation as the per-qubit permutation (C07/C08 check it against the lattice), '
              'mc.env_rng (ScriptedRNG, class_intervals with the I,X,Y,Z stacking of fast_choice; the midpoint script '
              'is confirmed through the real generate for every error of positive probability), a stub decoder '
              'returning the zero correction in the accepted branch. Not covered: n > 6 beyond weight 2, directions '
              'off the grid, error rates other than 0.01/0.1/0.5, the statistical behaviour of whole splitting runs '
              '(compute_logical_probabilities), which proposals get_next_error offers (only the ratio it uses for '
              'the ones it offers).')
RULE = ('every (code, noise-side deformation, direction on the grid, p, Pauli error in the stated set) is one '
        'sub-case, distinct by construction; it is non-trivial when the reference probability is > 0 and the error is '
        'not the identity (a product of at least one non-identity channel factor is compared). Metropolis: every '
        '(previous error of positive probability, qubit, Pauli offered by get_next_error) is one sub-case; '
        'non-trivial when the reference acceptance probability lies strictly between 0 and 1.')
ASSUMPTIONS = [
    'per-qubit deformation permutation taken from code.get_deformation (checked by C07/C08)',
    'generate stacks the single-qubit intervals in the order I, X, Y, Z (confirmed per error by replaying the '
    'midpoint script through PauliErrorModel.generate)',
    'get_next_error draws its randomness only through numpy.random.choice (it refuses to run otherwise: the '
    'acceptance probability would not be observed and the check stops with a harness error)',
]

PS = [0.01, 0.1, 0.5]
TOL_REL = 1e-12          # product of <= 100 doubles: relative rounding error <= ~1e-14
TOL_SUM = 1e-12          # sum of <= 4096 non-negative terms with fsum
TOL_MASS = 1e-9          # interval length (cum + p) - cum carries absolute error ~1e-16 on p >= 1e-3 per qubit
TOL_ACC = 1e-9           # exp(log a - log b) vs a / b

BOUNDS = {
    'quick': {
        'enum': 'first member with n <= 6 of each class that has one (n = 4, 5): grid denominator 5 + (1/3,1/3,1/3); '
                'RotatedPlanar2DCode(2,3) (n = 6): denominator 2 + (1/3,1/3,1/3) + (.2,.3,.5)',
        'lowweight': 'smallest member with n > 6 of every class (n <= 100): weight <= 1 + 27 pairs; '
                     'denominator 2 + (1/3,1/3,1/3) + (.2,.3,.5)',
        'metropolis': 'n = 4: previous errors of weight <= 2; n = 5, 6: weight <= 1; larger codes: covering set '
                      '(identity, k-th allowed Pauli on every qubit, singles on 3 qubits), 3 directions; '
                      'accepted branch: n = 4, identity previous error, p = 0.1, zero-correction and perfect stub decoder',
        'dtype': 'bool/int64/float64: all errors on n = 4 codes x (.2,.3,.5),(.6,.1,.3),(.5,0,.5) x all deformations '
                 'x p; weight <= 1 on all other codes x (.2,.3,.5) x p = 0.1 x deformation None/first; Metropolis '
                 'from bool previous errors of weight <= 1 on n = 4 codes',
        'sum8': 'smallest member with 6 < n <= 8 of every class that has one (7 classes) x every deformation x '
                '(.2,.3,.5) x p = 0.1: all 4^n errors, plain form',
        'large-n': 'Toric2DCode(24,24) n=1152, RotatedPlanar2DCode(33,33) n=1089: 4 errors x p in {0.3,0.4} x '
                   '(1/3,1/3,1/3),(.2,.3,.5) x deformation None/XZZX',
        'p': PS,
    },
    'thorough': {
        'enum': 'every family size with n <= 6 (8 codes): grid denominator 10 + (1/3,1/3,1/3)',
        'lowweight': 'per class: smallest n > 6, largest n <= 40 (weight <= 2), largest n <= 64 and n > 64 up to 100 '
                     '(weight <= 1 + 27 pairs); denominator 3 + (.2,.3,.5) + (.1,.1,.8)',
        'metropolis': 'n = 4: ALL previous errors; n = 5: weight <= 2; n = 6: weight <= 1 (grid denominator 10 + '
                      '(1/3,1/3,1/3)); larger codes (the weight-2 members and Color3DCode): covering set, '
                      'denominator 2 + (1/3,1/3,1/3) + (.2,.3,.5); accepted branch: previous error of weight <= 1 (n = 4) / '
                      'identity (n = 5, 6), p = 0.1, zero-correction and perfect stub decoder',
        'dtype': 'as quick',
        'sum8': 'as quick with directions (.2,.3,.5),(.6,.1,.3),(1/3,1/3,1/3) x p in {0.1, 0.5}',
        'large-n': 'as quick plus Toric2DCode(20,29) n=1160 and Planar2DCode(24,24) n=1105',
        'p': PS,
    },
}
BUDGET_S = {'quick': 900, 'thorough': 10800}


# ----------------------------------------------------------------------------- enumeration domain

def grid(den):
    pts = [[a, b, den - a - b, den] for a in range(den + 1) for b in range(den + 1 - a)]
    pts.sort(key=lambda t: (sum(1 for x in t[:3] if x), [-x for x in t[:3]]))
    return pts


THIRD = [1, 1, 1, 3]
GENERIC = [2, 3, 5, 10]
BIASED = [1, 1, 8, 10]


def dir_sets(tier):
    if tier == 'quick':
        small = grid(2) + [THIRD, GENERIC]
        return {'enum': grid(5) + [THIRD], 'enum6': small, 'low': small,
                'metro_small': grid(5) + [THIRD], 'metro6': small, 'metro_large': [THIRD, GENERIC, [1, 0, 1, 2]]}
    full = grid(10) + [THIRD]
    mid = grid(3) + [GENERIC, BIASED]
    return {'enum': full, 'enum6': full, 'low': mid, 'metro_small': full, 'metro6': full,
            'metro_large': grid(2) + [THIRD, GENERIC]}


def _lmax(name, tier):
    if name in F.CLASSES_2D:
        return 6
    return 3 if tier == 'quick' else 4


def _family(name, max_n, tier):
    return [s for s in F.sizes(name, max_n, l_max=_lmax(name, tier), min_count=0)
            if not F.known_invalid({'cls': name, 'size': s})]


def small_codes(tier):
    out = []
    for name in F.CLASSES:
        ss = _family(name, 6, tier)
        if not ss:
            continue
        if tier == 'quick':
            out.append((name, ss[0]))
        else:
            out.extend((name, s) for s in ss)
    if tier == 'quick':
        out.append(('RotatedPlanar2DCode', [2, 3]))
    return out


def large_codes(tier):
    """[(class, size, n, error-set name)]"""
    out = []
    for name in F.CLASSES:
        ss = [(F.n_qubits(name, s), s) for s in _family(name, 100, tier)]
        ss = [(n, s) for n, s in ss if n > 6]
        if not ss:
            continue
        picks = [(ss[0], 'w1+pairs' if tier == 'quick' else 'w2')]
        if tier == 'thorough':
            le40 = [x for x in ss if x[0] <= 40]
            le64 = [x for x in ss if x[0] <= 64]
            if le40:
                picks.append((le40[-1], 'w2'))
            if le64:
                picks.append((le64[-1], 'w1+pairs'))
            if ss[0][0] > 60:
                picks[0] = (ss[0], 'w1+pairs')
        seen = set()
        for (n, s), es in picks:
            if tuple(s) in seen:
                continue
            seen.add(tuple(s))
            out.append((name, s, n, es))
    return out


LARGE_N = {'quick': [('Toric2DCode', [24, 24]), ('RotatedPlanar2DCode', [33, 33])],
           'thorough': [('Toric2DCode', [24, 24]), ('RotatedPlanar2DCode', [33, 33]),
                        ('Toric2DCode', [20, 29]), ('Planar2DCode', [24, 24])]}


def _defs(name):
    return [None] + F.deformations(name)


def _n_errors(n, es):
    if es == 'all':
        return 4 ** n
    if es == 'w2':
        return 1 + 3 * n + 9 * n * (n - 1) // 2
    return 1 + 3 * n + 27


def _chunks(dirs, ps, cost_per_dir_p, target=1.5):
    """split (dirs x ps) into case-sized pieces: yields (dirs_chunk, ps_chunk)"""
    per_dir = cost_per_dir_p * len(ps)
    if per_dir > 2 * target:
        for d in dirs:
            for p in ps:
                yield [d], [p]
        return
    k = max(1, int(target / max(per_dir, 1e-9)))
    for i in range(0, len(dirs), k):
        yield dirs[i:i + k], list(ps)


def cases(tier, seed):
    ds = dir_sets(tier)
    out = []
    # ---- part enum
    for name, size in small_codes(tier):
        n = F.n_qubits(name, size)
        dirs = ds['enum6'] if n == 6 else ds['enum']
        for d in _defs(name):
            for dc, pc in _chunks(dirs, PS, 4 ** n * 70e-6):
                out.append({'part': 'enum', 'cls': name, 'size': size, 'deformation': d, 'dirs': dc, 'ps': pc,
                            'errors': 'all', 'cost': 4 ** n, 'n': n})
    # ---- part lowweight
    for name, size, n, es in large_codes(tier):
        for d in _defs(name):
            for dc, pc in _chunks(ds['low'], PS, _n_errors(n, es) * (50 + 2 * n) * 1e-6):
                out.append({'part': 'lowweight', 'cls': name, 'size': size, 'deformation': d, 'dirs': dc, 'ps': pc,
                            'errors': es, 'cost': _n_errors(n, es) * (1 + n / 25), 'n': n})
    # ---- part metropolis
    for name, size in small_codes(tier):
        n = F.n_qubits(name, size)
        if tier == 'quick':
            prev = 'w2' if n == 4 else 'w1'
        else:
            prev = {4: 'all', 5: 'w2', 6: 'w1'}[n]
        dirs = ds['metro6'] if n == 6 else ds['metro_small']
        nprev = {'all': 4 ** n, 'w2': _n_errors(n, 'w2'), 'w1': 1 + 3 * n}[prev]
        for d in _defs(name):
            for dc, pc in _chunks(dirs, PS, nprev * 3 * n * 100e-6):
                out.append({'part': 'metropolis', 'cls': name, 'size': size, 'deformation': d, 'dirs': dc,
                            'ps': pc, 'prev': prev,
                            'accept_w': (1 if n == 4 else 0) if tier == 'thorough' else (0 if n == 4 else -1),
                            'accept_ps': [0.1], 'cost': nprev * 3 * n * 1.5, 'n': n})
    for name, size, n, es in large_codes(tier):
        if tier == 'thorough' and es != 'w2' and n <= 64:
            continue                    # third member of a class: error_probability part only
        for d in _defs(name):
            for dc, pc in _chunks(ds['metro_large'], PS, 14 * 3 * n * (100 + 2 * n) * 1e-6):
                out.append({'part': 'metropolis', 'cls': name, 'size': size, 'deformation': d, 'dirs': dc,
                            'ps': pc, 'prev': 'cover', 'accept_w': -1, 'accept_ps': [],
                            'cost': 14 * 3 * n * (1.5 + n / 25), 'n': n})
    # ---- error-dtype axis (same oracle, the bsf vector passed as bool / int64 / float64)
    dts = ['bool', 'int64', 'float64']
    ddirs = [GENERIC, [6, 1, 3, 10], [1, 0, 1, 2]]
    smalls = small_codes(tier)
    for name, size in smalls:
        n = F.n_qubits(name, size)
        if n == 4:
            for d in _defs(name):
                out.append({'part': 'enum', 'cls': name, 'size': size, 'deformation': d, 'dirs': ddirs, 'ps': PS,
                            'errors': 'all', 'dtypes': dts, 'cost': 4 ** n * 3, 'n': n})
                if d is None or d == _defs(name)[1]:
                    out.append({'part': 'metropolis', 'cls': name, 'size': size, 'deformation': d,
                                'dirs': ddirs[:2], 'ps': [0.1], 'prev': 'w1', 'accept_w': -1, 'accept_ps': [],
                                'prev_dtype': 'bool', 'cost': 4 ** n * 3 + 1, 'n': n})
    others = [(nm, sz, F.n_qubits(nm, sz)) for nm, sz in smalls if F.n_qubits(nm, sz) != 4] \
        + [(nm, sz, n) for nm, sz, n, es in large_codes(tier)]
    for name, size, n in others:
        for d in _defs(name)[:2]:
            out.append({'part': 'lowweight', 'cls': name, 'size': size, 'deformation': d, 'dirs': [GENERIC],
                        'ps': [0.1], 'errors': 'w1', 'dtypes': dts, 'cost': (1 + 3 * n) * 0.5, 'n': n})
    # ---- part sum8: complete normalisation sums on codes with 6 < n <= 8
    sdirs = [GENERIC] if tier == 'quick' else [GENERIC, [6, 1, 3, 10], THIRD]
    sps = [0.1] if tier == 'quick' else [0.1, 0.5]
    for name, size, n, es in large_codes(tier):
        if n > 8 or any(c['part'] == 'sum8' and c['cls'] == name for c in out):
            continue
        for d in _defs(name):
            for dr in sdirs:
                for p in sps:
                    out.append({'part': 'sum8', 'cls': name, 'size': size, 'deformation': d, 'dirs': [dr],
                                'ps': [p], 'cost': 4 ** n, 'n': n})
    # ---- part large-n (product underflows, log form must not)
    for name, size in LARGE_N[tier]:
        for d in (None, ['XZZX', {}]):
            out.append({'part': 'large-n', 'cls': name, 'size': size, 'deformation': d, 'dirs': [THIRD, GENERIC],
                        'ps': [0.3, 0.4], 'cost': 1e9 + size[0] * size[1], 'n': 1000})
    # simplest first: small codes before large ones; within a code undeformed noise first, then
    # enum < lowweight < metropolis, then the cheaper chunk
    order = {'enum': 0, 'lowweight': 1, 'metropolis': 2, 'large-n': 3, 'sum8': 4}
    out.sort(key=lambda c: (c['n'] > 6, c['n'] if c['n'] <= 6 else 0, c['cost'] if c['n'] > 6 else 0,
                            F.CLASSES.index(c['cls']), c['size'],
                            c['deformation'] is not None, order[c['part']], c['cost']))
    for c in out:
        del c['cost']
        del c['n']
    # several model OBJECTS on one code object (every ordered pair of deformation configurations of the class,
    # the same direction and rate): the second model's probabilities must be its own
    for name, size in small_codes(tier):
        if len(_defs(name)) >= 3:
            out.append({'part': 'models', 'cls': name, 'size': size, 'deformation': None, 'dirs': [GENERIC],
                        'ps': [0.1]})
    return out


# ----------------------------------------------------------------------------- reference model

PAULI = 'IXYZ'
XBIT = (0, 1, 1, 0)
ZBIT = (0, 0, 1, 1)
# product of two single-qubit Paulis up to phase, on indices 0..3 (I, X, Y, Z)
_BITS2IDX = {(0, 0): 0, (1, 0): 1, (1, 1): 2, (0, 1): 3}
MUL = [[_BITS2IDX[(XBIT[a] ^ XBIT[b], ZBIT[a] ^ ZBIT[b])] for b in range(4)] for a in range(4)]


def _perms(code, d):
    """per qubit: (D(X), D(Y), D(Z)) as indices into (X, Y, Z) of the undeformed channel"""
    n = code.n
    if not d:
        return [(0, 1, 2)] * n
    out = []
    for i in range(n):
        D = code.get_deformation(code.qubit_coordinates[i], d[0], **d[1])
        out.append(tuple('XYZ'.index(D[s]) for s in 'XYZ'))
    return out


def _channel(perms, r, p):
    base = (p * r[0], p * r[1], p * r[2])
    return [(1 - p, base[pm[0]], base[pm[1]], base[pm[2]]) for pm in perms]


def _ref_prob(ch, sig):
    pr = 1.0
    for c, s in zip(ch, sig):
        pr *= c[s]
    return pr


def _vec(sig, n):
    v = np.zeros(2 * n, dtype=np.uint8)
    for i, s in enumerate(sig):
        v[i] = XBIT[s]
        v[n + i] = ZBIT[s]
    return v


def _sig_of(vec, n):
    return tuple(_BITS2IDX[(int(vec[i]) % 2, int(vec[n + i]) % 2)] for i in range(n))


def _pstr(sig):
    return ''.join(PAULI[s] for s in sig)


def _low_weight(n, wmax):
    yield (0,) * n
    if wmax >= 1:
        for i in range(n):
            for s in (1, 2, 3):
                e = [0] * n
                e[i] = s
                yield tuple(e)
    if wmax >= 2:
        for i, j in itertools.combinations(range(n), 2):
            for s in (1, 2, 3):
                for t in (1, 2, 3):
                    e = [0] * n
                    e[i] = s
                    e[j] = t
                    yield tuple(e)
    for w in range(3, wmax + 1):
        for pos in itertools.combinations(range(n), w):
            for ss in itertools.product((1, 2, 3), repeat=w):
                e = [0] * n
                for i, s in zip(pos, ss):
                    e[i] = s
                yield tuple(e)


def _error_set(n, es):
    if es == 'all':
        return list(itertools.product(range(4), repeat=n))
    if es == 'w2':
        return list(_low_weight(n, 2))
    if es == 'w1':
        return list(_low_weight(n, 1))
    if es == 'w1+pairs':
        out = list(_low_weight(n, 1))
        pairs = []
        for pr in ((0, 1), (0, n - 1), (n // 2 - 1, n // 2)):
            if pr[0] != pr[1] and pr not in pairs:
                pairs.append(pr)
        for i, j in pairs:
            for s in (1, 2, 3):
                for t in (1, 2, 3):
                    e = [0] * n
                    e[i] = s
                    e[j] = t
                    out.append(tuple(e))
        return out
    raise KeyError(es)


def _close(a, b, tol):
    if b == 0.0:
        return a == 0.0
    return abs(a - b) <= tol * max(abs(a), abs(b))


def _log_ok(lp, ref):
    """lp = implementation's log-probability, ref = reference probability"""
    if isinstance(lp, float) and math.isnan(lp):
        return False
    if ref == 0.0:
        return lp == -math.inf
    want = math.log(ref)
    return abs(lp - want) <= 1e-12 * max(1.0, abs(want))


class _Rec:
    """collects violations: at most 5 per case (first of each distinct key), all counted"""

    def __init__(self, case, n):
        d = case.get('deformation')
        self.base = {'part': case['part'], 'cls': case['cls'], 'size': list(case['size']), 'n': n,
                     'deformation': d[0] if d else None,
                     'axis': (d[1].get('deformation_axis', 'default') if d else None)}
        self.v = []
        self.seen = set()
        self.counts = {}
        self.channel_y = False       # set per (direction, p): deformed channel has p_Y > 0 on some qubit

    def add(self, kind, has_identity, ry_pos, detail, **more):
        self.counts['viol_' + kind] = self.counts.get('viol_' + kind, 0) + 1
        if len(self.v) >= 5:
            return
        key = dict(self.base, kind=kind, has_identity_qubit=bool(has_identity), r_y_positive=bool(ry_pos),
                   channel_y_positive=bool(self.channel_y))
        key.update(more)
        ck = json.dumps(key, sort_keys=True)
        if ck in self.seen or len(self.v) >= 5:
            return
        self.seen.add(ck)
        self.v.append({'key': key, 'detail': detail})


def _model(case, r):
    from panqec.error_models import PauliErrorModel
    d = case.get('deformation')
    if d:
        return PauliErrorModel(r[0], r[1], r[2], deformation_name=d[0], deformation_kwargs=dict(d[1]))
    return PauliErrorModel(r[0], r[1], r[2])


def _rvec(dr):
    return (dr[0] / dr[3], dr[1] / dr[3], dr[2] / dr[3])


# ----------------------------------------------------------------------------- parts enum / lowweight

def _eval_errors(case):
    code = F.get_class(case['cls'])(*case['size'])
    n = code.n
    d = case.get('deformation')
    perms = _perms(code, d)
    sigs = _error_set(n, case['errors'])
    vecs_u8 = [_vec(s, n) for s in sigs]
    has_id = [0 in s for s in sigs]
    rec = _Rec(case, n)
    res = {'evals': 0, 'nontrivial': 0, 'violations': rec.v, 'outcomes': [], 'samples': []}
    ex = {'errors_checked': 0, 'zero_probability_errors': 0, 'sampling_scripts_replayed': 0,
          'normalisation_sums': 0}
    ident = None
    single = {}
    for k, sig in enumerate(sigs):
        nzp = [i for i, t in enumerate(sig) if t]
        if not nzp:
            ident = k
        elif len(nzp) == 1:
            single[(nzp[0], sig[nzp[0]])] = k
    ex['qubit_marginal_sums'] = 0
    ex['variate_grid_probes'] = 0
    dtypes = case.get('dtypes', ['uint8'])
    vecs_by_dt = {dt: (vecs_u8 if dt == 'uint8' else [v.astype(dt) for v in vecs_u8]) for dt in dtypes}
    refused = set()
    for dr in case['dirs']:
        r = _rvec(dr)
        ryp = dr[1] > 0
        em = _model(case, r)
        for p, dt in itertools.product(case['ps'], dtypes):
            if dt in refused:
                continue
            vecs = vecs_by_dt[dt]
            ch = _channel(perms, r, p)
            rec.channel_y = any(c[2] > 0 for c in ch)
            iv = [class_intervals(c) for c in ch]
            if dt != 'uint8':
                # a dtype the implementation refuses outright is counted, not reported
                try:
                    with np.errstate(divide='ignore', invalid='ignore'):
                        em.error_probability(vecs[0], code, p)
                        em.error_probability(vecs[0], code, p, log_output=True)
                except (TypeError, ValueError):
                    refused.add(dt)
                    ex['dtype_refused_' + dt] = 1
                    continue
                ex['errors_checked_' + dt] = ex.get('errors_checked_' + dt, 0) + len(vecs)
            total = []
            total_ref = []
            nz = 0
            worst = 0.0
            with np.errstate(divide='ignore', invalid='ignore'):
                for sig, vec, hid in zip(sigs, vecs, has_id):
                    ref = _ref_prob(ch, sig)
                    got = float(em.error_probability(vec, code, p))
                    lgot = float(em.error_probability(vec, code, p, log_output=True))
                    res['evals'] += 2
                    ex['errors_checked'] += 1
                    total.append(got)
                    total_ref.append(ref)
                    if ref > 0 and any(sig):
                        res['nontrivial'] += 1
                    if ref == 0.0:
                        ex['zero_probability_errors'] += 1
                        nz += 1
                    elif got > 0:
                        worst = max(worst, abs(got / ref - 1))
                    if not _close(got, ref, TOL_REL):
                        rec.add('probability-differs', hid, ryp,
                                {'error': _pstr(sig), 'direction': list(r), 'p': p, 'got': got, 'reference': ref},
                                dtype=dt)
                    if not _log_ok(lgot, ref):
                        rec.add('log-differs', hid, ryp,
                                {'error': _pstr(sig), 'direction': list(r), 'p': p, 'got_log': repr(lgot),
                                 'reference_log': repr(math.log(ref) if ref > 0 else -math.inf)}, dtype=dt)
                    # ---- consistency with sampling
                    if dt != 'uint8':
                        continue
                    if ref > 0:
                        mass = 1.0
                        script = []
                        for i, s in enumerate(sig):
                            lo, hi = iv[i][s]
                            mass *= (hi - lo)
                            script.append(lo + (hi - lo) / 2.0)
                        rng = ScriptedRNG(script)
                        out = em.generate(code, p, rng=rng)
                        res['evals'] += 1
                        ex['sampling_scripts_replayed'] += 1
                        gen_ok = (len(out) == 2 * n and _sig_of(out, n) == tuple(sig) and rng.pos == n)
                        if not gen_ok:
                            rec.add('sampling-mass-differs', hid, ryp,
                                    {'reason': 'midpoint script of the I,X,Y,Z stacking does not generate the error',
                                     'error': _pstr(sig), 'generated': _pstr(_sig_of(out, n))
                                     if len(out) == 2 * n else 'len %d' % len(out),
                                     'variates_consumed': rng.pos, 'direction': list(r), 'p': p}, dtype=dt)
                        elif not _close(got, mass, TOL_MASS):
                            rec.add('sampling-mass-differs', hid, ryp,
                                    {'error': _pstr(sig), 'direction': list(r), 'p': p, 'error_probability': got,
                                     'variate_mass_of_generating_script': mass}, dtype=dt)
                    elif got != 0.0:
                        rec.add('sampling-mass-differs', hid, ryp,
                                {'error': _pstr(sig), 'direction': list(r), 'p': p, 'error_probability': got,
                                 'variate_mass_of_generating_script': 0.0}, dtype=dt)
            # ---- per-qubit marginal normalisation, from the implementation's own values
            if ident is not None and len(single) == 3 * n:
                for i in range(n):
                    ex['qubit_marginal_sums'] += 1
                    vals = [total[ident]] + [total[single[(i, t)]] for t in (1, 2, 3)]
                    want = (1.0 - p) ** (n - 1)
                    if not abs(math.fsum(vals) - want) <= TOL_REL * want:
                        rec.add('not-normalised', True, ryp,
                                {'reason': 'P(identity) + P(X_i) + P(Y_i) + P(Z_i) differs from (1-p)^(n-1)',
                                 'qubit': i, 'coordinate': str(code.qubit_coordinates[i]), 'direction': list(r),
                                 'p': p, 'values_I_X_Y_Z': vals, 'sum': math.fsum(vals), 'expected': want},
                                dtype=dt, scope='qubit-marginal')
                        break
            # ---- every error generate can produce from an interior variate has positive probability
            if dt == 'uint8' and p < 1 and p == max(case['ps']):      # gaps scale with p: largest rate of the case
                base_u = 0.0137 * (1.0 - p)                     # inside the identity interval [0, 1-p)
                for i in range(n):
                    cuts = [0.0]
                    for perm4 in itertools.permutations(ch[i]):
                        acc = 0.0
                        for c in perm4:
                            acc += c
                            cuts.append(acc)
                    for kk in range(10):
                        u = 0.0137 + kk / 10.0
                        if any(abs(u - c) < 1e-9 for c in cuts):
                            continue
                        script = [base_u] * n
                        script[i] = u
                        rng = ScriptedRNG(script)
                        out = em.generate(code, p, rng=rng)
                        with np.errstate(divide='ignore', invalid='ignore'):
                            pg = float(em.error_probability(out, code, p))
                        res['evals'] += 2
                        ex['variate_grid_probes'] += 1
                        if not pg > 0.0:
                            rec.add('sampling-mass-differs', True, ryp,
                                    {'reason': 'generate produces this error from an interior variate but '
                                               'error_probability gives it probability zero',
                                     'qubit': i, 'variate': u, 'generated': _pstr(_sig_of(out, n)),
                                     'error_probability': pg, 'direction': list(r), 'p': p},
                                    dtype=dt, scope='generated-error-has-zero-probability')
                            break
            if case['errors'] == 'all':
                ex['normalisation_sums'] += 1
                tot = math.fsum(total)
                if not abs(tot - 1.0) <= TOL_SUM:
                    no_id = math.fsum(g for g, h in zip(total, has_id) if not h)
                    no_id_ref = math.fsum(g for g, h in zip(total_ref, has_id) if not h)
                    rec.add('not-normalised', True, ryp,
                            {'direction': list(r), 'p': p, 'sum_over_all_errors': tot, 'errors': len(total),
                             'sum_over_errors_without_identity_qubit': no_id,
                             'reference_for_that_partial_sum': no_id_ref}, dtype=dt)
                sumtxt = '%.6f' % tot
            else:
                sumtxt = '-'
            if len(res['outcomes']) < 50:
                res['outcomes'].append('%s|n%d|%s|ry%d|zero%d|sum%s|dev%.0e|%s'
                                       % (case['part'], n, d[0] if d else '-', ryp, nz, sumtxt, worst, dt))
            if len(res['samples']) < 2:
                k = min(len(sigs) - 1, 7 * (1 + len(res['samples'])))
                res['samples'].append({'config': F.cfg_label({'cls': case['cls'], 'size': case['size'],
                                                              'deformation': None}),
                                       'noise_deformation': d, 'direction': list(r), 'p': p,
                                       'error': _pstr(sigs[k]), 'dtype': dt, 'reference_probability': total_ref[k],
                                       'error_probability': total[k]})
    ex.update(rec.counts)
    res['extra'] = ex
    return res


# ----------------------------------------------------------------------------- part sum8

def _eval_sum(case):
    code = F.get_class(case['cls'])(*case['size'])
    n = code.n
    d = case.get('deformation')
    rec = _Rec(case, n)
    res = {'evals': 0, 'nontrivial': 0, 'violations': rec.v, 'outcomes': [], 'samples': []}
    ex = {'normalisation_sums': 0, 'errors_summed': 0}
    S = np.indices((4,) * n).reshape(n, -1).T                   # all 4^n Pauli index strings
    V = np.hstack([(S == 1) | (S == 2), (S == 2) | (S == 3)]).astype(np.uint8)
    for dr in case['dirs']:
        r = _rvec(dr)
        em = _model(case, r)
        for p in case['ps']:
            with np.errstate(divide='ignore', invalid='ignore'):
                vals = [float(em.error_probability(v, code, p)) for v in V]
            res['evals'] += len(vals)
            ex['errors_summed'] += len(vals)
            ex['normalisation_sums'] += 1
            res['nontrivial'] += sum(1 for x in vals if x > 0) - 1
            tot = math.fsum(vals)
            rec.channel_y = True
            if not abs(tot - 1.0) <= TOL_SUM or min(vals) < 0:
                rec.add('not-normalised', True, dr[1] > 0,
                        {'direction': list(r), 'p': p, 'sum_over_all_errors': tot, 'errors': len(vals),
                         'min': min(vals), 'P_identity': vals[0]})
            res['outcomes'].append('sum8|n%d|%s|sum%.6f|pos%d' % (n, d[0] if d else '-', tot,
                                                                   sum(1 for x in vals if x > 0)))
            if len(res['samples']) < 1:
                res['samples'].append({'config': F.cfg_label({'cls': case['cls'], 'size': case['size'],
                                                              'deformation': None}),
                                       'noise_deformation': d, 'direction': list(r), 'p': p,
                                       'errors_summed': len(vals), 'sum': tot})
    ex.update(rec.counts)
    res['extra'] = ex
    return res


# ----------------------------------------------------------------------------- part large-n

TOL_LOGSUM = 1e-9        # sum of ~1200 logs of magnitude <= 3: absolute rounding ~1e-12 on |log P| >= 400


def _eval_large_n(case):
    code = F.get_class(case['cls'])(*case['size'])
    n = code.n
    d = case.get('deformation')
    perms = _perms(code, d)
    sigs = [('identity', (0,) * n), ('all-X', (1,) * n),
            ('pattern', tuple((7 * i + i // 5 + (i * i) // 11) % 4 for i in range(n))),
            ('weight-1', tuple(1 if i == n // 2 else 0 for i in range(n)))]
    rec = _Rec(case, n)
    res = {'evals': 0, 'nontrivial': 0, 'violations': rec.v, 'outcomes': [], 'samples': []}
    ex = {'large_n_errors_checked': 0, 'large_n_plain_form_underflowed': 0}
    for dr in case['dirs']:
        r = _rvec(dr)
        ryp = dr[1] > 0
        em = _model(case, r)
        for p in case['ps']:
            ch = _channel(perms, r, p)
            rec.channel_y = any(c[2] > 0 for c in ch)
            for label, sig in sigs:
                vec = _vec(sig, n)
                if any(c[s] <= 0 for c, s in zip(ch, sig)):
                    continue                                    # directions used here are interior: not reached
                want = math.fsum(math.log(c[s]) for c, s in zip(ch, sig))
                with np.errstate(divide='ignore', invalid='ignore', under='ignore'):
                    lgot = float(em.error_probability(vec, code, p, log_output=True))
                    got = float(em.error_probability(vec, code, p))
                res['evals'] += 2
                ex['large_n_errors_checked'] += 1
                if want < -745.0:
                    res['nontrivial'] += 1                      # the product is below the smallest double
                detail = {'error': label, 'direction': list(r), 'p': p, 'got_log': repr(lgot),
                          'reference_sum_of_logs': want, 'plain_form': got}
                if not (lgot == lgot and math.isfinite(lgot) and abs(lgot - want) <= TOL_LOGSUM * abs(want)):
                    rec.add('log-differs', 0 in sig, ryp, detail, error=label,
                            product_underflows=bool(want < -745.0))
                if got < 1e-300:
                    ex['large_n_plain_form_underflowed'] += 1   # legitimate for the plain form when the true
                    if got < 0 or want > -680.0:                # product is below ~1e-295
                        rec.add('probability-differs', 0 in sig, ryp, detail, error=label)
                elif not abs(math.log(got) - want) <= TOL_LOGSUM * max(1.0, abs(want)):
                    rec.add('probability-differs', 0 in sig, ryp, detail, error=label)
                if len(res['outcomes']) < 50:
                    res['outcomes'].append('large-n|n%d|%s|%s|p%s|log%.0f|plain%s'
                                           % (n, d[0] if d else '-', label, p, want, 'zero' if got == 0 else 'pos'))
            if len(res['samples']) < 2:
                res['samples'].append({'config': F.cfg_label({'cls': case['cls'], 'size': case['size'],
                                                              'deformation': None}),
                                       'noise_deformation': d, 'direction': list(r), 'p': p, 'error': label,
                                       'reference_sum_of_logs': want, 'log_form': repr(lgot), 'plain_form': got})
    ex.update(rec.counts)
    res['extra'] = ex
    return res


# ----------------------------------------------------------------------------- part metropolis

class _Unavailable(Exception):
    pass


class _StubDecoder:
    id = 'C18StubDecoder'
    label = 'stub'
    params: dict = {}

    def __init__(self, n):
        self.n = n

    def decode(self, syndrome, **kw):
        return np.zeros(2 * self.n, dtype='uint')


class _PerfectStubDecoder(_StubDecoder):
    """returns the error it is told to return (the check sets it to the proposal: total error 0)"""
    id = 'C18PerfectStubDecoder'

    def __init__(self, n):
        self.n = n
        self.answer = np.zeros(2 * n, dtype='uint')

    def decode(self, syndrome, **kw):
        return self.answer.copy()


def _cover_prevs(n, ch):
    """identity; the errors carrying on every qubit its k-th Pauli of non-zero probability (k = 0, 1, 2);
    single-qubit errors on three spread qubits.  Every (qubit, carried Pauli) of positive probability occurs."""
    out = [(0,) * n]
    for k in range(3):
        e = []
        for c in ch:
            allowed = [s for s in (1, 2, 3) if c[s] > 0]
            e.append(allowed[k] if k < len(allowed) else (allowed[0] if allowed else 0))
        out.append(tuple(e))
    for i in sorted({0, n // 2, n - 1}):
        for s in (1, 2, 3):
            e = [0] * n
            e[i] = s
            out.append(tuple(e))
    seen = set()
    uniq = []
    for e in out:
        if e not in seen:
            seen.add(e)
            uniq.append(e)
    return uniq


def _eval_metropolis(case):
    import numpy.random as npr
    from panqec.simulation import SplittingSimulation
    code = F.get_class(case['cls'])(*case['size'])
    n = code.n
    d = case.get('deformation')
    perms = _perms(code, d)
    rec = _Rec(case, n)
    prev_dtype = case.get('prev_dtype', 'uint8')
    if prev_dtype != 'uint8':
        rec.base['dtype'] = prev_dtype
    res = {'evals': 0, 'nontrivial': 0, 'violations': rec.v, 'outcomes': [], 'samples': []}
    ex = {'metropolis_steps': 0, 'previous_errors_zero_probability_skipped': 0, 'proposals_not_offered': 0,
          'proposals_not_offered_though_channel_positive': 0, 'accepted_branch_steps': 0,
          'acceptance_zero': 0, 'acceptance_one': 0}
    stub = _StubDecoder(n)
    perfect = _PerfectStubDecoder(n)
    ex['accepted_then_corrected_steps'] = 0
    st = {}

    def fake_choice(a, size=None, replace=True, p=None):
        if p is not None:
            opts = list(a) if hasattr(a, '__len__') else list(range(int(a)))
            st['acc'] = math.fsum(float(pp) for o, pp in zip(opts, p) if o)
            st['acc_p'] = [float(pp) for pp in p]
            for o in opts:
                if bool(o) == bool(st['b']):
                    return o
            return st['b']
        if isinstance(a, (int, np.integer)):
            st['n_arg'] = int(a)
            return st['q']
        opts = [str(o) for o in a]
        st['opts'] = opts
        if st['pauli'] not in opts:
            raise _Unavailable()
        return st['pauli']

    fixed_prevs = None
    if case['prev'] != 'cover':
        fixed_prevs = _error_set(n, case['prev'])
    saved = npr.choice
    npr.choice = fake_choice
    try:
        for dr in case['dirs']:
            r = _rvec(dr)
            ryp = dr[1] > 0
            em = _model(case, r)
            sim = SplittingSimulation(code, em, [stub for _ in case['ps']], list(case['ps']),
                                      n_init_runs=1, verbose=False)
            for p in case['ps']:
                ch = _channel(perms, r, p)
                rec.channel_y = any(c[2] > 0 for c in ch)
                prevs = fixed_prevs if fixed_prevs is not None else _cover_prevs(n, ch)
                n0 = n1 = nmid = 0
                worst = 0.0
                for prev in prevs:
                    p_prev = _ref_prob(ch, prev)
                    if p_prev <= 0.0:
                        ex['previous_errors_zero_probability_skipped'] += 1
                        continue
                    pvec = _vec(prev, n).astype(prev_dtype)
                    w_prev = sum(1 for s in prev if s)
                    for q in range(n):
                        for s in (1, 2, 3):
                            new = list(prev)
                            new[q] = MUL[prev[q]][s]
                            new = tuple(new)
                            p_new = _ref_prob(ch, new)
                            want = min(1.0, p_new / p_prev)
                            hid = (0 in prev) or (0 in new)
                            both = w_prev <= case['accept_w'] and want > 0 and p in case['accept_ps']
                            # b = 0: coin rejects; b = 1: coin accepts, zero-correction decoder;
                            # b = 2: coin accepts, perfect decoder (the proposal is corrected: total error 0)
                            for b in ((0, 1, 2) if both else (0,)):
                                st.clear()
                                st.update(q=q, pauli=PAULI[s], b=min(b, 1))
                                dec = stub
                                if b == 2:
                                    perfect.answer = _vec(new, n).astype('uint')
                                    dec = perfect
                                try:
                                    with np.errstate(divide='ignore', invalid='ignore'):
                                        nxt, logp = sim.get_next_error(dec, p, pvec.copy())
                                except _Unavailable:
                                    ex['proposals_not_offered'] += 1
                                    if ch[q][s] > 0:
                                        ex['proposals_not_offered_though_channel_positive'] += 1
                                    break
                                res['evals'] += 1
                                ex['metropolis_steps'] += 1
                                if 'acc' not in st:
                                    raise RuntimeError('get_next_error did not hand an acceptance probability to '
                                                       'numpy.random.choice(p=...): step not observable')
                                got = st['acc']
                                detail = {'previous': _pstr(prev), 'qubit': q, 'proposal': PAULI[s],
                                          'new': _pstr(new), 'direction': list(r), 'p': p,
                                          'identity_on_changed_qubit': prev[q] == 0 or new[q] == 0}
                                if b == 0:
                                    if 0.0 < want < 1.0:
                                        res['nontrivial'] += 1
                                        nmid += 1
                                    elif want == 0.0:
                                        n0 += 1
                                        ex['acceptance_zero'] += 1
                                    else:
                                        n1 += 1
                                        ex['acceptance_one'] += 1
                                    worst = max(worst, abs(got - want)) if got == got else math.inf
                                    if not abs(got - want) <= TOL_ACC:
                                        rec.add('acceptance-ratio-differs', hid, ryp,
                                                dict(detail, acceptance_probability_used=got,
                                                     choice_p=st['acc_p'], reference_min_1_ratio=want,
                                                     reference_P_new=p_new, reference_P_previous=p_prev))
                                    ret = _sig_of(nxt, n)
                                    if ret != tuple(prev) or not _log_ok(float(logp), p_prev):
                                        rec.add('log-differs', hid, ryp,
                                                dict(detail, branch='rejected', returned_error=_pstr(ret),
                                                     returned_log_probability=repr(float(logp)),
                                                     reference_log=repr(math.log(p_prev))))
                                elif b == 2:
                                    ex['accepted_then_corrected_steps'] += 1
                                    ret = _sig_of(nxt, n)
                                    if ret != tuple(prev):
                                        rec.add('corrected-proposal-kept', hid, ryp,
                                                dict(detail, branch='accepted-then-corrected',
                                                     returned_error=_pstr(ret)))
                                    if not _log_ok(float(logp), _ref_prob(ch, ret)):
                                        rec.add('log-differs', (0 in ret), ryp,
                                                dict(detail, branch='accepted-then-corrected',
                                                     returned_error=_pstr(ret),
                                                     returned_log_probability=repr(float(logp)),
                                                     reference_log_of_returned_error=repr(
                                                         math.log(_ref_prob(ch, ret)) if _ref_prob(ch, ret) > 0
                                                         else -math.inf),
                                                     reference_log_of_proposal=repr(
                                                         math.log(p_new) if p_new > 0 else -math.inf)),
                                                branch='accepted-then-corrected')
                                else:
                                    ex['accepted_branch_steps'] += 1
                                    ret = _sig_of(nxt, n)
                                    p_ret = _ref_prob(ch, ret)
                                    if not _log_ok(float(logp), p_ret):
                                        rec.add('log-differs', (0 in ret), ryp,
                                                dict(detail, branch='accepted', returned_error=_pstr(ret),
                                                     returned_log_probability=repr(float(logp)),
                                                     reference_log=repr(math.log(p_ret) if p_ret > 0
                                                                        else -math.inf)))
                if len(res['outcomes']) < 50:
                    res['outcomes'].append('metropolis|n%d|%s|ry%d|q0:%d|q1:%d|mid:%d|dev%.0e'
                                           % (n, d[0] if d else '-', ryp, n0, n1, nmid, worst))
                if len(res['samples']) < 2 and st:
                    res['samples'].append({'config': F.cfg_label({'cls': case['cls'], 'size': case['size'],
                                                                  'deformation': None}),
                                           'noise_deformation': d, 'direction': list(r), 'p': p,
                                           'last_step': {'qubit': st.get('q'), 'proposal': st.get('pauli'),
                                                         'offered': st.get('opts'),
                                                         'acceptance_probability_used': st.get('acc')}})
            # ---- two-step chains: the array object a step returns is fed to the next step, possibly at
            # another error rate (what SplittingSimulation._run does with its per-rate chains, all of which
            # start from the same initial array); every step must use the true ratio at ITS rate
            ex.setdefault('chain_steps', 0)
            chain_prevs = [tuple([0] * n)] + [tuple([0] * i + [t] + [0] * (n - i - 1))
                                               for i in range(min(n, 2)) for t in (1, 3)]
            for pa in case['ps']:
                for pb in case['ps']:
                    cha = _channel(perms, r, pa)
                    chb = _channel(perms, r, pb)
                    for prev in chain_prevs:
                        if _ref_prob(cha, prev) <= 0.0 or _ref_prob(chb, prev) <= 0.0:
                            continue
                        for q1, s1, q2, s2 in ((0, 1, n - 1, 3), (n - 1, 2, 0, 1), (0, 3, 0, 3)):
                            arr = _vec(prev, n).astype(prev_dtype)
                            st.clear()
                            st.update(q=q1, pauli=PAULI[s1], b=0)
                            try:
                                with np.errstate(divide='ignore', invalid='ignore'):
                                    nxt, logp1 = sim.get_next_error(stub, pa, arr)
                                cur = _sig_of(nxt, n)
                                st.clear()
                                st.update(q=q2, pauli=PAULI[s2], b=0)
                                with np.errstate(divide='ignore', invalid='ignore'):
                                    nxt2, logp2 = sim.get_next_error(stub, pb, nxt)
                            except _Unavailable:
                                continue
                            res['evals'] += 2
                            ex['chain_steps'] += 2
                            p_cur = _ref_prob(chb, cur)
                            new = list(cur)
                            new[q2] = MUL[cur[q2]][s2]
                            p_new = _ref_prob(chb, tuple(new))
                            if p_cur <= 0:
                                continue
                            want = min(1.0, p_new / p_cur)
                            got = st.get('acc', float('nan'))
                            det = {'previous': _pstr(prev), 'first_step': {'rate': pa, 'qubit': q1, 'proposal': PAULI[s1]},
                                   'second_step': {'rate': pb, 'qubit': q2, 'proposal': PAULI[s2]},
                                   'direction': list(r), 'p': pb}
                            if pa != pb:
                                res['nontrivial'] += 1
                            if not abs(got - want) <= TOL_ACC:
                                rec.add('acceptance-ratio-differs', True, ryp,
                                        dict(det, chain=True, acceptance_probability_used=got,
                                             reference_min_1_ratio=want))
                            if _sig_of(nxt2, n) == cur and not _log_ok(float(logp2), p_cur):
                                rec.add('log-differs', True, ryp,
                                        dict(det, chain=True, returned_log_probability=repr(float(logp2)),
                                             reference_log=repr(math.log(p_cur))))
    finally:
        npr.choice = saved
    ex.update(rec.counts)
    res['extra'] = ex
    return res


def _eval_models(case):
    code = F.get_class(case['cls'])(*case['size'])
    n = code.n
    r = _rvec(case['dirs'][0])
    p = case['ps'][0]
    res = {'evals': 0, 'nontrivial': 0, 'violations': [], 'outcomes': [], 'samples': [],
           'extra': {'model_pairs': 0}}
    sigs = [tuple(s if j == i else 0 for j in range(n)) for i in range(n) for s in (1, 2, 3)]
    sigs.append(tuple((i % 3) + 1 for i in range(n)))
    outcomes = set()
    for d1, d2 in itertools.permutations(_defs(case['cls']), 2):
        res['extra']['model_pairs'] += 1
        m1 = _model({'deformation': d1}, r)
        for sg in sigs[:3]:
            m1.error_probability(_vec(sg, n), code, p)
        m2 = _model({'deformation': d2}, r)
        ch = _channel(_perms(code, d2), r, p)
        differs = _channel(_perms(code, d1), r, p) != ch
        for sg in sigs:
            res['evals'] += 1
            res['nontrivial'] += int(differs)
            want = _ref_prob(ch, sg)
            got = float(m2.error_probability(_vec(sg, n), code, p))
            outcomes.add('%.6g' % want)
            if abs(got - want) > 1e-12 * max(1.0, want) + 1e-9 * want and len(res['violations']) < 3:
                res['violations'].append({
                    'key': {'part': 'models', 'kind': 'probability-of-another-model', 'cls': case['cls'],
                            'size': list(case['size']), 'first_model': None if not d1 else [d1[0], d1[1]],
                            'second_model': None if not d2 else [d2[0], d2[1]]},
                    'detail': {'error': _pstr(sg), 'got': got, 'expected': want, 'p': p, 'r': list(r)}})
    res['outcomes'] = sorted(outcomes)[:50]
    res['samples'] = [{'part': 'models', 'cls': case['cls'], 'size': list(case['size']),
                       'pairs': res['extra']['model_pairs']}]
    return res


def eval_case(case):
    if case['part'] == 'models':
        return _eval_models(case)
    if case['part'] == 'metropolis':
        return _eval_metropolis(case)
    if case['part'] == 'large-n':
        return _eval_large_n(case)
    if case['part'] == 'sum8':
        return _eval_sum(case)
    return _eval_errors(case)
