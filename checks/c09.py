"""C09  Matching is exactly minimum-weight; correctable sets are always corrected.

Three parts, each a complete enumeration executed on the real decoders.

opt  MatchingDecoder optimality.  For a small CSS code every X-part x in GF(2)^n
     (and every Z-part z) is enumerated; x is bucketed by the syndrome it causes
     (reference: integer GF(2) algebra on the rows of code.stabilizer_matrix), and
     the minimum log-likelihood weight of every bucket (= full coset of solutions of
     that syndrome) is recorded.  Weights are recomputed in this file from the
     channel definition: q_X(i) = P(X_i)+P(Y_i), q_Z(i) = P(Z_i)+P(Y_i) after the
     noise deformation, w = log((1-q)/q); a qubit with q = 0 has infinite weight, so
     total weights are compared lexicographically (number of q=0 qubits used, finite
     sum).  The real decoder is run on every reachable syndrome of both sectors and
     the total reference weight of what it returns must equal the bucket minimum.
tc   With uniform weights every Pauli error of weight <= floor((d-1)/2) (every
     support, every X/Y/Z assignment) is corrected by MatchingDecoder on Toric2D /
     Planar2D / RotatedPlanar2D and by UnionFindDecoder on Toric2D.
sm   Every single-qubit X/Y/Z error is corrected by SweepMatchDecoder on Toric3D
     and RotatedSweepMatchDecoder on RotatedPlanar3D, all sizes with every L >= 3.

Success is decided twice: code.is_success(e + c) as the property words it, and
independently "e + c lies in the row space of the stabilizer matrix" (mc/gf2.py).
"""
import itertools
import math

import numpy as np

from mc import gf2

PROPERTY = 'C09'
LEVEL = 'exploration'
DESIGN_REF = 'DESIGN.md §4 C09'
TECHNIQUE = ('exhaustive enumeration: (a) every syndrome x the full coset of 2^n candidate corrections per sector '
             'on small codes, for 19 noise direction/deformation/axis combinations x every total rate of {0.05..0.95} whose flip marginals are < 1/2, decoder weight '
             'compared with the coset minimum under independently recomputed log-likelihood weights; (b) every '
             'Pauli error of weight <= floor((d-1)/2) on every lattice size up to the bound, success decided by '
             'is_success and by an independent GF(2) row-space test')
LEVEL_TEXT = ('Minimum-weight optimality is decided exactly, per syndrome, against the complete coset of solutions '
              '(no sampling, no reliance on a second decoder), for all reachable syndromes of both sectors; '
              'correctability is decided for every error of the correctable weight class on every size up to the '
              'bound. The bugs the property guards against (wrong H/weight pairing, swapped sectors, one '
              'mis-weighted or dropped edge, a peeling mistake) show on small lattices for some syndrome, which '
              'complete enumeration reaches; no abstract model is involved, hence "exploration".')
LEVEL_NOTE = ('Trusted: mc/gf2.py; code.stabilizer_matrix / qubit_coordinates as the definition of the code (C01-C04 '
              'check those); the channel definition p_sigma = p*r_sigma with the XZZX (X<->Z on qubits of the '
              'deformation axis) and XY (Y<->Z) noise deformations, whose qubit-axis convention is restated here '
              'from the documentation; PyMatching discretises weights to 2^24 levels of max|w| (tolerance '
              'n*max|w|*2^-20, a 16-fold margin over the rigorous bound n*max|w|/(2^24-1)). Not covered: codes '
              'with n > 18 for optimality, lattice sizes above the stated bounds (in particular RotatedPlanar3D '
              'above n = 250), sweep tie-break answers other than those of the decoder\'s own seeded generator '
              '(the evidence counter sm_tie_break_draws shows single-qubit errors never reach a tie-break; C10 '
              'enumerates tie-breaks), noise with a marginal >= 1/2 (outside the property).')
RULE = ('opt: one sub-case = (code, noise, rate, decoder error_type, sector, reachable syndrome); non-trivial when '
        'the syndrome is non-zero and its coset holds at least two solutions whose weights differ by more than the '
        'tolerance (a wrong choice is observable). tc/sm: one sub-case = one Pauli error (support, X/Y/Z '
        'assignment) of weight 1..t on one (decoder, code size); non-trivial when its reference syndrome is '
        'non-zero; weight-0 (t = 0, d = 2) sizes contribute the identity only and are counted as trivial')
ASSUMPTIONS = [
    'code.stabilizer_matrix and qubit_coordinates define the code (validity is C01-C04)',
    'd = min(L) for Toric2D/Planar2D/RotatedPlanar2D and d >= 3 for Toric3D/RotatedPlanar3D with every L >= 3',
    'PyMatching 2.x quantises edge weights to at most 2^24 levels of the largest |weight|',
    'qubit-axis convention of the XZZX noise deformation as documented (x-edges / (x+y)%4==2 are axis x)',
    'GF(2) reference algebra mc/gf2.py',
]

# total error rates; for each noise exactly those rates are used at which every per-qubit flip marginal
# (recomputed by _ref_marginals, not the total rate) is below 1/2 -- the property's domain.  Rates above 1/2
# belong to it whenever the direction splits the rate over X and Z (r_y = 0 or small).
RATES = [0.05, 0.2, 0.4, 0.6, 0.8, 0.95]
T = 1.0 / 3.0
# label, (r_x, r_y, r_z), deformation name, axis (None = the class default, which is 'y')
NOISES = [
    ['depol', [T, T, T], None, None],
    ['Zbias', [0.1, 0.1, 0.8], None, None],
    ['Xbias', [0.8, 0.1, 0.1], None, None],
    ['pureZ', [0.0, 0.0, 1.0], None, None],
    ['Zbias+XZZX', [0.1, 0.1, 0.8], 'XZZX', None],
    ['Zbias+XZZXx', [0.1, 0.1, 0.8], 'XZZX', 'x'],
    ['Xbias+XZZXy', [0.8, 0.1, 0.1], 'XZZX', 'y'],
    ['pureZ+XZZX', [0.0, 0.0, 1.0], 'XZZX', None],
    ['pureZ+XZZXx', [0.0, 0.0, 1.0], 'XZZX', 'x'],
    ['pureX+XZZXy', [1.0, 0.0, 0.0], 'XZZX', 'y'],
    ['mixed+XY', [0.7, 0.2, 0.1], 'XY', None],
    ['mixed+XZZXx', [0.2, 0.5, 0.3], 'XZZX', 'x'],
    # directions whose flip marginals stay below 1/2 for total rates above 1/2
    ['XZ46', [0.4, 0.0, 0.6], None, None],
    ['XZ46+XZZXx', [0.4, 0.0, 0.6], 'XZZX', 'x'],
    ['XZ64+XZZX', [0.6, 0.0, 0.4], 'XZZX', None],
    ['XZ5248+XZZXy', [0.52, 0.0, 0.48], 'XZZX', 'y'],
    ['XZ4852', [0.48, 0.0, 0.52], None, None],
    ['smallY+XZZXx', [0.45, 0.05, 0.5], 'XZZX', 'x'],
    ['Ybias+XY', [0.3, 0.5, 0.2], 'XY', None],
]


def _rates_for(noise):
    """The rates of RATES at which all flip marginals of this noise are < 1/2 (one qubit of each axis)."""
    label, direction, deformation, axis = noise
    out = []
    for p in RATES:
        qx, qz = _ref_marginals('Toric2DCode', [(1, 0), (0, 1)], direction, deformation, axis, p)
        if max(qx + qz) < 0.5:
            out.append(p)
    return out
OPT_CODES = {
    'quick': [['Toric2DCode', [2, 2]], ['Planar2DCode', [2, 2]], ['Planar2DCode', [3, 2]],
              ['RotatedPlanar2DCode', [2, 4]], ['RotatedPlanar2DCode', [3, 3]], ['Toric2DCode', [2, 3]],
              ['RotatedPlanar2DCode', [4, 3]], ['Planar2DCode', [3, 3]], ['Toric2DCode', [3, 3]]],
    'thorough': [['Toric2DCode', [2, 2]], ['Planar2DCode', [2, 2]], ['Planar2DCode', [3, 2]],
                 ['Planar2DCode', [2, 3]], ['RotatedPlanar2DCode', [2, 4]], ['RotatedPlanar2DCode', [3, 3]],
                 ['Toric2DCode', [2, 3]], ['Toric2DCode', [3, 2]], ['RotatedPlanar2DCode', [4, 3]],
                 ['RotatedPlanar2DCode', [3, 4]], ['Planar2DCode', [3, 3]], ['RotatedPlanar2DCode', [4, 4]],
                 ['Toric2DCode', [3, 3]]],
}
BOUNDS = {
    'quick': {'opt_codes': len(OPT_CODES['quick']), 'opt_max_n': 18, 'noises': len(NOISES), 'rates': RATES,
              'tc_d_max': 4, 'tc_l_max': 6, 'tc_extra_sizes': [[5, 5]], 'tc_union_find': False,
              'tc_union_find_sizes': [[3, 3], [3, 4], [4, 4], [5, 5]],
              'sm_toric3d_max_n': 250, 'sm_rotated_planar3d_max_n': 100},
    'thorough': {'opt_codes': len(OPT_CODES['thorough']), 'opt_max_n': 18, 'noises': len(NOISES), 'rates': RATES,
                 'tc_d_max': 5, 'tc_l_max': 7, 'tc_extra_sizes': [], 'tc_union_find': True,
                 'sm_toric3d_max_n': 400, 'sm_rotated_planar3d_max_n': 250},
}
BUDGET_S = {'quick': 600, 'thorough': 5400}
TARGET_CASE_S = 2.0
# measured single-core cost per error (s): decode + is_success + reference
COST = {'MatchingDecoder': lambda n: 0.002, 'UnionFindDecoder': lambda n: 0.012 + 0.0001 * n,
        'SweepMatchDecoder': lambda n: 0.0025 + 0.00001 * n, 'RotatedSweepMatchDecoder': lambda n: 0.002 + 0.00012 * n}


# ------------------------------------------------------------------ case lists
def _n_errors(n, t):
    return sum(math.comb(n, w) * 3 ** w for w in range(0, t + 1))


def _n_of(cls, size):
    if cls == 'Toric2DCode':
        return 2 * size[0] * size[1]
    if cls == 'Planar2DCode':
        return size[0] * size[1] + (size[0] - 1) * (size[1] - 1)
    if cls == 'RotatedPlanar2DCode':
        return size[0] * size[1]
    if cls == 'Toric3DCode':
        return 3 * size[0] * size[1] * size[2]
    from mc import families as F
    return F.n_qubits(cls, size)


def _lw_cases(part, decoder, cls, size, t):
    n = _n_of(cls, size)
    cost = _n_errors(n, t) * COST[decoder](n)
    k = max(1, min(256, int(math.ceil(cost / TARGET_CASE_S))))
    return [{'part': part, 'decoder': decoder, 'cls': cls, 'size': list(size), 't': t, 'shard': s, 'nshards': k}
            for s in range(k)]


def cases(tier, seed):
    b = BOUNDS[tier]
    out = []
    # t = 0 / t = 1 sweeps are the cheapest: first
    sizes2 = [s for s in itertools.product(range(2, b['tc_l_max'] + 1), repeat=2) if min(s) <= b['tc_d_max']]
    sizes2 += [tuple(s) for s in b['tc_extra_sizes'] if tuple(s) not in sizes2]
    sizes2.sort(key=lambda s: (min(s), s[0] * s[1], s))
    decs = [('MatchingDecoder', c) for c in ('Toric2DCode', 'Planar2DCode', 'RotatedPlanar2DCode')]
    if b['tc_union_find']:
        decs.append(('UnionFindDecoder', 'Toric2DCode'))
    uf_quick = [] if b['tc_union_find'] else [tuple(s) for s in b.get('tc_union_find_sizes', [])]
    heavy = []
    for s in sizes2:
        t = (min(s) - 1) // 2
        for dec, cls in decs:
            (out if t < 2 else heavy).extend(_lw_cases('tc', dec, cls, s, t))
        if s in uf_quick:
            (out if t < 2 else heavy).extend(_lw_cases('tc', 'UnionFindDecoder', 'Toric2DCode', s, t))
    for cls, size in OPT_CODES[tier]:
        for noise in NOISES:
            out.append({'part': 'opt', 'cls': cls, 'size': size, 'noise': noise, 'rates': _rates_for(noise)})
    # the same optimality cases with a noise-model OBJECT that has served the transposed lattice (same class, same
    # qubit count, other shape) before: the weights must be those of the code being decoded
    for cls, size in OPT_CODES[tier]:
        if size[0] != size[1] and cls != 'Toric2DCode' or (tier == 'thorough' and size[0] != size[1]):
            for noise in NOISES:
                if noise[2] is not None:
                    out.append({'part': 'opt', 'cls': cls, 'size': size, 'noise': noise, 'rates': _rates_for(noise)[:1],
                                'primed_on': size[::-1]})
    sm = []
    lmax = b['sm_toric3d_max_n'] // 27
    for s in itertools.product(range(3, lmax + 1), repeat=3):
        if 3 * s[0] * s[1] * s[2] <= b['sm_toric3d_max_n']:
            sm.append((3 * s[0] * s[1] * s[2], 'SweepMatchDecoder', 'Toric3DCode', s))
    for s in itertools.product(range(3, b['sm_rotated_planar3d_max_n'] // 9 + 1), repeat=3):
        if s[0] * s[1] * s[2] > b['sm_rotated_planar3d_max_n']:      # n > L_x L_y L_z always
            continue
        n = _n_of('RotatedPlanar3DCode', s)
        if n is not None and n <= b['sm_rotated_planar3d_max_n']:
            sm.append((n, 'RotatedSweepMatchDecoder', 'RotatedPlanar3DCode', s))
    sm.sort()
    for n, dec, cls, s in sm:
        out.extend(_lw_cases('sm', dec, cls, s, 1))
        if n <= 130:
            # the same single-qubit errors with the decoder built for a very low physical error rate (the rate
            # is a prior, not a budget: a correctable error stays correctable)
            out.extend([dict(c, rate=0.001) for c in _lw_cases('sm', dec, cls, s, 1)])
    for sz in ((3, 3), (4, 4)):
        for dec, cls in decs:
            out.extend([dict(c, rate=0.001) for c in _lw_cases('tc', dec, cls, sz, (min(sz) - 1) // 2)])
    out.extend(heavy)
    return out


# ------------------------------------------------------------------ shared
def _build_code(cls, size):
    import panqec.codes as C
    return getattr(C, cls)(*size)


def _base_key(case, kind, **kw):
    k = {'kind': kind, 'part': case['part'], 'cls': case['cls'], 'size': list(case['size']),
         'square': len(set(case['size'])) == 1, 'min_L': min(case['size'])}
    k.update(kw)
    return k


def eval_case(case):
    if case['part'] == 'opt':
        return _eval_opt(case)
    return _eval_lowweight(case)


# ------------------------------------------------------------------ part opt
def _axis_of(cls, loc):
    """Documented qubit-axis convention, restated (not imported)."""
    x, y = loc
    if cls == 'RotatedPlanar2DCode':
        return 'x' if (x + y) % 4 == 2 else 'y'
    return 'x' if x % 2 == 1 else 'y'


def _ref_marginals(cls, coords, direction, deformation, axis, p):
    """Per-qubit probabilities that the X part / the Z part of the error is flipped."""
    rx, ry, rz = direction
    qx, qz = [], []
    for loc in coords:
        px, py, pz = rx * p, ry * p, rz * p
        if deformation == 'XZZX':
            if _axis_of(cls, loc) == (axis or 'y'):
                px, pz = pz, px                # Hadamard on this qubit
        elif deformation == 'XY':
            py, pz = pz, py
        elif deformation is not None:
            raise ValueError(deformation)
        qx.append(px + py)
        qz.append(pz + py)
    return qx, qz


def _ref_weights(q):
    """(is_infinite, finite part) of log((1-q)/q) per qubit."""
    inf = [1 if v <= 0.0 else 0 for v in q]
    fin = [0.0 if v <= 0.0 else math.log((1.0 - v) / v) for v in q]
    return inf, fin


def _all_sums(vals, dtype):
    """a[x] = sum_i vals[i] * bit_i(x) for every x in [0, 2^n)."""
    a = np.zeros(1, dtype=dtype)
    for v in vals:
        a = np.concatenate([a, a + v])
    return a


def _all_syndromes(cols):
    a = np.zeros(1, dtype=np.int64)
    for c in cols:
        a = np.concatenate([a, a ^ c])
    return a


def _bucket_first(S, K, F):
    """Per syndrome bucket: the bucket's syndrome, the index x of its lexicographic (K, F) minimum
    and of its lexicographic maximum."""
    order = np.lexsort((F, K, S))
    Ss = S[order]
    first = np.ones(len(Ss), dtype=bool)
    first[1:] = Ss[1:] != Ss[:-1]
    idx = order[first]
    last = np.ones(len(Ss), dtype=bool)
    last[:-1] = Ss[1:] != Ss[:-1]
    idl = order[last]
    return S[idx], idx, idl


def _eval_opt(case):
    from panqec.decoders import MatchingDecoder
    from panqec.error_models import PauliErrorModel
    cls, size = case['cls'], case['size']
    label, direction, deformation, axis = case['noise']
    res = {'evals': 0, 'nontrivial': 0, 'violations': [], 'outcomes': [], 'samples': [],
           'extra': {'opt_decode_calls': 0, 'opt_coset_elements_enumerated': 0, 'opt_suboptimal': 0,
                     'opt_sensitive_to_sector_swap': 0, 'opt_plateau_sectors': 0,
                     'opt_excess_above_1e-9_within_tolerance': 0, 'opt_weight_vectors_compared': 0}}
    V = res['violations']
    ex = res['extra']
    code = _build_code(cls, size)
    n = code.n
    H = gf2.matrix_rows(code.stabilizer_matrix)
    m = len(H)
    mask = (1 << n) - 1
    coords = list(code.qubit_coordinates)
    # syndrome caused by X_i (rows whose Z block contains i) and by Z_i, over the full generator list
    colX = [gf2.syndrome(H, 1 << i, n) for i in range(n)]
    colZ = [gf2.syndrome(H, 1 << (n + i), n) for i in range(n)]
    SX = _all_syndromes(colX)
    SZ = _all_syndromes(colZ)
    kw = {} if axis is None else {'deformation_axis': axis}

    def key(kind, **k2):
        k = _base_key(case, kind, noise=label, deformation=deformation, axis=axis)
        if case.get('primed_on'):
            k['noise_model_used_before_on'] = list(case['primed_on'])
        k.update(k2)
        return k

    for p in case['rates']:
        em = PauliErrorModel(direction[0], direction[1], direction[2], deformation, dict(kw) if kw else None)
        if case.get('primed_on'):
            other = _build_code(cls, case['primed_on'])
            em.probability_distribution(other, p)
            em.get_weights(other, p)
        qx, qz = _ref_marginals(cls, coords, direction, deformation, axis, p)
        assert max(qx) < 0.5 and max(qz) < 0.5
        wpan = em.get_weights(code, p)
        sector = {}
        for name, q, S, wp, other in (('X', qx, SX, np.asarray(wpan[0], dtype=float), qz),
                                      ('Z', qz, SZ, np.asarray(wpan[1], dtype=float), qx)):
            inf, fin = _ref_weights(q)
            # --- panqec's weights against the recomputation
            big = sum(fin) + 1.0
            bad = [i for i in range(n)
                   if (inf[i] and not (np.isfinite(wp[i]) and wp[i] > big))
                   or (not inf[i] and abs(wp[i] - fin[i]) > 1e-9 * max(1.0, abs(fin[i])))]
            if bad:
                V.append({'key': key('weights-mismatch', p=p, sector=name),
                          'detail': {'qubits': bad[:8], 'panqec': [float(wp[i]) for i in bad[:8]],
                                     'reference': [('inf' if inf[i] else fin[i]) for i in bad[:8]],
                                     'marginal': [q[i] for i in bad[:8]]}})
            ex['opt_weight_vectors_compared'] += 1
            tol = n * float(np.max(np.abs(wp))) * 2.0 ** -20
            ex['opt_plateau_sectors'] += int(any(inf))
            K = _all_sums(inf, np.int64)
            Fw = _all_sums(fin, np.float64)
            keys, idx, idl = _bucket_first(S, K, Fw)
            ex['opt_coset_elements_enumerated'] += len(S)
            # what a decoder using the other sector's weights would pick
            inf2, fin2 = _ref_weights(other)
            _, idx2, _ = _bucket_first(S, _all_sums(inf2, np.int64), _all_sums(fin2, np.float64))
            table = {}
            for j in range(len(keys)):
                s = int(keys[j])
                x, xl, x2 = int(idx[j]), int(idl[j]), int(idx2[j])
                kmin, fmin = int(K[x]), float(Fw[x])
                spread = (int(K[xl]) != kmin) or (float(Fw[xl]) > fmin + tol)
                swap = (int(K[x2]) != kmin) or (float(Fw[x2]) > fmin + tol)
                table[s] = (x, kmin, fmin, spread, swap)
            sector[name] = {'table': table, 'inf': inf, 'fin': fin, 'tol': tol,
                            'order': sorted(table, key=lambda s: (bin(table[s][0]).count('1'), s))}
        # --- the real decoder on every reachable syndrome of both sectors
        ordX, ordZ = sector['X']['order'], sector['Z']['order']
        for etype in (None, 'X', 'Z'):
            try:
                dec = MatchingDecoder(code, em, p, etype)
            except Exception as exc:
                V.append({'key': key('decoder-construction-raises', p=p, error_type=etype, exc=type(exc).__name__),
                          'detail': {'message': str(exc)[:200]}})
                continue
            active = [s for s in ('X', 'Z') if etype in (None, s)]
            for j in range(max(len(ordX), len(ordZ))):
                sx, sz = ordX[j % len(ordX)], ordZ[j % len(ordZ)]
                ex_int = sector['X']['table'][sx][0] | (sector['Z']['table'][sz][0] << n)
                e = np.array(gf2.int_to_vec(ex_int, 2 * n), dtype=np.uint8)
                syn = code.measure_syndrome(e)
                ex['opt_decode_calls'] += 1
                if gf2.vec_to_int(syn) != (sx ^ sz) or len(syn) != m:
                    if len(V) < 5:
                        V.append({'key': key('measure_syndrome-differs-from-reference', p=p),
                                  'detail': {'error': gf2.int_to_pauli_string(ex_int, n)}})
                    continue
                try:
                    c = dec.decode(syn)
                except Exception as exc:
                    if len(V) < 5:
                        V.append({'key': key('raises', p=p, error_type=etype, exc=type(exc).__name__),
                                  'detail': {'message': str(exc)[:200],
                                             'error': gf2.int_to_pauli_string(ex_int, n)}})
                    continue
                try:
                    c_int = gf2.vec_to_int(c)
                    if len(c) != 2 * n:
                        raise ValueError('length %d' % len(c))
                except ValueError as exc:
                    if len(V) < 5:
                        V.append({'key': key('malformed-correction', p=p, error_type=etype),
                                  'detail': {'message': str(exc)[:100]}})
                    continue
                parts = {'X': (c_int & mask, sx, colX), 'Z': (c_int >> n, sz, colZ)}
                for name in ('X', 'Z'):
                    v, s, cols = parts[name]
                    if name not in active:
                        if v and len(V) < 5:
                            V.append({'key': key('inactive-sector-corrected', p=p, error_type=etype, sector=name),
                                      'detail': {}})
                        continue
                    sec = sector[name]
                    x0, kmin, fmin, spread, swap = sec['table'][s]
                    got = 0
                    for i in range(n):
                        if (v >> i) & 1:
                            got ^= cols[i]
                    fresh = j < len(sec['order'])
                    if fresh:
                        res['evals'] += 1
                        if s and spread:
                            res['nontrivial'] += 1
                        if etype is None and swap:
                            ex['opt_sensitive_to_sector_swap'] += 1
                    if got != s:
                        if len(V) < 5:
                            V.append({'key': key('correction-has-wrong-syndrome', p=p, error_type=etype,
                                                 sector=name, syndrome=s, syndrome_weight=bin(s).count('1')),
                                      'detail': {'returned_syndrome': got,
                                                 'correction': gf2.int_to_vec(v, n)}})
                        continue
                    k = sum(sec['inf'][i] for i in range(n) if (v >> i) & 1)
                    f = math.fsum(sec['fin'][i] for i in range(n) if (v >> i) & 1)
                    if k == kmin and fmin + 1e-9 < f <= fmin + sec['tol']:
                        ex['opt_excess_above_1e-9_within_tolerance'] += 1
                    if k != kmin or f > fmin + sec['tol']:
                        if fresh:
                            ex['opt_suboptimal'] += 1
                        if len(V) < 5:
                            V.append({'key': key('not-minimum-weight', p=p, error_type=etype, sector=name,
                                                 syndrome=s, syndrome_weight=bin(s).count('1')),
                                      'detail': {'syndrome_rows': [i for i in range(m) if (s >> i) & 1],
                                                 'decoder_qubits': [i for i in range(n) if (v >> i) & 1],
                                                 'minimum_qubits': [i for i in range(n) if (x0 >> i) & 1],
                                                 'decoder_weight': [k, f], 'minimum_weight': [kmin, fmin],
                                                 'tolerance': sec['tol'],
                                                 'reference_weights': [('inf' if sec['inf'][i] else
                                                                        round(sec['fin'][i], 6)) for i in range(n)]}})
                    elif fresh and len(res['outcomes']) < 50:
                        res['outcomes'].append('%s|%s|%s|%s|%d|%d|%.4f' % (cls[:3], size, label, name,
                                                                          bin(s).count('1'), k, f))
        if p == case['rates'][-1]:
            sx = ordX[-1]
            res['samples'].append({'code': '%s%s' % (cls, tuple(size)), 'noise': label, 'p': p,
                                   'sector': 'X', 'syndrome_rows': [i for i in range(m) if (sx >> i) & 1],
                                   'coset_size': int(len(SX) // len(ordX)),
                                   'minimum_weight': list(sector['X']['table'][sx][1:3])})
    return res


# ------------------------------------------------------------------ parts tc / sm
class _CountingRNG:
    """Delegates to the sweep decoder's own seeded generator and counts tie-break draws."""

    def __init__(self, gen):
        self._gen = gen
        self.draws = 0

    def choice(self, *a, **k):
        self.draws += 1
        return self._gen.choice(*a, **k)

    def __getattr__(self, name):
        return getattr(self._gen, name)


def _eval_lowweight(case):
    import panqec.decoders as D
    from panqec.error_models import PauliErrorModel
    cls, size, t = case['cls'], case['size'], case['t']
    res = {'evals': 0, 'nontrivial': 0, 'violations': [], 'outcomes': [], 'samples': [],
           'extra': {'lw_errors_tried': 0, 'lw_failures': 0, 'lw_identity_only_sizes': 0,
                     'lw_errors_of_weight_2': 0, 'sm_tie_break_draws': 0}}
    V = res['violations']
    ex = res['extra']
    code = _build_code(cls, size)
    n = code.n
    em = PauliErrorModel(T, T, T)               # uniform weights
    H = gf2.matrix_rows(code.stabilizer_matrix)
    B = gf2.Basis(H)
    d_theory = min(size)
    outcomes = set()

    def key(kind, **k2):
        k = _base_key(case, kind, decoder=case['decoder'], d=d_theory, t=t)
        k.update(k2)
        return k

    try:
        dec = getattr(D, case['decoder'])(code, em, case.get('rate', 0.1))
    except Exception as exc:
        res['evals'] = 1
        V.append({'key': key('decoder-construction-raises', exc=type(exc).__name__),
                  'detail': {'message': str(exc)[:200]}})
        return res
    counter = None
    if case['part'] == 'sm' and hasattr(getattr(dec, 'sweeper', None), '_rng'):
        counter = dec.sweeper._rng = _CountingRNG(dec.sweeper._rng)

    if t == 0 and case['shard'] == 0:
        ex['lw_identity_only_sizes'] = 1
    i_support = -1
    for w in range(0, t + 1):
        for qs in itertools.combinations(range(n), w):
            i_support += 1
            if i_support % case['nshards'] != case['shard']:
                continue
            for ps in itertools.product('XYZ', repeat=w):
                e_int = 0
                for q, P in zip(qs, ps):
                    if P in 'XY':
                        e_int |= 1 << q
                    if P in 'YZ':
                        e_int |= 1 << (n + q)
                e = np.array(gf2.int_to_vec(e_int, 2 * n), dtype=np.uint8)
                res['evals'] += 1
                ex['lw_errors_tried'] += 1
                ex['lw_errors_of_weight_2'] += int(w == 2)
                s_ref = gf2.syndrome(H, e_int, n)
                if s_ref:
                    res['nontrivial'] += 1
                fail = None
                try:
                    corr = dec.decode(code.measure_syndrome(e))
                    ok = bool(code.is_success((corr + e) % 2))
                except Exception as exc:              # "always corrected" includes "does not raise"
                    fail = ('raises', {'exc': type(exc).__name__}, {'message': str(exc)[:200]})
                if fail is None:
                    try:
                        c_int = gf2.vec_to_int(np.asarray(corr) % 2)
                        if len(corr) != 2 * n:
                            raise ValueError('correction has length %d' % len(corr))
                    except ValueError as exc:
                        fail = ('malformed-correction', {}, {'message': str(exc)[:100]})
                if fail is None:
                    r = e_int ^ c_int
                    ok_ref = B.contains(r)
                    outcomes.add('%s|%s|w%d|cw%d|rw%d|%s' % (case['decoder'][:5], cls[:6], w,
                                                            gf2.weight(c_int, n), gf2.weight(r, n), ok_ref))
                    if not ok_ref or not ok:
                        resid_syn = gf2.syndrome(H, r, n)
                        fail = ('not-corrected' if not ok_ref else 'is_success-false-on-stabilizer-residual',
                                {'is_success': ok, 'reference_success': ok_ref,
                                 'residual': 'logical' if not resid_syn else 'syndrome-not-cleared'},
                                {'correction': gf2.int_to_pauli_string(c_int, n),
                                 'residual_weight': gf2.weight(r, n)})
                if fail is not None:
                    ex['lw_failures'] += 1
                    if len(V) < 5:
                        kind, kk, det = fail
                        det = dict(det)
                        det['error'] = {str(code.qubit_coordinates[q]): P for q, P in zip(qs, ps)}
                        V.append({'key': key(kind, weight=w, paulis=''.join(ps), qubits=list(qs), **kk),
                                  'detail': det})
            if w == t and len(res['samples']) < 1 and qs:
                res['samples'].append({'decoder': case['decoder'], 'code': '%s%s' % (cls, tuple(size)),
                                       'd': d_theory, 't': t, 'support': list(qs),
                                       'assignments': 3 ** w})
    res['outcomes'] = sorted(outcomes)[:50]
    if counter is not None:
        ex['sm_tie_break_draws'] = counter.draws
    return res
