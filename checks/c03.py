"""C03  Pauli representations are lossless and the symplectic product is exact.

All ordered pairs of Paulis on n <= 3 qubits in every pair of accepted
representations; all 2-row stacks on n = 2; a deterministic overlap axis that
walks every overlap weight across the uint8 wrap boundaries; measure_syndrome
against H Omega e on all 4^n errors of the small library codes; converters on
all Pauli strings with n <= 4.  Reference: mc/gf2.py.
"""
import itertools

import numpy as np
from scipy.sparse import csr_matrix

from mc import families as F
from mc import gf2

PROPERTY = 'C03'
LEVEL = 'exploration'
DESIGN_REF = 'DESIGN.md §4 C03'
TECHNIQUE = ('exhaustive enumeration of all Pauli pairs on n<=3 qubits in every representation pair, all overlap '
             'weights 0..N across the uint8 wrap boundaries, all 4^n errors on small library codes, all Pauli '
             'strings n<=4 through every converter; compared with an integer GF(2) reference')
LEVEL_TEXT = ('The input space named by the property (pairs on n<=3 in every representation, overlaps beyond 255) is '
              'finite and is enumerated completely; the random-stack part of the quantifier is replaced by a '
              'deterministic walk over every overlap weight, which covers each wrap boundary with certainty.')
LEVEL_NOTE = ('Trusted: mc/gf2.py. Representations enumerated: list, ndarray of 7 integer dtypes (1-D and 1x2n), csr '
              'row; bool/float arrays are not accepted representations in the statement.')
RULE = ('pairs: every (a, b) in P_n x P_n for n in 1..3 for every ordered pair of 19 representations; stacks: all '
        '16^2 x 16^2 two-row stacks on n=2 (dense, sparse); overlap: every w in 0..N for N in the boundary list, 5 '
        'patterns x 4 representation mixes; syndrome: all 4^n errors for library codes with n<=8; converters: all '
        '4^n strings n<=4; bsparse: every BSF row on n<=3 qubits (canonical and unsorted csr, alone and inside a '
        'stack) through hsplit/hstack/vstack/dot/is_one/equal; wide: every converter on single-qubit X/Z/Y at every '
        'position, uniform and alternating operators for n around the 8/16/32/64-bit boundaries of 2n and up to '
        'n=300 (2500 in thorough), single vectors and stacks of 3 dtypes. non-trivial = distinct (input, representation) tuples with a non-identity operand')
ASSUMPTIONS = ['GF(2) reference mc/gf2.py']
BOUNDS = {'quick': {'n_pairs': 3, 'overlap_N': [255, 256, 257, 511, 512, 513, 600], 'syndrome_max_n': 6,
                    'conv_n': 4, 'wide_n': [4, 8, 15, 16, 17, 31, 32, 33, 40, 63, 64, 65, 100, 300]},
          'thorough': {'n_pairs': 3, 'overlap_N': [254, 255, 256, 257, 258, 510, 511, 512, 513, 514, 600, 767, 768,
                                                   769, 1024, 1025],
                       'syndrome_max_n': 8, 'conv_n': 5,
                       'wide_n': [4, 7, 8, 9, 15, 16, 17, 31, 32, 33, 40, 63, 64, 65, 100, 127, 128, 129, 300, 1000, 2500]}}

DTYPES = ['uint8', 'int8', 'uint16', 'int16', 'int32', 'int64', 'uint64']
REPS = ['list'] + ['%s/1d' % d for d in DTYPES] + ['%s/2d' % d for d in DTYPES] + ['list/2d', 'csr',
                                                                                 'csr/explicit-zeros', 'csr/unsorted']


def rep(v, n, kind):
    bits = gf2.int_to_vec(v, 2 * n)
    if kind == 'list':
        return list(bits)
    if kind == 'list/2d':
        return [list(bits)]
    if kind == 'csr':
        return csr_matrix(np.array([bits], dtype='uint8'))
    if kind == 'csr/explicit-zeros':
        # as left behind by sparse arithmetic (e.g. s = a + b; s.data %= 2): zeros stored explicitly
        cols = list(range(2 * n))
        return csr_matrix((np.array(bits, dtype='uint8'), np.array(cols), np.array([0, 2 * n])), shape=(1, 2 * n))
    if kind == 'csr/unsorted':
        cols = [i for i in range(2 * n) if bits[i]][::-1]
        return csr_matrix((np.ones(len(cols), dtype='uint8'), np.array(cols, dtype=int), np.array([0, len(cols)])),
                          shape=(1, 2 * n))
    dt, shape = kind.split('/')
    a = np.array(bits, dtype=dt)
    return a if shape == '1d' else a.reshape(1, -1)


def cases(tier, seed):
    b = BOUNDS[tier]
    out = []
    for n in range(1, b['n_pairs'] + 1):
        for ra in REPS:
            if n < 3:
                out.append({'part': 'pairs', 'n': n, 'ra': ra, 'rbs': REPS})
            else:
                for rb in REPS:
                    out.append({'part': 'pairs', 'n': n, 'ra': ra, 'rbs': [rb]})
    for mode in ('dense', 'sparse', 'mixed', 'mixed-sparse-first'):
        for a0 in range(16):
            out.append({'part': 'stacks', 'mode': mode, 'a0': a0})
    for N in b['overlap_N']:
        out.append({'part': 'overlap', 'N': N})
    for cfg in F.configs(b['syndrome_max_n'], min_count=0):
        out.append(dict(cfg, part='syndrome'))
    out.append({'part': 'converters', 'n_max': b['conv_n']})
    out.append({'part': 'rank'})
    for n in (1, 2):
        out.append({'part': 'inplace', 'n': n})
    for n in (1, 2, 3):
        out.append({'part': 'bsparse', 'n': n})
    # operators wider than any machine word: every converter on a structured family for n around the
    # 8/16/32/64-bit boundaries of 2n and beyond
    for n in b['wide_n']:
        out.append({'part': 'wide', 'n': n})
    return out


def _vals(x):
    return [float(t) for t in np.asarray(x).ravel()]


def eval_pairs(case):
    from panqec.bpauli import bs_prod
    n, ra = case['n'], case['ra']
    res = {'evals': 0, 'nontrivial': 0, 'violations': [], 'outcomes': set(), 'samples': [], 'extra': {}}
    N = 4 ** n
    A = [rep(a, n, ra) for a in range(N)]
    for rb in case['rbs']:
        B = [rep(b, n, rb) for b in range(N)]
        nbad = 0
        for a in range(N):
            for b in range(N):
                want = gf2.symp(a, b, n)
                try:
                    got = bs_prod(A[a], B[b])
                    g = _vals(got)
                    ok = (len(g) == 1 and g[0] == want)
                except Exception as exc:
                    ok, g = False, 'raises %s: %s' % (type(exc).__name__, str(exc)[:80])
                res['evals'] += 1
                if not ok:
                    nbad += 1
                    if len(res['violations']) < 4:
                        res['violations'].append({
                            'key': {'part': 'pairs', 'kind': 'product-differs-from-symplectic-form', 'n': n,
                                    'rep_a': ra, 'rep_b': rb},
                            'detail': {'a': gf2.int_to_pauli_string(a, n), 'b': gf2.int_to_pauli_string(b, n),
                                       'expected': want, 'got': str(g)[:100]}})
        res['nontrivial'] += (N - 1) * N + (N - 1)       # pairs with a non-identity operand
        res['extra']['pair_failures'] = res['extra'].get('pair_failures', 0) + nbad
        res['outcomes'].add('%s|%s|%d' % (ra, rb, nbad))
    # symmetry / alternation asserted directly on panqec's own values (one representation pair)
    if n <= 2 or case['rbs'] == [ra]:
        for a in range(N):
            if _vals(bs_prod(A[a], A[a])) != [0.0]:
                res['violations'].append({'key': {'part': 'pairs', 'kind': 'not-alternating', 'n': n, 'rep_a': ra},
                                          'detail': {'a': gf2.int_to_pauli_string(a, n)}})
                break
            for b in range(N):
                if _vals(bs_prod(A[a], A[b])) != _vals(bs_prod(A[b], A[a])):
                    res['violations'].append({'key': {'part': 'pairs', 'kind': 'not-symmetric', 'n': n, 'rep_a': ra},
                                              'detail': {}})
                    break
    res['outcomes'] = list(res['outcomes'])[:50]
    res['samples'].append({'n': n, 'rep_a': ra, 'a': gf2.int_to_pauli_string(N - 1, n), 'b': gf2.int_to_pauli_string(1, n)})
    return res


def eval_stacks(case):
    from panqec.bpauli import bs_prod
    n = 2
    mode = case['mode']
    res = {'evals': 0, 'nontrivial': 0, 'violations': [], 'outcomes': [], 'samples': [], 'extra': {}}

    def mk(rows, sparse):
        M = np.array([gf2.int_to_vec(r, 2 * n) for r in rows], dtype='uint8')
        return csr_matrix(M) if sparse else M
    nbad = 0
    for a0 in (case['a0'],):
        for a1 in range(16):
            SA = mk([a0, a1], mode in ('sparse', 'mixed-sparse-first'))
            # the SAME object on both sides (aliased operands): the pairwise matrix of a stack with itself
            want_self = [[gf2.symp(x, y, n) for y in (a0, a1)] for x in (a0, a1)]
            got_self = np.asarray(bs_prod(SA, SA))
            res['evals'] += 1
            if not (got_self.shape == (2, 2)
                    and got_self.astype(float).tolist() == [[float(t) for t in r] for r in want_self]):
                nbad += 1
                if len(res['violations']) < 3:
                    res['violations'].append({
                        'key': {'part': 'stacks', 'kind': 'stack-self-product-differs', 'mode': mode},
                        'detail': {'A': [gf2.int_to_pauli_string(t, n) for t in (a0, a1)], 'B': 'the same object',
                                   'expected': want_self, 'got': got_self.tolist()}})
            for b0 in range(16):
                for b1 in range(16):
                    SB = mk([b0, b1], mode in ('sparse', 'mixed'))
                    want = [[gf2.symp(x, y, n) for y in (b0, b1)] for x in (a0, a1)]
                    got = np.asarray(bs_prod(SA, SB))
                    res['evals'] += 1
                    ok = got.shape == (2, 2) and got.astype(float).tolist() == [[float(t) for t in r] for r in want]
                    # matrix x single vector must give a 1-D result of length = rows (measure_syndrome shape)
                    v = np.array(gf2.int_to_vec(b0, 2 * n), dtype='uint8')
                    g1 = np.asarray(bs_prod(SA, v))
                    ok1 = g1.shape == (2,) and g1.astype(float).tolist() == [float(want[0][0]), float(want[1][0])]
                    g2 = np.asarray(bs_prod(v, SA))
                    ok2 = g2.shape == (2,) and g2.astype(float).tolist() == [float(want[0][0]), float(want[1][0])]
                    if not (ok and ok1 and ok2):
                        nbad += 1
                        if len(res['violations']) < 3:
                            res['violations'].append({
                                'key': {'part': 'stacks', 'kind': 'stack-product-differs' if not ok else
                                        'matrix-vector-product-differs', 'mode': mode},
                                'detail': {'A': [gf2.int_to_pauli_string(t, n) for t in (a0, a1)],
                                           'B': [gf2.int_to_pauli_string(t, n) for t in (b0, b1)],
                                           'expected': want, 'got': got.tolist(), 'got_vec': g1.tolist()}})
    res['nontrivial'] = res['evals'] - 1 if case['a0'] == 0 else res['evals']
    res['extra']['stack_failures'] = nbad
    res['outcomes'] = ['stacks|%s|%d' % (mode, nbad)]
    res['samples'].append({'stack_A': ['XI', 'ZY'], 'stack_B': ['YY', 'IZ'], 'mode': mode})
    return res


def eval_overlap(case):
    from panqec.bpauli import bs_prod, bsf_wt
    N = case['N']
    res = {'evals': 0, 'nontrivial': 0, 'violations': [], 'outcomes': [], 'samples': [], 'extra': {}}
    nbad = 0
    pats = ('XZ', 'YX', 'YY', 'YZ', 'XX')
    mixes = (('uint8', 'uint8'), ('int64', 'int64'), ('csr', 'uint8'), ('uint8', 'csr'), ('csr', 'csr'),
             ('int8', 'uint8'), ('list', 'uint8'))
    for w in range(N + 1):
        for pat in pats:
            a = np.zeros(2 * N, dtype='uint8')
            b = np.zeros(2 * N, dtype='uint8')
            for vec, p in ((a, pat[0]), (b, pat[1])):
                if p in 'XY':
                    vec[:w] = 1
                if p in 'ZY':
                    vec[N:N + w] = 1
            # reference: each overlapping qubit contributes symp of the two single-qubit Paulis
            single = gf2.symp(gf2.pauli_string_to_int(pat[0]), gf2.pauli_string_to_int(pat[1]), 1)
            want = (w * single) % 2
            for ma, mb in mixes:
                def conv(v, m):
                    if m == 'csr':
                        return csr_matrix(v.reshape(1, -1))
                    if m == 'list':
                        return [int(t) for t in v]
                    return v.astype(m)
                try:
                    got = _vals(bs_prod(conv(a, ma), conv(b, mb)))
                    ok = got == [float(want)]
                except Exception as exc:
                    ok, got = False, 'raises %s' % type(exc).__name__
                res['evals'] += 1
                if not ok:
                    nbad += 1
                    if len(res['violations']) < 3:
                        res['violations'].append({
                            'key': {'part': 'overlap', 'kind': 'product-wrong-at-overlap', 'N': N, 'pattern': pat,
                                    'rep_a': ma, 'rep_b': mb},
                            'detail': {'overlap': w, 'expected': want, 'got': str(got)}})
        # weights at this overlap: Y^w has weight w
        y = np.zeros(2 * N, dtype='uint8')
        y[:w] = 1
        y[N:N + w] = 1
        if bsf_wt(y) != w or (w and bsf_wt(csr_matrix(y.reshape(1, -1))) != w):
            nbad += 1
            if len(res['violations']) < 4:
                res['violations'].append({'key': {'part': 'overlap', 'kind': 'bsf_wt-wrong', 'N': N},
                                          'detail': {'weight': w, 'dense': int(bsf_wt(y))}})
    res['nontrivial'] = N * len(pats) * len(mixes)
    res['extra']['overlap_failures'] = nbad
    res['outcomes'] = ['overlap|%d|%d' % (N, nbad)]
    res['samples'].append({'N': N, 'overlap_weights': '0..%d' % N, 'patterns': list(pats)})
    return res


def eval_syndrome(cfg):
    res = {'evals': 0, 'nontrivial': 0, 'violations': [], 'outcomes': [], 'samples': [], 'extra': {}}
    try:
        code = F.build(cfg)
        n = code.n
        H = gf2.matrix_rows(code.stabilizer_matrix)
    except Exception:
        res['skipped'] = 1
        res['evals'] = 1
        return res
    m = len(H)
    nbad = 0
    seen = set()
    for e in range(4 ** n):
        vec = np.array(gf2.int_to_vec(e, 2 * n), dtype='uint8')
        s = code.measure_syndrome(vec)
        want = gf2.syndrome(H, e, n)
        res['evals'] += 1
        ok = np.asarray(s).shape == (m,) and gf2.vec_to_int(np.asarray(s) % 2) == want \
            and set(np.unique(np.asarray(s)).tolist()) <= {0, 1}
        seen.add(want)
        if not ok:
            nbad += 1
            if len(res['violations']) < 3:
                res['violations'].append({
                    'key': {'part': 'syndrome', 'kind': 'syndrome-differs-from-H-Omega-e', 'cls': cfg['cls'],
                            'size': cfg['size'], 'deformation': cfg['deformation'][0] if cfg['deformation'] else None},
                    'detail': {'error': gf2.int_to_pauli_string(e, n), 'expected': gf2.int_to_vec(want, m),
                               'got': np.asarray(s).tolist()}})
    # sparse error rows as sparse arithmetic leaves them (explicit zeros): sums of two basis errors, mod 2
    for i in range(2 * n):
        for j in range(i, 2 * n):
            a = csr_matrix(np.array([gf2.int_to_vec(1 << i, 2 * n)], dtype='uint8'))
            b = csr_matrix(np.array([gf2.int_to_vec((1 << i) | (1 << j), 2 * n)], dtype='uint8'))
            e = a + b
            e.data %= 2
            want = gf2.syndrome(H, (1 << j) if j != i else 0, n)
            res['evals'] += 1
            try:
                from panqec.bpauli import bs_prod
                s = np.asarray(bs_prod(code.stabilizer_matrix, e)).ravel()
                ok = gf2.vec_to_int(s % 2) == want and len(s) == m
            except Exception as exc:
                ok = False
            if not ok:
                nbad += 1
                if len(res['violations']) < 4:
                    res['violations'].append({
                        'key': {'part': 'syndrome', 'kind': 'syndrome-of-sparse-sum-not-linear', 'cls': cfg['cls'],
                                'size': cfg['size']}, 'detail': {'bits': [i, j]}})
    # other dtypes / list / int64 on the basis
    for i in range(2 * n):
        e = 1 << i
        for conv in (lambda v: v.astype('int64'), lambda v: v.astype('uint64'), lambda v: [int(t) for t in v],
                     lambda v: v.astype('int8')):
            vec = conv(np.array(gf2.int_to_vec(e, 2 * n), dtype='uint8'))
            s = np.asarray(code.measure_syndrome(vec))
            res['evals'] += 1
            if s.shape != (m,) or gf2.vec_to_int(s.astype(int) % 2) != gf2.syndrome(H, e, n):
                nbad += 1
                if len(res['violations']) < 4:
                    res['violations'].append({
                        'key': {'part': 'syndrome', 'kind': 'syndrome-depends-on-dtype', 'cls': cfg['cls'],
                                'size': cfg['size']}, 'detail': {'bit': i}})
    res['nontrivial'] = 4 ** n - 1
    res['extra']['syndrome_failures'] = nbad
    res['outcomes'] = ['syn|%s|%d|%d' % (cfg['cls'], n, len(seen))]
    res['samples'].append({'config': F.cfg_label(cfg), 'errors': 4 ** n, 'distinct_syndromes': len(seen)})
    return res


def eval_converters(case):
    from panqec import bpauli as bp
    res = {'evals': 0, 'nontrivial': 0, 'violations': [], 'outcomes': [], 'samples': [], 'extra': {}}
    V = res['violations']

    def bad(kind, **d):
        res['extra']['converter_failures'] = res['extra'].get('converter_failures', 0) + 1
        if len(V) < 5 and not any(v['key']['kind'] == kind for v in V):
            V.append({'key': {'part': 'converters', 'kind': kind}, 'detail': d})
    for n in range(1, case['n_max'] + 1):
        strings = [''.join(p) for p in itertools.product('IXYZ', repeat=n)]
        for s in strings:
            v = gf2.pauli_string_to_int(s)
            bits = gf2.int_to_vec(v, 2 * n)
            res['evals'] += 1
            try:
                a = bp.pauli_to_bsf(s)
                if [int(t) for t in a] != bits:
                    bad('pauli_to_bsf', s=s)
                b = bp.pauli_string_to_bvector(s)
                if [int(t) for t in b] != bits:
                    bad('pauli_string_to_bvector', s=s)
                if bp.bvector_to_pauli_string(np.array(bits, dtype=np.uint)) != s:
                    bad('bvector_to_pauli_string', s=s)
                if bp.bvector_to_pauli_string(a) != s or bp.bvector_to_pauli_string(b) != s:
                    bad('string->bsf->string not identity', s=s)
                arr = np.array(bits, dtype='uint8')
                if bp.bsf_to_pauli(arr) != s:
                    bad('bsf_to_pauli dense 1-D', s=s)
                # the integer dtypes the library's own converters produce (np.uint from
                # pauli_string_to_bvector / to_bsf) and other integer widths
                for dt in ('uint16', 'int32', 'int64', 'uint64'):
                    wide = np.array(bits, dtype=dt)
                    if bp.bsf_to_pauli(wide) != s or bp.bsf_to_pauli(wide.reshape(1, -1)) != [s]:
                        bad('bsf_to_pauli depends on integer dtype', s=s, dtype=dt)
                    if bp.bsf_wt(wide) != sum(ch != 'I' for ch in s):
                        bad('bsf_wt depends on integer dtype', s=s, dtype=dt)
                if bp.bsf_to_pauli(np.asarray(b)) != s:
                    bad('bsf_to_pauli(pauli_string_to_bvector(s)) != s', s=s)
                # sparse rows as sparse arithmetic / insert_mod2 leave them: unsorted indices
                nzc = [t for t in range(2 * n) if bits[t]]
                if nzc:
                    rrev = csr_matrix((np.ones(len(nzc), dtype='uint8'), np.array(nzc[::-1]), np.array([0, len(nzc)])),
                                      shape=(1, 2 * n))
                    if bp.bsf_wt(rrev) != sum(ch != 'I' for ch in s):
                        bad('bsf_wt sparse with unsorted indices', s=s)
                    if bp.bsf_to_pauli(rrev) != [s]:
                        bad('bsf_to_pauli sparse with unsorted indices', s=s)
                if bp.bsf_to_pauli(arr.reshape(1, -1)) != [s]:
                    bad('bsf_to_pauli dense 2-D', s=s)
                if bp.bsf_to_pauli(csr_matrix(arr.reshape(1, -1))) != [s]:
                    bad('bsf_to_pauli sparse', s=s)
                w = sum(ch != 'I' for ch in s)
                if bp.bsf_wt(arr) != w:
                    bad('bsf_wt dense', s=s, got=int(bp.bsf_wt(arr)))
                if w and bp.bsf_wt(csr_matrix(arr.reshape(1, -1))) != w:
                    bad('bsf_wt sparse', s=s)
                i = bp.bvector_to_int(np.array(bits, dtype=np.uint))
                if i != int(''.join(map(str, bits)), 2):
                    bad('bvector_to_int', s=s)
                back = bp.int_to_bvector(i, n)
                if [int(t) for t in back] != bits:
                    bad('int_to_bvector(bvector_to_int(v))!=v', s=s)
            except Exception as exc:
                bad('converter-raises', s=s, exc=type(exc).__name__, msg=str(exc)[:100])
        # integers: bijection on 0..4^n-1 and list forms
        try:
            for i in range(4 ** n):
                if bp.bvector_to_int(bp.int_to_bvector(i, n)) != i:
                    bad('bvector_to_int(int_to_bvector(i))!=i', i=i, n=n)
                    break
            ints = list(range(4 ** n))
            if bp.bvectors_to_ints(bp.ints_to_bvectors(ints, n)) != ints:
                bad('bvectors_to_ints/ints_to_bvectors', n=n)
            # 2-D weight = total weight; 2-D pauli list
            M = np.array([gf2.int_to_vec(gf2.pauli_string_to_int(s), 2 * n) for s in strings], dtype='uint8')
            if bp.bsf_wt(M) != sum(sum(ch != 'I' for ch in s) for s in strings):
                bad('bsf_wt 2-D', n=n)
            if bp.bsf_to_pauli(M) != strings:
                bad('bsf_to_pauli 2-D stack', n=n)
            if bp.bsf_to_pauli(csr_matrix(M)) != strings:
                bad('bsf_to_pauli sparse stack', n=n)
        except Exception as exc:
            bad('converter-raises', n=n, exc=type(exc).__name__, msg=str(exc)[:100])
        res['nontrivial'] += 4 ** n - 1
    res['outcomes'] = ['conv|%d' % res['extra'].get('converter_failures', 0)]
    res['samples'].append({'strings': ['IXYZ', 'YYII'], 'n_max': case['n_max']})
    return res


def eval_inplace(case):
    """A sparse operand that is updated in place by the library's own row operation
    (bsparse.insert_mod2) between two products: the second product must be the symplectic form of
    the row as it is NOW (the product is a function of its arguments, not of earlier calls)."""
    from panqec import bsparse
    from panqec.bpauli import bs_prod
    n = case['n']
    N = 4 ** n
    res = {'evals': 0, 'nontrivial': 0, 'violations': [], 'outcomes': [], 'samples': [], 'extra': {}}
    nbad = 0
    for a in range(N):
        for idx in range(2 * n):
            for b in range(N):
                row = csr_matrix(np.array([gf2.int_to_vec(a, 2 * n)], dtype='uint8'))
                other = rep(b, n, 'uint8/1d')
                first = _vals(bs_prod(row, other))
                bsparse.insert_mod2(idx, row)
                a2 = a ^ (1 << idx)
                for X, Y, want in ((row, other, gf2.symp(a2, b, n)), (other, row, gf2.symp(b, a2, n)),
                                   (row, row, 0)):
                    got = _vals(bs_prod(X, Y))
                    res['evals'] += 1
                    if got != [float(want)] or first != [float(gf2.symp(a, b, n))]:
                        nbad += 1
                        if len(res['violations']) < 3:
                            res['violations'].append({
                                'key': {'part': 'inplace', 'kind': 'product-after-in-place-row-update-wrong', 'n': n},
                                'detail': {'row_before': gf2.int_to_pauli_string(a, n), 'toggled_bit': idx,
                                           'other': gf2.int_to_pauli_string(b, n), 'expected': want,
                                           'got': str(got)}})
    res['nontrivial'] = res['evals']
    res['extra']['inplace_failures'] = nbad
    res['outcomes'] = ['inplace|%d|%d' % (n, nbad)]
    res['samples'].append({'row': 'XZ', 'toggled_bit': 0, 'other': 'ZZ'})
    return res


def eval_wide(case):
    """Converters on operators with many qubits.  Family: a single X, Z and Y at every position, all-X,
    all-Z, all-Y, the two alternating patterns, first+last qubit - as single vectors and as one stack."""
    from panqec import bpauli as bp
    n = case['n']
    res = {'evals': 0, 'nontrivial': 0, 'violations': [], 'outcomes': [], 'samples': [], 'extra': {}}
    counts = {}

    def bad(kind, **d):
        counts[kind] = counts.get(kind, 0) + 1
        if counts[kind] == 1 and len(res['violations']) < 6:
            res['violations'].append({'key': {'part': 'wide', 'kind': kind, 'n': n}, 'detail': d})

    pos = sorted(set(range(n)) if n <= 70 else set(range(0, 34)) | set(range(n - 34, n)) | {n // 2, 63, 64, 127, 128} & set(range(n)))
    strs = ['I' * i + p + 'I' * (n - i - 1) for i in pos for p in 'XZY']
    strs += [p * n for p in 'XZY'] + [''.join('XZ'[(i + s) % 2] for i in range(n)) for s in range(2)]
    strs += ['Y' + 'I' * (n - 2) + 'Y'] if n >= 2 else []
    vals = [gf2.pauli_string_to_int(s_) for s_ in strs]
    allbits = [gf2.int_to_vec(v, 2 * n) for v in vals]
    want_ints = [int(''.join(map(str, bits)), 2) for bits in allbits]
    try:
        for s_, bits, wi in zip(strs, allbits, want_ints):
            res['evals'] += 1
            w = sum(ch != 'I' for ch in s_)
            if [int(t) for t in bp.pauli_to_bsf(s_)] != bits:
                bad('pauli_to_bsf', s=s_[:80])
            for dt in ('uint8', 'int64', 'uint64'):
                arr = np.array(bits, dtype=dt)
                if bp.bsf_to_pauli(arr) != s_:
                    bad('bsf_to_pauli', s=s_[:80], dtype=dt)
                if bp.bsf_wt(arr) != w:
                    bad('bsf_wt', s=s_[:80], dtype=dt, got=int(bp.bsf_wt(arr)), expected=w)
                got = bp.bvector_to_int(arr)
                if got != wi:
                    bad('bvector_to_int', s=s_[:80], dtype=dt)
            if bp.bsf_to_pauli(csr_matrix(np.array([bits], dtype='uint8'))) != [s_]:
                bad('bsf_to_pauli sparse', s=s_[:80])
            if w and bp.bsf_wt(csr_matrix(np.array([bits], dtype='uint8'))) != w:
                bad('bsf_wt sparse', s=s_[:80])
            if [int(t) for t in bp.int_to_bvector(wi, n)] != bits:
                bad('int_to_bvector', s=s_[:80])
        # stacks: list of arrays, list of lists, 2-D arrays of several dtypes
        stacks = [('list-of-uint-arrays', [np.array(bits, dtype=np.uint) for bits in allbits]),
                  ('list-of-lists', [list(bits) for bits in allbits])]
        for dt in ('uint8', 'int64', 'uint64'):
            stacks.append(('2d-' + dt, np.array(allbits, dtype=dt)))
        for name, st in stacks:
            res['evals'] += 1
            got = [int(t) for t in bp.bvectors_to_ints(st)]
            if got != want_ints:
                k = [i for i, (g_, w_) in enumerate(zip(got, want_ints)) if g_ != w_]
                bad('bvectors_to_ints-differs-from-bvector_to_int', stack=name, first_operator=strs[k[0]][:80] if k else '?',
                    wrong=len(k), operators=len(want_ints))
            back = bp.ints_to_bvectors(got, n)
            if [[int(t) for t in r] for r in back] != allbits and got == want_ints:
                bad('ints_to_bvectors-of-bvectors_to_ints-not-identity', stack=name)
        M = np.array(allbits, dtype='uint8')
        if bp.bsf_to_pauli(M) != strs or bp.bsf_to_pauli(csr_matrix(M)) != strs:
            bad('bsf_to_pauli stack')
        if bp.bsf_wt(M) != sum(sum(ch != 'I' for ch in s_) for s_ in strs):
            bad('bsf_wt stack')
    except Exception as exc:
        bad('converter-raises', exc=type(exc).__name__, msg=str(exc)[:150])
    res['nontrivial'] = res['evals']
    res['extra'].update({'wide_' + k.replace(' ', '_').replace('-', '_'): v for k, v in counts.items()})
    res['outcomes'] = ['wide|%d|%s' % (n, ','.join(sorted(counts)) or 'ok')]
    res['samples'].append({'n': n, 'operators': len(strs)})
    return res


def eval_bsparse(case):
    """The sparse-row helpers (panqec.bsparse) the sparse representation is handled with: splitting a row
    into its X and Z halves, joining the halves, stacking, row dot product, membership and equality - on
    every BSF row with n qubits, stored canonically and with unsorted indices, alone and inside a stack."""
    from panqec import bsparse
    n = case['n']
    N = 4 ** n
    res = {'evals': 0, 'nontrivial': 0, 'violations': [], 'outcomes': [], 'samples': [], 'extra': {}}
    counts = {}

    def bad(kind, **detail):
        counts[kind] = counts.get(kind, 0) + 1
        if counts[kind] == 1 and len(res['violations']) < 6:
            res['violations'].append({'key': {'part': 'bsparse', 'kind': kind, 'n': n}, 'detail': detail})

    def dense(m):
        return np.asarray(bsparse.to_array(m)).astype(int).tolist()

    for a in range(N):
        bits = gf2.int_to_vec(a, 2 * n)
        for kind in ('csr', 'csr/unsorted'):
            row = rep(a, n, kind)
            res['evals'] += 1
            x, z = bsparse.hsplit(row)
            if x.shape != (1, n) or z.shape != (1, n) or dense(x) != [bits[:n]] or dense(z) != [bits[n:]]:
                bad('hsplit-of-a-row-is-not-its-X-and-Z-halves', row=gf2.int_to_pauli_string(a, n), stored=kind,
                    x_half=dense(x), z_half=dense(z), expected=[bits[:n], bits[n:]])
            if dense(bsparse.hstack([x, z])) != [bits]:
                bad('hstack-of-hsplit-is-not-the-row', row=gf2.int_to_pauli_string(a, n), stored=kind)
            if dense(bsparse.from_array(bits)) != [bits] or dense(bsparse.from_array(np.array([bits]))) != [bits]:
                bad('from_array-to_array-round-trip', row=bits)
            for idx in range(2 * n):
                if bool(bsparse.is_one(idx, row)) != bool(bits[idx]):
                    bad('is_one-wrong', row=gf2.int_to_pauli_string(a, n), stored=kind, index=idx)
            # the same row inside a stack must split into the same halves
            for b in (0, N - 1, (a * 7 + 3) % N):
                st = bsparse.vstack([row, rep(b, n, 'csr')])
                sx, sz = bsparse.hsplit(st)
                bb = gf2.int_to_vec(b, 2 * n)
                res['evals'] += 1
                if dense(st) != [bits, bb]:
                    bad('vstack-wrong', rows=[bits, bb])
                elif dense(sx) != [bits[:n], bb[:n]] or dense(sz) != [bits[n:], bb[n:]]:
                    bad('hsplit-of-a-stack-is-not-its-X-and-Z-halves', rows=[bits, bb])
                elif dense(sx)[0] != dense(x)[0] or dense(sz)[0] != dense(z)[0]:
                    bad('row-splits-differently-alone-and-inside-a-stack', row=gf2.int_to_pauli_string(a, n))
        if n <= 2:
            for b in range(N):
                bb = gf2.int_to_vec(b, 2 * n)
                want = sum(p & q for p, q in zip(bits, bb)) % 2
                res['evals'] += 1
                for A, B in ((rep(a, n, 'csr'), rep(b, n, 'csr')), (rep(a, n, 'csr/unsorted'), np.array([bb], dtype='uint8')),
                             (np.array([bits], dtype='uint8'), rep(b, n, 'csr'))):
                    if bsparse.dot(A, B) != want:
                        bad('row-dot-product-wrong', a=bits, b=bb, expected=want)
                if bool(bsparse.equal(rep(a, n, 'csr'), rep(b, n, 'csr/unsorted'))) != (a == b):
                    bad('equal-wrong', a=bits, b=bb)
    z = bsparse.zero_row(2 * n)
    if z.shape != (1, 2 * n) or z.nnz != 0 or not bsparse.equal(z, 0) or not bsparse.is_sparse(z):
        bad('zero_row-wrong')
    zm = bsparse.zero_matrix((3, 2 * n))
    if zm.shape != (3, 2 * n) or zm.nnz != 0:
        bad('zero_matrix-wrong')
    if not bsparse.is_empty(bsparse.empty_row(2 * n)) or bsparse.is_empty(z):
        bad('is_empty-wrong')
    res['nontrivial'] = res['evals']
    res['extra'].update({'bsparse_' + k.replace('-', '_'): v for k, v in counts.items()})
    res['outcomes'] = ['bsparse|%d|%s' % (n, ','.join(sorted(counts)) or 'ok')]
    res['samples'].append({'row': 'ZI' if n == 2 else 'Z' * n, 'stored': 'csr', 'helpers': ['hsplit', 'hstack', 'vstack', 'dot',
                                                                                       'is_one', 'equal']})
    return res


def eval_rank(case):
    from panqec.bpauli import brank
    res = {'evals': 0, 'nontrivial': 0, 'violations': [], 'outcomes': [], 'samples': [], 'extra': {}}
    nbad = 0
    seen = set()
    for width, nrows in ((4, 2), (4, 3), (3, 3), (2, 3), (6, 2)):
        for rows in itertools.product(range(2 ** width), repeat=nrows):
            M = np.array([gf2.int_to_vec(r, width) for r in rows], dtype='uint8')
            want = gf2.rank(list(rows))
            res['evals'] += 1
            seen.add((width, nrows, want))
            for X in (M, csr_matrix(M)):
                if brank(X) != want:
                    nbad += 1
                    if len(res['violations']) < 2:
                        res['violations'].append({'key': {'part': 'rank', 'kind': 'brank-differs'},
                                                  'detail': {'rows': M.tolist(), 'expected': want, 'got': int(brank(X))}})
    res['nontrivial'] = res['evals']
    res['outcomes'] = ['rank|%s' % (sorted(seen),)][:1]
    res['extra']['rank_failures'] = nbad
    res['samples'].append({'matrix': [[1, 1, 0, 0], [0, 1, 1, 0]], 'rank': 2})
    return res


def eval_case(case):
    return {'pairs': eval_pairs, 'stacks': eval_stacks, 'overlap': eval_overlap, 'syndrome': eval_syndrome,
            'converters': eval_converters, 'rank': eval_rank, 'inplace': eval_inplace, 'bsparse': eval_bsparse, 'wide': eval_wide}[case['part']](case)
