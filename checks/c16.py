"""C16  Threshold estimation recovers a planted finite-size-scaling threshold.

Alphabet: planted (p_th, nu, A, B, C) on a finite lattice of the well-conditioned
box x {distance set} x {number of error rates} x {file order, row order}.
For every planting, result files in the REAL results format are produced: a real
one-trial BatchSimulation (real code objects whose code.d are the planted
distances, real decoder, real save path) writes one file per distance, then the
per-trial arrays of every record are replaced consistently by N trials with
n_fail = round(f N), f = A + B x + C x^2, x = (p - p_th) d^nu evaluated by the
check's own arithmetic (the ansatz exactly as documented in the property
statement and in fit_function / rescale_prob).  The real
`Analysis(files).thresholds` is then executed for every file/row order.
Oracle (no panqec code): the planted numbers themselves.
"""
import contextlib
import hashlib
import io
import itertools
import json
import math
import os
import shutil
import tempfile

import numpy as np

# heavy imports once in the parent; the forked workers inherit them
import panqec.analysis  # noqa: F401,E402
import panqec.simulation  # noqa: F401,E402
import panqec.decoders  # noqa: F401,E402

PROPERTY = 'C16'
LEVEL = 'exploration'
DESIGN_REF = 'DESIGN.md §4 C16'
TECHNIQUE = ('complete enumeration of a finite lattice of planted finite-size-scaling parameters x distance sets '
             'x rate counts x file/row orders; every planting is written in the real results format and analysed '
             'by the real Analysis/threshold code; recovered numbers compared with the planted ones')
LEVEL_TEXT = ('Exploration, and the weakest fit to the technique among the 20 properties: the property quantifies '
              'over a CONTINUOUS box of (p_th, nu, A, B, C); only a finite lattice of that box is enumerated '
              '(completely, in every listed order) and the comparison uses numerical tolerances. What the run '
              'establishes is that on every lattice point the real fit recovers the planted threshold, reports a '
              'consistent interval and status, and is invariant under every enumerated file/row order; nothing is '
              'claimed between lattice points.')
LEVEL_NOTE = ('Trusted: the check\'s own evaluation of the documented ansatz; the real one-trial simulation used only '
              'as a file-format template (keys, code n/k/d, parameter dicts); scipy curve_fit and numpy RNG as '
              'third-party components. Tolerances: planted rates are rounded to multiples of 1/N (|error| <= '
              '2.5e-4), the exploration run over the full lattice measured |fss_params[0]-p_th| <= 6.2e-5, '
              '|median-p_th| <= 5.9e-4, residual of the reported parameters on the documented ansatz <= 3.6e-4, so '
              'the bounds 2e-3 / 3e-3 / 1.5e-3 leave a factor >= 4. Not covered: parameters off the lattice, '
              'ill-conditioned data (fewer than 200 trials, threshold outside the window), autotruncate/override paths, '
              'the splitting method, 4-file orders beyond the 6 listed, 50% or more failed re-fits (the statement '
              'is silent there). Extra families '
              '(low-stat: N = 200/300/500 on a narrow window; off-centre: p_th at 1/4 or 3/4 of an 8-rate window): '
              'the clauses kept are exactly those of the property statement - status success, estimate within '
              'max(3e-3, CI half-width) of p_th, estimate inside its own interval, ESTIMATE (not the whole interval) '
              'inside the data range, order independence - with the 1/N rounding tolerances 4/N (parameter) and '
              '3/N (residual); measured on /repo over all 120 extra plantings: |fss_params[0]-p_th| <= 7e-4, '
              '|median-p_th| <= 1.9e-3 with half-widths 1.1e-3..4.2e-2. The clause "whole interval inside the data '
              'range" (DESIGN plan) is kept only for the well-sampled centred family, where it holds with margin; '
              'it is not demanded by the statement and is false on correct code for 43 of the 120 extra plantings. '
              'The status clause is waived (counted in the evidence) when an end of the reported interval is not '
              'a probability (left < 0): 2 plantings, p_th = 0.06, nu = 0.8, N = 300, p_th at 1/4, where '
              '"Invalid threshold value." is the documented answer to a bootstrap wider than p_th itself.')
RULE = ('one case = one planting (p_th, nu, A, B, C, distance set, number of rates) of the lattice, kept only if '
        '0 < f < 1 on the whole data window; each is analysed once per listed (file permutation, row shuffle). A '
        'planting is non-trivial when the planted curves of the smallest and the largest distance really cross '
        'inside the window (their difference changes sign between the window ends) and every distance has at '
        'least 3 different failure counts; distinct = distinct digest of the planted (d, p, n_fail) table. Two '
        'further families are enumerated the same way (3 orders each): low-stat (p_th in {0.05, 0.1}, nu in '
        '{0.7, 1}, two (A, B, C), distances {3,5,7} / {4,6,8}, N in {200, 300, 500}, 7 rates on p_th (1 +- 0.15)) '
        'and off-centre (p_th in {0.06, 0.1, 0.15}, nu in {0.8, 1, 1.25}, N in {300, 2000}, 8 rates with step '
        '0.04 p_th and p_th at 1/4 or 3/4 of the window). Family multi-set: ONE Analysis holds two planted data '
        'sets that differ in exactly one identifying field (decoder parameters, noise direction, decoder class, '
        'code family), each with its own planted threshold, in own or shared rate windows; every planted set must '
        'be its own row of the thresholds table and satisfy every clause with its own p_th (rows are assigned to '
        'sets by nearest threshold, the data points of a row are taken from trunc_results by the row\'s own '
        'identifying columns and must be exactly the planted table of that set); files of the two sets are '
        'permuted and interleaved. Family refit-failures: the environment answer of scipy.optimize.curve_fit as '
        'seen from panqec.analysis is scripted so that chosen bootstrap re-fits (1, 2, 49 of 100, in different '
        'positions) end with the RuntimeError scipy raises at maxfev; fewer than half fail, so every clause must '
        'still hold with a finite threshold. Family sectors: the X-block and Z-block failure rates of one data '
        'set are planted with different thresholds (codes with k = 1 and k = 2) and Analysis.sector_thresholds '
        'must recover each sector\'s own threshold. Family chunks: the trials of every (distance, rate) point are '
        'spread over 1..4 result files (number varying with distance and rate, unequal chunk sizes 3:1:4:2, later '
        'chunks without failures), files supplied in orders that change which chunk of a point is read first')
ASSUMPTIONS = [
    'documented ansatz f = A + B x + C x^2 with x = (p - p_th) d^nu (property statement; fit_function, rescale_prob)',
    'N trials per point (2000; unequal 4000..1000 per distance; 200/300/500 in the low-statistics families), '
    'n_fail = round(f N): data lie on the ansatz up to 1/(2N)',
    'Toric2DCode(L, L).d == L (asserted on the real object while writing the template)',
    'a record of the results file is a "row"; the per-distance files are the "files" of the property',
    'data sets whose (code family, noise model + parameters, decoder class + parameters) differ are separate '
    'parameter sets with separate thresholds (Analysis docs: thresholds for each (code, error_model, decoder))',
    'failed bootstrap re-fits are dropped when they are fewer than half (fit_fss_params: "If less than 50% of rows '
    'has nan, then remove the NaN rows"); a re-fit fails by scipy curve_fit raising RuntimeError (scripted)',
    'Analysis.sector_thresholds[X/Z] are reported thresholds in the sense of the statement: sector rate = ones in '
    'the first / last k columns of the effective error over k x (trials in the codespace), fitted on the same ansatz',
]
_GRID = {'p_th': [0.03, 0.06, 0.1, 0.15], 'nu': [0.8, 1.0, 1.25], 'A': [0.25, 0.35], 'B': [0.8, 1.5],
         'C': [0.5, 1.0]}
# half-width of the data window around p_th (rates must stay > 0 for p_th = 0.03)
_HALF = {0.03: 0.02, 0.06: 0.03, 0.1: 0.03, 0.15: 0.03}
_DSETS = [[3, 5, 7], [4, 6, 8, 10]]
_NRATES = [7, 9]
BOUNDS = {
    'quick': {'grid': _GRID, 'window_half_width': {str(k): v for k, v in _HALF.items()}, 'distance_sets': _DSETS,
              'n_rates': _NRATES, 'n_trials': 2000, 'code': 'Toric2DCode LxL',
              'plantings': 'one per (p_th, distance set, n_rates) = 16, (nu, A, B, C) cycled through the lattice',
              'orders_per_planting': 3,
              'extra_families': '3 low-stat + 3 off-centre plantings (see RULE), 3 orders each',
              'multi_set': '4 cases (one per varied identifying field), 2 planted sets each, distances 3,5,7, '
                           '3 orders',
              'refit_failures': '3 scripted failure patterns (1, 2, 49 of 100 re-fits), one planting each, 3 orders',
              'sectors': '2 cases (Planar2D k=1 d=3,5,7; Toric2D k=2 d=4,6,8), X and Z thresholds planted, '
                         '3 orders',
              'chunks': '2 plantings, 12 / 16 result files, 3 orders'},
    'thorough': {'grid': _GRID, 'window_half_width': {str(k): v for k, v in _HALF.items()},
                 'distance_sets': _DSETS, 'n_rates': _NRATES, 'n_trials': 2000, 'code': 'Toric2DCode LxL',
                 'plantings': 'full lattice filtered to 0 < f < 1, equal and unequal trial counts',
                 'orders_per_planting': 6,
                 'extra_families': '48 low-stat + 72 off-centre plantings (see RULE), 3 orders each',
                 'multi_set': '4 varied fields x 4 planting pairs x 2 distance sets filtered to 0 < f < 1 = 28 '
                              'cases, 2 planted sets each, 6 orders',
                 'refit_failures': '5 scripted failure patterns x 4 plantings = 20 cases, 3 orders',
                 'sectors': '4 (code, distance set) x 3 (X, Z) planting pairs = 12 cases, 3 orders',
                 'chunks': '6 plantings, 12 / 16 result files, 6 orders'},
}
BUDGET_S = {'quick': 600, 'thorough': 3600}

N_TRIALS = 2000
TOL_PARAM = 2e-3       # fitted fss_params[0] vs planted p_th
TOL_REPORT = 3e-3      # reported median vs planted p_th (or CI half-width if larger)
TOL_RESID = 1.5e-3     # reported fss_params on the documented ansatz vs planted rates
TOL_X = 1e-9           # reported rescaled_p vs documented x at the reported parameters
TOL_ORDER = 1e-12      # equality across orders


# ---------------------------------------------------------------- reference arithmetic (no panqec)
def _rates(p_th, half, n):
    return [round(p_th - half + 2 * half * i / (n - 1), 6) for i in range(n)]


def _ansatz(p, d, p_th, nu, A, B, C):
    x = (p - p_th) * d ** nu
    return A + B * x + C * x * x


def _n_fail(f, N=N_TRIALS):
    return int(math.floor(f * N + 0.5))


def _file_orders(k):
    """6 file orders.  k = 3: all permutations.  k = 4: the 4 rotations, the reversal and one pair swap
    (every file takes every position)."""
    if k == 3:
        return [[0, 1, 2], [2, 1, 0], [1, 2, 0], [0, 2, 1], [1, 0, 2], [2, 0, 1]]
    if k == 4:
        return [[0, 1, 2, 3], [3, 2, 1, 0], [1, 2, 3, 0], [2, 3, 0, 1], [3, 0, 1, 2], [1, 0, 3, 2]]
    # k result files of several planted sets: identity, reversal, sets interleaved, halves swapped, a rotation,
    # neighbours swapped (every file moves; files of different sets alternate in the third)
    base = list(range(k))
    swapped = [j for i in range(0, k - 1, 2) for j in (i + 1, i)] + ([k - 1] if k % 2 else [])
    return [base, base[::-1], base[::2] + base[1::2], base[k // 2:] + base[:k // 2], base[1:] + base[:1], swapped]


def _row_order(shuffle, n):
    if shuffle == 0 or n < 3:
        return list(range(n))
    if shuffle == 1:
        return list(range(n))[::-1]
    # an interleave: multiplier coprime with n (7, 9 -> 4; 8 -> 3; 6 -> 5; ...)
    m = next(m for m in [4, 3] + list(range(5, n + 2)) if math.gcd(m, n) == 1)
    order = [(m * i) % n for i in range(n)]
    if sorted(order) != list(range(n)):
        raise AssertionError('row shuffle is not a permutation for n=%d' % n)
    return order


_CHUNK_WEIGHTS = [3, 1, 4, 2]


def _chunk_count(di, ri):
    """Number of result files the trials of the point (distance index, rate index) are spread over: 1..4,
    varying with both the distance and the rate."""
    return 1 + (2 * di + ri) % 4


def _chunk_files(nd, nr):
    return sum(max(_chunk_count(di, ri) for ri in range(nr)) for di in range(nd))


def _split(rec, c):
    """Split one planted record into c records of unequal trial counts (weights 3:1:4:2) holding consecutive slices
    of the per-trial arrays - the form in which several runs of the same input (run-parallel tasks, restarts into
    other files) leave one (code, error rate) point in several result files.  Failures sit at the start of the
    trial arrays, so the first chunk is (nearly) all failures and later chunks have none."""
    r = rec['results']
    n = r['n_runs']
    w = _CHUNK_WEIGHTS[:c]
    sizes = [n * x // sum(w) for x in w]
    sizes[-1] += n - sum(sizes)
    out, a = [], 0
    for size in sizes:
        b = a + size
        out.append({'inputs': json.loads(json.dumps(rec['inputs'])),
                    'results': {'n_runs': size, 'wall_time': r['wall_time'] * size / n,
                                'effective_error': r['effective_error'][a:b], 'success': r['success'][a:b],
                                'codespace': r['codespace'][a:b]}})
        a = b
    if a != n or set(rec) != {'inputs', 'results'}:
        raise AssertionError('bad split')
    return out


def _lattice():
    out = []
    for ds in _DSETS:
        for nr in _NRATES:
            for p_th, nu, A, B, C in itertools.product(_GRID['p_th'], _GRID['nu'], _GRID['A'], _GRID['B'],
                                                       _GRID['C']):
                half = _HALF[p_th]
                fs = [_ansatz(p, d, p_th, nu, A, B, C) for p in _rates(p_th, half, nr) for d in ds]
                if min(fs) > 0 and max(fs) < 1:
                    out.append({'p_th': p_th, 'nu': nu, 'A': A, 'B': B, 'C': C, 'ds': list(ds), 'nrates': nr,
                                'half': half, 'cls': 'Toric2DCode', 'n_trials': N_TRIALS})
    return out


_ABC_LOW = [[0.2, 1.5, 0.5], [0.3, 1.0, 1.0]]


def _extra_lattice():
    """Two further planting families (data still exactly on the ansatz up to n_fail = round(f N)):
    'low-stat'   : few trials per point (N = 200, 300, 500) on a narrow centred window p_th (1 +- 0.15), 7 rates:
                   the bootstrap distribution of the fitted threshold is wide and heavy-tailed;
    'off-centre' : 8 equally spaced rates (step 0.04 p_th) with p_th at 1/4 or 3/4 of the window, N = 300 (interval
                   wider than the distance of p_th to the near window end) and N = 2000 (narrow interval)."""
    out = []
    for ds in ([3, 5, 7], [4, 6, 8]):
        for p_th, nu, abc, n in itertools.product([0.05, 0.1], [0.7, 1.0], _ABC_LOW, [200, 300, 500]):
            rates = [round(p_th * (0.85 + 0.05 * i), 6) for i in range(7)]
            out.append({'family': 'low-stat', 'p_th': p_th, 'nu': nu, 'A': abc[0], 'B': abc[1], 'C': abc[2],
                        'ds': list(ds), 'nrates': 7, 'rates': rates, 'n_by_d': [n] * len(ds), 'n_trials': n,
                        'window': 'centred'})
    for ds in ([4, 6, 8], [3, 5, 7]):
        for p_th, nu, n, q in itertools.product([0.06, 0.1, 0.15], [0.8, 1.0, 1.25], [300, 2000], [0.25, 0.75]):
            step = 0.04 * p_th
            rates = [round(p_th - q * 7 * step + i * step, 6) for i in range(8)]
            out.append({'family': 'off-centre', 'p_th': p_th, 'nu': nu, 'A': 0.3, 'B': 1.0, 'C': 1.0,
                        'ds': list(ds), 'nrates': 8, 'rates': rates, 'n_by_d': [n] * len(ds), 'n_trials': n,
                        'window': 'p_th at %g' % q})
    keep = []
    for c in out:
        fs = [_ansatz(p, d, c['p_th'], c['nu'], c['A'], c['B'], c['C']) for p in c['rates'] for d in c['ds']]
        if min(fs) > 0 and max(fs) < 1:
            n = c['n_trials']
            c.update({'cls': 'Toric2DCode', 'half': None, 'trial_counts': 'equal',
                      # rounding n_fail = round(f N) moves every rate by up to 1/(2N): tolerances scale with 1/N
                      'tol': {'param': max(TOL_PARAM, 4.0 / n), 'resid': max(TOL_RESID, 3.0 / n)},
                      # the property puts the THRESHOLD (not the whole interval) inside the data range
                      'interval_in_range': False})
            keep.append(c)
    return keep


# identifying fields of a (code family, noise, decoder) parameter set; two values per field, everything else equal
_VARIED = {
    'decoder_params': [{'decoder': ['BeliefPropagationOSDDecoder', {'max_bp_iter': 10, 'osd_order': 0}]},
                       {'decoder': ['BeliefPropagationOSDDecoder', {'max_bp_iter': 1000, 'osd_order': 0}]}],
    'noise_direction': [{'direction': [1 / 3, 1 / 3, 1 / 3]}, {'direction': [0.05, 0.05, 0.9]}],
    'decoder_class': [{'decoder': ['MatchingDecoder', {}]},
                      {'decoder': ['BeliefPropagationOSDDecoder', {}]}],
    'code_family': [{'cls': 'Toric2DCode'}, {'cls': 'Planar2DCode'}],
}
# pairs of plantings (p_th, nu, A, B, C, centre of the rate window): own windows, and one shared window
_PAIRS = [
    [[0.06, 1.0, 0.25, 0.8, 0.5, 0.06], [0.1, 1.25, 0.35, 0.8, 0.5, 0.1]],
    [[0.1, 1.0, 0.35, 1.5, 1.0, 0.1], [0.09, 1.0, 0.25, 0.8, 1.0, 0.1]],      # same rates for both sets
    [[0.15, 0.8, 0.25, 0.8, 0.5, 0.15], [0.1, 0.8, 0.35, 1.5, 1.0, 0.1]],
    [[0.1, 1.25, 0.25, 0.8, 1.0, 0.1], [0.11, 0.8, 0.35, 0.8, 0.5, 0.1]],      # same rates for both sets
]


def _multi_lattice(tier):
    """Family 'multi-set': ONE Analysis holds two planted data sets that differ in exactly one identifying field
    (decoder parameters / noise direction / decoder class / code family), each with its own planted threshold.
    Every planted set must be reported as its own row with its own threshold (all clauses of the centred family)."""
    out = []
    dsets = [[3, 5, 7]] if tier == 'quick' else _DSETS
    for ds in dsets:
        for vi, (varied, values) in enumerate(sorted(_VARIED.items())):
            pairs = [_PAIRS[vi % len(_PAIRS)]] if tier == 'quick' else _PAIRS
            for pair in pairs:
                sets = []
                for (p_th, nu, A, B, C, centre), value in zip(pair, values):
                    sd = {'p_th': p_th, 'nu': nu, 'A': A, 'B': B, 'C': C, 'ds': list(ds), 'nrates': 7,
                          'rates': _rates(centre, 0.03, 7), 'half': None, 'cls': 'Toric2DCode',
                          'n_trials': N_TRIALS, 'window': 'centred' if centre == p_th else 'shared, centre %g' % centre}
                    sd.update(value)
                    fs = [_ansatz(p, d, p_th, nu, A, B, C) for p in sd['rates'] for d in ds]
                    if min(fs) > 0 and max(fs) < 1:          # same filter as the centred lattice
                        sets.append(sd)
                if len(sets) != len(values):
                    continue
                n_orders = 3 if tier == 'quick' else 6
                perms = _file_orders(len(sets) * len(ds))[:n_orders]
                out.append({'family': 'multi-set', 'varied': varied, 'sets': sets, 'ds': list(ds),
                            'orders': [[perm, j % 3] for j, perm in enumerate(perms)]})
    return out


# which bootstrap re-fits (1-based call number after the best fit, 100 re-fits) the environment lets fail
_REFIT_PATTERNS = {
    'first': [1],
    'last': [100],
    'two-adjacent': [37, 38],
    'alternate-49': list(range(1, 98, 2)),
    'leading-49': list(range(1, 50)),
}


def _refit_lattice(tier):
    """Family 'refit-failures': the environment (scipy.optimize.curve_fit as seen from panqec.analysis) is
    scripted so that chosen bootstrap re-fits end with scipy's RuntimeError (maxfev); fewer than half of the 100
    re-fits fail, so by the documented rule they are dropped and every clause of the statement still holds."""
    plantings = [[0.1, 1.0, 0.35, 0.8, 1.0, [3, 5, 7]], [0.06, 1.0, 0.35, 0.8, 0.5, [4, 6, 8, 10]],
                 [0.15, 0.8, 0.25, 1.5, 0.5, [3, 5, 7]], [0.1, 0.8, 0.35, 1.5, 1.0, [4, 6, 8, 10]]]
    names = ['first', 'two-adjacent', 'alternate-49'] if tier == 'quick' else sorted(_REFIT_PATTERNS)
    out = []
    for i, name in enumerate(names):
        for j, (p_th, nu, A, B, C, ds) in enumerate(plantings):
            if tier == 'quick' and j != i % len(plantings):
                continue
            fs = [_ansatz(p, d, p_th, nu, A, B, C) for p in _rates(p_th, _HALF[p_th], 7) for d in ds]
            if not (min(fs) > 0 and max(fs) < 1):
                raise AssertionError('refit-failures planting leaves (0,1)')
            perms = _file_orders(len(ds))[:3]
            out.append({'family': 'refit-failures', 'pattern': name, 'refit_failures': _REFIT_PATTERNS[name],
                        'p_th': p_th, 'nu': nu, 'A': A, 'B': B, 'C': C, 'ds': list(ds), 'nrates': 7,
                        'half': _HALF[p_th], 'cls': 'Toric2DCode', 'n_trials': N_TRIALS,
                        'orders': [[perm, k % 3] for k, perm in enumerate(perms)]})
    return out


def _sector_lattice(tier):
    """Family 'sectors': the X-block and the Z-block logical failure rates of one data set lie on the ansatz
    with DIFFERENT planted thresholds; Analysis.sector_thresholds['X'] / ['Z'] are threshold tables the analysis
    reports and each must recover its own planted threshold (the total rate is on no single ansatz: not judged)."""
    pairs = [{'X': [0.1, 1.0, 0.25, 0.8, 0.5], 'Z': [0.12, 1.0, 0.35, 0.8, 1.0]},
             {'X': [0.12, 0.8, 0.35, 1.5, 0.5], 'Z': [0.1, 1.25, 0.25, 0.8, 0.5]},
             {'X': [0.105, 1.25, 0.25, 0.8, 1.0], 'Z': [0.115, 0.8, 0.35, 0.8, 0.5]}]
    combos = [['Planar2DCode', [3, 5, 7]], ['Toric2DCode', [4, 6, 8]], ['Toric2DCode', [3, 5, 7]],
              ['Planar2DCode', [4, 6, 8]]]
    out = []
    for ci, (cls, ds) in enumerate(combos):
        for pi, sectors in enumerate(pairs):
            if tier == 'quick' and (ci > 1 or pi != ci):
                continue
            rates = _rates(0.11, 0.03, 9)
            fs = [_ansatz(p, d, *sectors[v]) for v in sectors for p in rates for d in ds]
            if not (min(fs) > 0 and max(fs) < 1):
                continue
            perms = _file_orders(len(ds))[:3]
            out.append({'family': 'sectors', 'sectors': sectors, 'cls': cls, 'ds': list(ds), 'nrates': 9,
                        'rates': rates, 'half': None, 'n_trials': N_TRIALS, 'window': 'shared, centre 0.11',
                        # placeholders of the single-set key fields; the targets carry the sector plantings
                        'p_th': 0.0, 'nu': 0.0, 'A': 0.0, 'B': 0.0, 'C': 0.0,
                        # p_th sits at 1/3 or 2/3 of the shared window: the statement puts the threshold, not the
                        # whole interval, inside the data range
                        'interval_in_range': False,
                        'orders': [[perm, k % 3] for k, perm in enumerate(perms)]})
    return out


def _chunk_lattice(tier):
    """Family 'chunks': the trials of every planted (distance, rate) point are spread over 1..4 result files, the
    number varying with distance and rate, with unequal chunk sizes and chunks without failures; the files are
    supplied in several orders (so that another chunk of a point is read first). All clauses of the single-file
    planting apply: the analysis must pool the chunks of a point."""
    plantings = [[0.1, 1.0, 0.35, 0.8, 1.0, [3, 5, 7], 7], [0.1, 0.8, 0.35, 1.5, 1.0, [4, 6, 8, 10], 9],
                 [0.06, 1.25, 0.25, 0.8, 0.5, [3, 5, 7], 9], [0.15, 1.0, 0.25, 0.8, 0.5, [4, 6, 8, 10], 7],
                 [0.15, 0.8, 0.25, 1.5, 0.5, [3, 5, 7], 7], [0.06, 1.0, 0.35, 0.8, 0.5, [4, 6, 8, 10], 9]]
    if tier == 'quick':
        plantings = plantings[:2]
    out = []
    for p_th, nu, A, B, C, ds, nr in plantings:
        fs = [_ansatz(p, d, p_th, nu, A, B, C) for p in _rates(p_th, _HALF[p_th], nr) for d in ds]
        if not (min(fs) > 0 and max(fs) < 1):
            raise AssertionError('chunks planting leaves (0,1)')
        perms = _file_orders(_chunk_files(len(ds), nr))[:3 if tier == 'quick' else 6]
        out.append({'family': 'chunks', 'chunks': '1..4 varying', 'p_th': p_th, 'nu': nu, 'A': A, 'B': B, 'C': C,
                    'ds': list(ds), 'nrates': nr, 'half': _HALF[p_th], 'cls': 'Toric2DCode',
                    'n_trials': N_TRIALS, 'orders': [[perm, k % 3] for k, perm in enumerate(perms)]})
    return out


def cases(tier, seed):
    lat = _lattice()
    n_orders = BOUNDS[tier]['orders_per_planting']
    if tier == 'quick':
        sel = []
        i = 0
        for ds in _DSETS:
            for nr in _NRATES:
                for p_th in _GRID['p_th']:
                    cand = [c for c in lat if c['ds'] == ds and c['nrates'] == nr and c['p_th'] == p_th]
                    # cycle through the (nu, A, B, C) lattice points available for this (p_th, ds, n_rates)
                    cand.sort(key=lambda c: (c['nu'], c['A'], c['B'], c['C']))
                    sel.append(cand[(5 * i + 1) % len(cand)])
                    # a second, different lattice point per (p_th, ds, n_rates): the quick tier then visits two
                    # (nu, A, B, C) corners of every planting column instead of one
                    second = cand[(5 * i + 1 + len(cand) // 2) % len(cand)]
                    if second is not sel[-1]:
                        sel.append(second)
                    i += 1
        lat = sel
    out = []
    for idx, c in enumerate(lat):
        variants = ['equal', 'unequal'] if tier == 'thorough' else [['equal', 'unequal'][idx % 2]]
        for var in variants:
            c = dict(c)
            perms = _file_orders(len(c['ds']))[:n_orders]
            c['orders'] = [[perm, j % 3] for j, perm in enumerate(perms)]
            c['trial_counts'] = var
            if var == 'unequal':
                # data points with different trial counts (the per-point counts enter the bootstrap)
                c['n_by_d'] = [4000, 2000, 1000] if len(c['ds']) == 3 else [4000, 3000, 2000, 1000]
            out.append(c)
    out.sort(key=lambda c: (len(c['ds']), c['nrates']))
    extra = _extra_lattice()
    if tier == 'quick':
        def pick(**kw):
            return [c for c in extra if all(c[k] == v for k, v in kw.items())]
        extra = (pick(family='low-stat', p_th=0.05, nu=0.7, A=0.2, ds=[3, 5, 7], n_trials=200)
                 + pick(family='low-stat', p_th=0.05, nu=0.7, A=0.2, ds=[3, 5, 7], n_trials=500)
                 + pick(family='low-stat', p_th=0.1, nu=1.0, A=0.3, ds=[4, 6, 8], n_trials=300)
                 + pick(family='off-centre', p_th=0.1, nu=1.0, ds=[4, 6, 8], n_trials=300)
                 + pick(family='off-centre', p_th=0.06, nu=1.25, ds=[3, 5, 7], n_trials=2000, window='p_th at 0.75'))
    for c in extra:
        c = dict(c)
        perms = _file_orders(len(c['ds']))[:3]
        c['orders'] = [[perm, j % 3] for j, perm in enumerate(perms)]
        out.append(c)
    out.extend(_multi_lattice(tier))
    out.extend(_refit_lattice(tier))
    out.extend(_sector_lattice(tier))
    out.extend(_chunk_lattice(tier))
    return out


# ---------------------------------------------------------------- real-format files
_DEFAULT_DECODER = ['MatchingDecoder', {}]
_DEFAULT_DIRECTION = [1 / 3, 1 / 3, 1 / 3]


def _template(cls, d, ps, path, decoder=None, direction=None):
    """Real results file for one distance: a real BatchSimulation runs one trial per error rate and saves."""
    from panqec import codes, decoders
    from panqec.error_models import PauliErrorModel
    from panqec.simulation import BatchSimulation, DirectSimulation
    dec_name, dec_kw = decoder or _DEFAULT_DECODER
    code = getattr(codes, cls)(d, d)
    em = PauliErrorModel(*(direction or _DEFAULT_DIRECTION))
    bs = BatchSimulation(path, label='c16', verbose=False)
    for p in ps:
        bs.append(DirectSimulation(code, em, getattr(decoders, dec_name)(code, em, p, **dec_kw), p,
                                   rng=np.random.default_rng(0), verbose=False))
    with contextlib.redirect_stdout(io.StringIO()):
        bs.run(1)
    with open(path) as f:
        return json.load(f)


def _plant(rec, nf, N_TRIALS=N_TRIALS):
    r = rec['results']
    k = rec['inputs']['code']['k']
    if sorted(r) != ['codespace', 'effective_error', 'n_runs', 'success', 'wall_time'] \
            or len(r['effective_error']) != 1 or len(r['effective_error'][0]) != 2 * k:
        raise AssertionError('unexpected results-file layout: %s' % sorted(r))
    r['n_runs'] = N_TRIALS
    r['wall_time'] = float(r['wall_time']) * N_TRIALS
    r['effective_error'] = [[1] + [0] * (2 * k - 1)] * nf + [[0] * (2 * k)] * (N_TRIALS - nf)
    r['success'] = [False] * nf + [True] * (N_TRIALS - nf)
    r['codespace'] = [True] * N_TRIALS


def _plant_sectors(rec, cx, cz, N):
    """Per-trial arrays with cx ones in the X block (first k columns of the effective error, filled row-major
    from the first trial) and cz ones in the Z block (last k columns, filled from the last trial backwards);
    success = no logical error and in the codespace, as run_once defines it."""
    r = rec['results']
    k = rec['inputs']['code']['k']
    if sorted(r) != ['codespace', 'effective_error', 'n_runs', 'success', 'wall_time'] \
            or len(r['effective_error']) != 1 or len(r['effective_error'][0]) != 2 * k:
        raise AssertionError('unexpected results-file layout: %s' % sorted(r))
    eff = np.zeros((N, 2 * k), dtype=int)
    xb = np.zeros(N * k, dtype=int)
    xb[:cx] = 1
    zb = np.zeros(N * k, dtype=int)
    zb[N * k - cz:] = 1
    eff[:, :k] = xb.reshape(N, k)
    eff[:, k:] = zb.reshape(N, k)
    r['n_runs'] = N
    r['wall_time'] = float(r['wall_time']) * N
    r['effective_error'] = eff.tolist()
    r['success'] = [not bool(v) for v in eff.any(axis=1)]
    r['codespace'] = [True] * N


def _key(case, kind, **kw):
    """`case` is the planted target concerned (for single-set cases the case itself)."""
    if kind != 'order-dependence':      # order goes to the detail; the key names the planting
        kw.pop('file_order', None)
        kw.pop('row_shuffle', None)
    k = {'kind': kind, 'p_th': round(case['p_th'], 4), 'nu': round(case['nu'], 3), 'A': round(case['A'], 3),
         'B': round(case['B'], 3), 'C': round(case['C'], 3), 'distances': list(case['ds']),
         'n_rates': case['nrates'], 'trial_counts': case.get('trial_counts', 'equal'),
         'family': case.get('family', 'centred'), 'n_trials': case.get('n_trials', N_TRIALS),
         'window': case.get('window', 'centred')}
    if case.get('varied'):              # several planted sets in one Analysis: which field differs, which set
        k.update({'varied': case['varied'], 'set': case['set'], 'n_sets': case['n_sets']})
    if case.get('sector'):              # planted sector rates: which sector table, which code
        k.update({'sector': case['sector'], 'cls': case['cls']})
    if case.get('chunks'):              # every point spread over a varying number of result files
        k['files_per_point'] = case['chunks']
    if case.get('refit_failures') is not None:      # scripted environment: which bootstrap re-fits fail
        k.update({'pattern': case['pattern'], 'failed_refits': len(case['refit_failures'])})
    k.update(kw)
    return k


class _ScriptedCurveFit:
    """Environment answer of scipy.optimize.curve_fit as seen from panqec.analysis: call 0 of a threshold fit is
    the best fit, call i >= 1 the i-th bootstrap re-fit; the calls listed in `fail` answer with the RuntimeError
    scipy raises when maxfev is exhausted, all others are passed to the real scipy function unchanged."""

    def __init__(self, real, fail):
        self.real, self.fail, self.calls, self.failed = real, set(fail), 0, 0

    def __call__(self, *args, **kwargs):
        i = self.calls
        self.calls += 1
        if i in self.fail:
            self.failed += 1
            raise RuntimeError('Optimal parameters not found: Number of calls to function has reached maxfev '
                               '(scripted environment answer).')
        return self.real(*args, **kwargs)


def _observe(files, views=('total',), refit_failures=None):
    """For every requested threshold table ('total' = Analysis.thresholds, 'X'/'Z' = Analysis.sector_thresholds)
    all rows, each with the data points the analysis attributes to it.  With a re-fit failure script only the
    total threshold fit is run (Analysis.calculate_thresholds(), one best fit + the bootstrap re-fits), so that
    the call number identifies the re-fit."""
    import panqec.analysis as pa
    env = None
    saved = pa.curve_fit
    try:
        with contextlib.redirect_stdout(io.StringIO()):
            an = pa.Analysis(list(files))
            if refit_failures is not None:
                if tuple(views) != ('total',):
                    raise AssertionError('scripted re-fits are defined for the total threshold fit only')
                env = _ScriptedCurveFit(saved, refit_failures)
                pa.curve_fit = env
                an.calculate_thresholds()
            tables = {}
            for view in views:
                tables[view] = (an.thresholds if view == 'total' else an.sector_thresholds[view],
                                an.trunc_results[view], 'p_est' if view == 'total' else 'p_est_' + view)
    finally:
        pa.curve_fit = saved
    ident = ['code', 'error_model_label', 'decoder_label']
    out = {'env': None if env is None else {'calls': env.calls, 'failed': env.failed}}
    for view, (th, tr, pcol) in tables.items():
        rows = []
        for _, row in th.iterrows():
            sel = tr
            for col in ident:               # join of two panqec tables on panqec's own identifying columns
                sel = sel[sel[col] == row[col]]
            rows.append({
                'identity': [str(row[col]) for col in ident],
                'fit_status': str(row['fit_status']),
                'fss_params': [float(v) for v in np.asarray(row['fss_params'], dtype=float)],
                'p_th_fss': float(row['p_th_fss']),
                'p_th_fss_left': float(row['p_th_fss_left']),
                'p_th_fss_right': float(row['p_th_fss_right']),
                'p_th_fss_se': float(row['p_th_fss_se']),
                'points': sorted([int(d), float(p), float(pe), float(x)] for d, p, pe, x in
                                 zip(sel['d'], sel['error_rate'], sel[pcol], sel['rescaled_p'])),
            })
        out[view] = rows
    return out


def _numbers(obs):
    return [obs['p_th_fss'], obs['p_th_fss_left'], obs['p_th_fss_right'], obs['p_th_fss_se']] + obs['fss_params']


def _brief(obs):
    return {k: obs[k] for k in obs if k != 'points'}


def _planted_sets(case):
    """The data sets planted into ONE Analysis: the case itself, or case['sets'] (each with its own p_th)."""
    if not case.get('sets'):
        return [case]
    out = []
    for i, sd in enumerate(case['sets']):
        sd = dict(sd)
        sd.update({'family': case['family'], 'varied': case['varied'], 'set': i, 'n_sets': len(case['sets'])})
        out.append(sd)
    return out


def _match(rows, sets):
    """Assign table rows to planted sets (equal counts): the assignment with the smallest total
    |p_th_fss - planted p_th| (non-finite estimates count as 1)."""
    def cost(r, sd):
        v = abs(r['p_th_fss'] - sd['p_th'])
        return v if math.isfinite(v) else 1.0
    best = min(itertools.permutations(range(len(rows))),
               key=lambda perm: sum(cost(rows[j], sets[i]) for i, j in enumerate(perm)))
    return [rows[j] for j in best]


def _judge(sd, obs, table, Nd, ps, okey, V, extra):
    """All per-threshold clauses for one planted target `sd` and the table row `obs` matched to it."""
    p_th, nu, A, B, C = sd['p_th'], sd['nu'], sd['A'], sd['B'], sd['C']
    p_lo, p_hi = min(ps), max(ps)
    tol_param = sd.get('tol', {}).get('param', TOL_PARAM)
    tol_resid = sd.get('tol', {}).get('resid', TOL_RESID)
    # (1) status.  Waived (and counted) when an end of the reported interval is not a probability: then the
    #     bootstrap is so wide that the planting is not in the well-conditioned box for this clause, and
    #     'Invalid threshold value.' is the documented answer (2 of the 120 low-stat/off-centre plantings on /repo).
    ends = [obs['p_th_fss_left'], obs['p_th_fss_right']]
    end_not_probability = all(math.isfinite(v) for v in ends) and (ends[0] < 0 or ends[1] > 1)
    if obs['fit_status'] != 'success' and end_not_probability and sd.get('family') in ('low-stat', 'off-centre'):
        extra['status_clause_waived_interval_end_not_probability'] += 1
    elif obs['fit_status'] != 'success':
        V.append({'key': _key(sd, 'fit-not-success', status=obs['fit_status'][:60], **okey),
                  'detail': dict(_brief(obs), order=okey)})
    fp = obs['fss_params']
    est, left, right = obs['p_th_fss'], obs['p_th_fss_left'], obs['p_th_fss_right']
    det = _brief(obs)
    det['order'] = okey
    det['planted'] = {'p_th': p_th, 'nu': nu, 'A': A, 'B': B, 'C': C, 'data_range': [p_lo, p_hi]}
    if not all(math.isfinite(v) for v in _numbers(obs)):
        # "the reported threshold equals p_th": a NaN/inf threshold, interval or parameter does not
        V.append({'key': _key(sd, 'threshold-not-finite', **okey), 'detail': det})
        return
    # (2) fitted threshold parameter and reported estimate
    if abs(fp[0] - p_th) > tol_param:
        V.append({'key': _key(sd, 'threshold-off', which='fss_params[0]', **okey), 'detail': det})
    elif abs(est - p_th) > max(TOL_REPORT, (right - left) / 2):
        V.append({'key': _key(sd, 'threshold-off', which='p_th_fss', **okey), 'detail': det})
    # (3) estimate inside its own interval and inside the data range; for the well-sampled centred
    #     family (DESIGN plan) the whole interval lies inside the data range as well
    if not left <= est <= right:
        V.append({'key': _key(sd, 'outside-own-interval', **okey), 'detail': det})
    if not p_lo <= est <= p_hi:
        V.append({'key': _key(sd, 'estimate-outside-data-range', **okey), 'detail': det})
    elif sd.get('interval_in_range', True) and not (p_lo <= left and right <= p_hi):
        V.append({'key': _key(sd, 'interval-outside-data-range', **okey), 'detail': det})
    # (4) the reported parameters, read on the DOCUMENTED ansatz, reproduce the planted rates of THIS target
    resid = 0.0
    xerr = 0.0
    misread = len(obs['points']) != len(table)
    for d, p, pe, x in obs['points']:
        want = table.get((d, round(p, 6)))
        if want is None or abs(pe - want / Nd[d]) > 1e-12:
            misread = True
            continue
        resid = max(resid, abs(_ansatz(p, d, *fp) - pe))
        xerr = max(xerr, abs((p - fp[0]) * d ** fp[1] - x))
    if misread:             # the fit did not work on the planted (d, p, count/denominator) table of this target
        V.append({'key': _key(sd, 'planted-rates-not-used', **okey),
                  'detail': dict(det, points_used=obs['points'][:12], points_planted=len(table))})
    if resid > tol_resid:
        V.append({'key': _key(sd, 'params-not-on-documented-ansatz', **okey),
                  'detail': dict(det, max_residual=resid)})
    if xerr > TOL_X:
        V.append({'key': _key(sd, 'rescaled-x-not-documented', **okey), 'detail': dict(det, max_x_error=xerr)})


def _nontrivial(table, Nd, ds, ps):
    """The extreme distances cross inside the window and each distance has >= 3 different counts."""
    dif = [table[(ds[-1], p)] / Nd[ds[-1]] - table[(ds[0], p)] / Nd[ds[0]] for p in (min(ps), max(ps))]
    return dif[0] * dif[1] < 0 and all(len({table[(d, p)] for p in ps}) >= 3 for d in ds)


def eval_case(case):
    res = {'evals': 0, 'nontrivial': 0, 'violations': [], 'outcomes': [], 'samples': [],
           'extra': {'violations_total': 0, 'orders_bitwise_equal': 0, 'orders_compared': 0,
                     'status_clause_waived_interval_end_not_probability': 0, 'planted_thresholds_judged': 0,
                     'scripted_refit_failures': 0, 'scripted_refits_total': 0}}
    V = []
    sets = _planted_sets(case)
    script = case.get('refit_failures')
    sb = tempfile.mkdtemp(prefix='c16_', dir='/dev/shm' if os.path.isdir('/dev/shm') else None)
    try:
        # ---- real-format records for every (planted set, distance): template from a real 1-trial simulation.
        #      A target = one planted threshold: (key source, table view, rates, denominators, planted counts).
        targets = []
        units = []                      # one result file each: (set index, distance, records)
        nontrivial = True
        for si, sd in enumerate(sets):
            ds = sd['ds']
            Nd = dict(zip(ds, sd.get('n_by_d') or [N_TRIALS] * len(ds)))
            ps = [round(p, 6) for p in sd['rates']] if sd.get('rates') else _rates(sd['p_th'], sd['half'],
                                                                                   sd['nrates'])
            sectors = sd.get('sectors')                 # {'X': [p_th, nu, A, B, C], 'Z': [...]} or None
            tables = {v: {} for v in (sorted(sectors) if sectors else ['total'])}
            denoms = {v: {} for v in tables}
            for d in ds:
                tmpl = os.path.join(sb, 'tmpl_%d_%d.json' % (si, d))
                data = _template(sd['cls'], d, ps, tmpl, sd.get('decoder'), sd.get('direction'))
                os.remove(tmpl)
                if len(data) != len(ps):
                    raise AssertionError('template has %d records' % len(data))
                for rec in data:
                    if rec['inputs']['code']['d'] != d:
                        raise AssertionError('code.d = %r for planted distance %d' % (rec['inputs']['code']['d'], d))
                    p = rec['inputs']['error_rate']
                    if sectors:
                        # sector rate = ones in the sector block / (k x trials in the codespace)
                        kN = rec['inputs']['code']['k'] * Nd[d]
                        cnt = {v: _n_fail(_ansatz(p, d, *sectors[v]), kN) for v in tables}
                        if not all(0 < c < kN for c in cnt.values()):
                            raise AssertionError('planted sector rate outside (0,1)')
                        _plant_sectors(rec, cnt['X'], cnt['Z'], Nd[d])
                        for v in tables:
                            tables[v][(d, round(p, 6))] = cnt[v]
                            denoms[v][d] = kN
                    else:
                        nf = _n_fail(_ansatz(p, d, sd['p_th'], sd['nu'], sd['A'], sd['B'], sd['C']), Nd[d])
                        if not 0 < nf < Nd[d]:
                            raise AssertionError('planted rate outside (0,1)')
                        _plant(rec, nf, Nd[d])
                        tables['total'][(d, round(p, 6))] = nf
                        denoms['total'][d] = Nd[d]
                if sd.get('chunks'):
                    # every point spread over 1..4 files: file c of distance d holds chunk c of the points that
                    # have more than c chunks
                    parts = [_split(rec, _chunk_count(ds.index(d), ri)) for ri, rec in enumerate(data)]
                    for c in range(max(len(pt) for pt in parts)):
                        units.append((si, 'd%d-c%d' % (d, c), [pt[c] for pt in parts if len(pt) > c]))
                else:
                    units.append((si, d, data))
            for v in tables:
                tsd = sd
                if sectors:
                    tsd = dict(sd, sector=v)
                    tsd.update(dict(zip(('p_th', 'nu', 'A', 'B', 'C'), sectors[v])))
                nontrivial = nontrivial and _nontrivial(tables[v], denoms[v], ds, ps)
                targets.append({'sd': tsd, 'view': v, 'ps': ps, 'Nd': denoms[v], 'table': tables[v]})
        if len(targets) > 1:            # several planted thresholds in one Analysis really differ
            nontrivial = nontrivial and len({t['sd']['p_th'] for t in targets}) == len(targets)
        res['nontrivial'] = int(nontrivial)
        views = sorted({t['view'] for t in targets})
        digest = hashlib.sha1(json.dumps(
            [sorted((d, p, n) for (d, p), n in t['table'].items()) for t in targets]).encode()).hexdigest()[:10]

        # ---- every (file permutation, row shuffle)
        first = None
        for perm, shuffle in case['orders']:
            files = []
            for si, label, data in units:
                path = os.path.join(sb, 'results_s%d_%s.json' % (si, label))
                with open(path, 'w') as f:
                    json.dump([data[j] for j in _row_order(shuffle, len(data))], f)
                files.append(path)
            seen = _observe([files[i] for i in perm], views, script)
            res['evals'] += 1
            if len(sets) == 1:
                okey = {'file_order': [units[i][1] for i in perm], 'row_shuffle': shuffle}
            else:
                okey = {'file_order': ['s%d-d%s' % units[i][:2] for i in perm], 'row_shuffle': shuffle}
            if seen['env'] is not None:
                # the scripted answers were consumed, and fewer than half of the re-fits failed (premise of the
                # documented rule "failed re-fits are dropped when they are fewer than 50%")
                env = seen['env']
                res['extra']['scripted_refit_failures'] += env['failed']
                res['extra']['scripted_refits_total'] += max(env['calls'] - 1, 0)
                if env['failed'] != len(script) or not 2 * env['failed'] < env['calls'] - 1:
                    raise AssertionError('re-fit script not applicable: %r for script of %d' % (env, len(script)))
            matched = []
            for view in views:
                tv = [t for t in targets if t['view'] == view]
                rows = seen[view]
                # (0) every planted data set is its own row of the thresholds table
                if len(rows) != len(tv):
                    if len(tv) == 1:
                        V.append({'key': _key(tv[0]['sd'], 'fit-not-success',
                                              status='%d threshold rows' % len(rows), **okey),
                                  'detail': {'rows': [_brief(r) for r in rows][:4], 'order': okey}})
                    else:
                        kk = _key(tv[0]['sd'], 'planted-sets-not-separate-rows', rows=len(rows), **okey)
                        kk.update({'set': 'all', 'planted_p_th': [round(t['sd']['p_th'], 4) for t in tv]})
                        V.append({'key': kk, 'detail': {'rows': [_brief(r) for r in rows][:4], 'order': okey,
                                                        'planted_sets': len(tv)}})
                    matched = None
                    break
                for t, obs in zip(tv, _match(rows, [t['sd'] for t in tv])):
                    _judge(t['sd'], obs, t['table'], t['Nd'], t['ps'], okey, V, res['extra'])
                    res['extra']['planted_thresholds_judged'] += 1
                    matched.append((t, obs))
            if matched is None:
                continue
            # (5) order independence
            if first is None:
                first = (okey, matched)
                res['outcomes'].append('|'.join('%s,%.4f,%.4f' % (
                    o['fit_status'][:12], o['p_th_fss'], (o['p_th_fss_right'] - o['p_th_fss_left']) / 2)
                    for _, o in matched) + '|' + digest + '|' + str(case.get('varied') or case.get('pattern') or case.get('chunks') or ''))
            else:
                for (t, ref), (_, obs) in zip(first[1], matched):
                    res['extra']['orders_compared'] += 1
                    a, b = _numbers(ref), _numbers(obs)
                    same_status = ref['fit_status'] == obs['fit_status']
                    bitwise = same_status and all(
                        (x == y) or (x != x and y != y) for x, y in zip(a, b))
                    res['extra']['orders_bitwise_equal'] += int(bitwise)
                    close = same_status and all(
                        (x != x and y != y) or abs(x - y) <= TOL_ORDER for x, y in zip(a, b))
                    if not close:
                        V.append({'key': _key(t['sd'], 'order-dependence', **okey),
                                  'detail': {'reference_order': first[0], 'reference': _brief(ref),
                                             'this': _brief(obs)}})
        if first is not None and not res['samples']:
            res['samples'].append({
                'planted': [dict({k: t['sd'].get(k) for k in ('p_th', 'nu', 'A', 'B', 'C', 'cls', 'decoder',
                                                               'direction')}, table=t['view'])
                            for t in targets],
                'distances': [t['sd']['ds'] for t in targets], 'rates': [t['ps'] for t in targets],
                'counts': [[[t['table'][(d, p)] for p in t['ps']] for d in t['sd']['ds']] for t in targets],
                'scripted_failed_refits': script,
                'reported': [_brief(o) for _, o in first[1]], 'orders': len(case['orders'])})
    finally:
        shutil.rmtree(sb, ignore_errors=True)
    res['extra']['violations_total'] = len(V)
    uniq, seen_keys = [], set()
    for v in V:                         # the same key in several orders is one finding
        ck = json.dumps(v['key'], sort_keys=True)
        if ck not in seen_keys:
            seen_keys.add(ck)
            uniq.append(v)
    res['violations'] = uniq[:5]
    return res
