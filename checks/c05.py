"""C05  Decoders return valid corrections that reproduce the measured syndrome.

Alphabet: (decoder, code class) pairs read from each registered decoder's
`allowed_codes` (None = all 16 exported classes; for those decoders also the
Clifford-deformed, non-CSS code objects) x family sizes (DESIGN §3) x noise
(direction x noise-side deformation) x error rate x decoder parameters x
syndrome representation (uint8 as measure_syndrome returns it, int64, Python
list) x driving mode (fresh decoder per syndrome; ONE decoder reused over the
whole enumeration, ascending and descending) x syndromes (all 2^rank when
rank <= 10, else the syndromes of all Pauli errors of weight <= w plus 0).

The full product of all axes is enumerated on the smallest codes (profile FULL);
on larger ones the axes are varied one at a time around a base point (STAR) or
only the base point is run (BASE) -- every point always crossed with the whole
syndrome set and the driving modes.  Thresholds per decoder and tier: BOUNDS.

Oracle (mc/gf2.py, integer GF(2) algebra, shares no code with panqec):
construction does not raise; decode returns a 0/1 vector of length 2n without
raising; for Matching / UnionFind / BP-OSD the correction's syndrome equals
the input syndrome; the zero syndrome yields the zero correction.
"""
import signal
import traceback

import json

from mc import families as F
from mc import gf2
from mc import session

PROPERTY = 'C05'
LEVEL = 'exploration'
DESIGN_REF = 'DESIGN.md §4 C05, §3, §5 (D8b, D9, D10, D16, D17)'
TECHNIQUE = ('bounded exhaustive enumeration of (decoder, code class, lattice size, code deformation, noise '
             'direction, noise deformation, error rate, decoder parameters, syndrome dtype, driving mode) '
             'configurations, each crossed with every syndrome of the code (rank <= 10) or every syndrome of a '
             'Pauli error of weight <= w; every decode executed on the real decoder and judged by an independent '
             'GF(2) reference')
LEVEL_TEXT = ('Every configuration inside the stated bounds is executed on the real decoders, with a fresh decoder '
              'per syndrome and with one decoder reused over the complete syndrome enumeration in both orders, and '
              'every returned correction is judged by integer GF(2) algebra that shares no code with panqec. The '
              'property is a per-input statement (a correction is valid or not), so complete enumeration decides it '
              'inside the bounds; carried decoder state is exercised by the two reuse orders only (full histories '
              'are C06).')
LEVEL_NOTE = ('Trusted: mc/gf2.py (self-tested), the size-family table of DESIGN §3, the enumeration code of this '
              'file. Not covered: sizes above the per-decoder qubit bounds, errors of weight > w on codes of rank '
              '> 10, reuse orders other than ascending/descending, configurations outside the star on sizes above '
              'n_full (see RULE), decoder parameters outside the listed ones. A decoder rejecting a Python-list '
              'syndrome by raising is counted (list_rejected), not reported: the declared parameter type is '
              'np.ndarray. A non-zero answer to the zero syndrome from an incomplete decoder (sweep-match, X-cube, '
              'MBP) is counted (zero_syndrome_nonzero_correction_incomplete_decoder), not reported: the property '
              'states the trivial-correction clause for the complete decoders.')
RULE = ('decoders = panqec.config.DECODERS; classes = allowed_codes (None -> all 16, each also with every code '
        'deformation name/axis); sizes = DESIGN §3 family with n <= n_max[decoder] and L <= l_max (always at least '
        'the smallest family size of a class unless it exceeds n_hard). Profile by n: n <= n_full: FULL product {4 '
        'noise directions x (no deformation + every noise deformation)} x 3 rates x parameter sets x 3 dtypes x 3 '
        'modes; n <= n_star: STAR around the base point (depolarising undeformed noise, p=0.1, uint8, first '
        'parameter set) varying one axis at a time (all noises; all rates; all dtypes; all parameter sets), 3 modes '
        'each; otherwise BASE: the base point in 3 modes plus int64 and list in mode reused-asc. Every point is '
        'crossed with the whole syndrome set: all 2^rank syndromes if rank <= 10, else the distinct syndromes of all '
        'Pauli errors of weight <= w (w = 2 for n <= n_w2 else 1) plus the zero syndrome. DEEP families '
        '(BOUNDS.deep: decoder, class, size, Pauli letter, w, shards) add, at the base point in uint8 with one '
        'reused decoder per shard, the complete set of syndromes of errors that put that one letter on every '
        'subset of <= w qubits (union-find on odd tori up to weight 3, X-cube matching on 4x4x4 at weight 2). '
        'MERGE families for union-find on 6x6..8x8 (thorough 10x10) tori (BOUNDS.merge): deterministic dense '
        'error patterns (one Weyl rotation per qubit, densities 0.08-0.14, both sectors) and, in thorough, all '
        'translations of k collinear / staggered defect-pair chains. Every decode runs under a '
        'DECODE_TIMEOUT_S alarm: not returning is the violation decode-does-not-terminate. '
        'A sub-case (point, mode, '
        'dtype, syndrome) is distinct by construction and non-trivial when the syndrome is non-zero and the decode '
        'was executed (counted from the set of executed sub-cases).')
ISOLATE = True          # every case in a freshly forked child (runner default)
ASSUMPTIONS = [
    'size family per class as fixed in DESIGN.md §3; Color666ToricCode with L_x != L_y skipped (finding D12b)',
    'GF(2) reference algebra mc/gf2.py; a valid syndrome is the reference syndrome of an explicit Pauli error',
    'code.measure_syndrome agrees with the reference on the enumerated errors (C03; disagreements are counted in '
    'measure_syndrome_mismatch and the syndrome is skipped)',
    'CSS-only decoders are not handed deformed (non-CSS) code objects: their ValueError is by design (DESIGN C05)',
    'a Python list is outside the declared np.ndarray interface: rejection by exception is counted, not reported',
    'the trivial-syndrome clause of the property binds the complete decoders (Matching, UnionFind, BP-OSD) only',
]

COMPLETE = ('MatchingDecoder', 'UnionFindDecoder', 'BeliefPropagationOSDDecoder')
DIRECTIONS = {
    'depolarizing': (1 / 3, 1 / 3, 1 / 3),
    'biased-Z': (0.1, 0.1, 0.8),
    'pure-Z': (0.0, 0.0, 1.0),
    'pure-X': (1.0, 0.0, 0.0),
}
RATES = [0.01, 0.1, 0.3]
BASE_RATE = 0.1
DTYPES = ['uint8', 'int64', 'list', 'bool']
MODES = ['fresh', 'reused-asc', 'reused-desc']
RANK_ALL = 10
# The property attaches "the trivial syndrome yields the trivial correction" to the complete decoders; for the
# others (sweep-match, X-cube, MBP) a non-zero answer to the zero syndrome is counted in the evidence
# (zero_syndrome_nonzero_correction_incomplete_decoder) and becomes a violation only when this is True.
ZERO_RULE_ALL_DECODERS = False

PARAMS = {
    'BeliefPropagationOSDDecoder': [
        {'osd_order': 10, 'channel_update': False},
        {'osd_order': 0, 'channel_update': False},
        {'osd_order': 10, 'channel_update': True},
        {'osd_order': 0, 'channel_update': True},
    ],
    'MemoryBeliefPropagationDecoder': [{'max_bp_iter': 3}],
}

# per tier, per decoder: n_max (inclusion; the smallest family size of a class is included anyway unless it
# exceeds n_hard), n_full (FULL product), n_star (STAR), n_w2 (weight-2 errors when rank > 10), split (one case
# per driving mode: slow decoders), classes: per-class overrides
_DEF_Q = {'n_max': 12, 'n_hard': 30, 'n_full': 0, 'n_star': 6, 'n_w2': 8, 'split': True}
_DEF_T = {'n_max': 30, 'n_hard': 60, 'n_full': 6, 'n_star': 12, 'n_w2': 16, 'split': True}
BOUNDS = {
    'quick': {
        'l_max_2d': 4, 'l_max_3d': 3, 'rank_all': RANK_ALL,
        'MatchingDecoder': {'n_max': 20, 'n_hard': 100, 'n_full': 6, 'n_star': 9, 'n_w2': 16, 'split': False},
        'UnionFindDecoder': {'n_max': 24, 'n_hard': 100, 'n_full': 0, 'n_star': 8, 'n_w2': 24, 'split': True,
                             'base_dtypes': True, 'base_dtype_list': ['bool']},
        'SweepMatchDecoder': {'n_max': 24, 'n_hard': 100, 'n_full': 0, 'n_star': 0, 'n_w2': 24, 'split': True,
                              'classes': {'Planar3DCode': {'n_w2': 12}}},
        'RotatedSweepMatchDecoder': {'n_max': 16, 'n_hard': 100, 'n_full': 0, 'n_star': 0, 'n_w2': 10,
                                     'split': True,
                                     'classes': {'RotatedToric3DCode': {'n_max': 6, 'n_star': 4}}},
        'XCubeMatchingDecoder': {'n_max': 36, 'n_hard': 100, 'n_full': 0, 'n_star': 24, 'n_w2': 0, 'split': True},
        'BeliefPropagationOSDDecoder': {'n_max': 16, 'n_hard': 100, 'n_full': 4, 'n_star': 6, 'n_w2': 12,
                                        'split': False, 'classes': {'Toric2DCode': {'n_star': 8}}},
        'MemoryBeliefPropagationDecoder': {'n_max': 6, 'n_hard': 12, 'n_full': 0, 'n_star': 4, 'n_w2': 0,
                                           'split': True},
        'default': _DEF_Q,
    },
    'thorough': {
        'l_max_2d': 9, 'l_max_3d': 4, 'rank_all': RANK_ALL,
        'MatchingDecoder': {'n_max': 100, 'n_hard': 100, 'n_full': 9, 'n_star': 50, 'n_w2': 20, 'split': False},
        'UnionFindDecoder': {'n_max': 50, 'n_hard': 100, 'n_full': 8, 'n_star': 12, 'n_w2': 18, 'split': True},
        'SweepMatchDecoder': {'n_max': 81, 'n_hard': 100, 'n_full': 12, 'n_star': 24, 'n_w2': 24, 'split': True,
                              'classes': {'Planar3DCode': {'n_w2': 12}}},
        'RotatedSweepMatchDecoder': {'n_max': 40, 'n_hard': 100, 'n_full': 10, 'n_star': 16, 'n_w2': 16,
                                     'split': True,
                                     'classes': {'RotatedToric3DCode': {'n_max': 10, 'n_full': 4, 'n_star': 8}}},
        'XCubeMatchingDecoder': {'n_max': 81, 'n_hard': 100, 'n_full': 24, 'n_star': 54, 'n_w2': 24,
                                 'split': True},
        'BeliefPropagationOSDDecoder': {'n_max': 100, 'n_hard': 100, 'n_full': 8, 'n_star': 30, 'n_w2': 12,
                                        'split': False},
        'MemoryBeliefPropagationDecoder': {'n_max': 24, 'n_hard': 24, 'n_full': 5, 'n_star': 6, 'n_w2': 8,
                                           'split': True},
        'default': _DEF_T,
    },
}
BUDGET_S = {'quick': 1500, 'thorough': 7200}
CHUNK = 4
MAX_VIOLATIONS_PER_CASE = 8

# DEEP families: single-sector errors of higher weight on sizes where the generic weight bound is too shallow
# (clusters that wrap an odd torus direction need weight 3; two projected X-cube strings cross only for L >= 4).
# One entry = decoder, class, size, Pauli letter of the sector, maximal weight, number of shards.  The syndrome
# set is {syndrome(e): e = that letter on every subset of <= w qubits}, COMPLETE for the stated weight; it is run
# at the base point (depolarising, p=0.1, uint8) with one decoder reused per shard, ascending.
_DEEP_Q = [
    ('UnionFindDecoder', 'Toric2DCode', [3, 3], 'X', 3, 2),
    ('UnionFindDecoder', 'Toric2DCode', [3, 3], 'Z', 3, 2),
    ('UnionFindDecoder', 'Toric2DCode', [3, 4], 'X', 3, 6),
    ('UnionFindDecoder', 'Toric2DCode', [4, 3], 'X', 3, 6),
    ('XCubeMatchingDecoder', 'XCubeCode', [4, 4, 4], 'X', 2, 8),
]
DEEP = {
    'quick': _DEEP_Q,
    'thorough': _DEEP_Q + [
        ('UnionFindDecoder', 'Toric2DCode', [3, 4], 'Z', 3, 6),
        ('UnionFindDecoder', 'Toric2DCode', [4, 3], 'Z', 3, 6),
        ('UnionFindDecoder', 'Toric2DCode', [3, 5], 'X', 3, 12),
        ('UnionFindDecoder', 'Toric2DCode', [5, 3], 'X', 3, 12),
        ('XCubeMatchingDecoder', 'XCubeCode', [4, 4, 4], 'Z', 2, 8),
        ('XCubeMatchingDecoder', 'XCubeCode', [4, 4, 3], 'X', 2, 6),
    ],
}
# MERGE families for the union-find decoder on larger tori: syndromes with many defects, so that clusters are
# absorbed several times in a row while they grow (a cluster merged into a second one that is later merged into
# a third).  Both are deterministic and enumerated completely; no RNG is involved.
#  dense: (size, letter, density, count, shards) -- error pattern j (0 <= j < count) puts `letter` on qubit q iff
#         ((j+1) * a_q mod 2^32) < density * 2^32, a_q = low 32 bits of isqrt(p_q << 64), p_q the q-th prime (one
#         Weyl / low-discrepancy rotation per qubit: every qubit errs in a fraction `density` of the patterns).
#  chain: (size, letter, k, gaps, stags, shards) -- k single-qubit errors (= k defect pairs) on edges of one
#         orientation (h, v), placed along a lattice direction (x, y) at distances g_1..g_{k-1} in `gaps`
#         (span < L), every second one shifted sideways by s in `stags` cells (0 = collinear), at EVERY
#         translation of the torus: all orientation x direction x s x gap tuples x translations.
# Each decode runs under DECODE_TIMEOUT_S; a decode that does not return is the violation
# 'decode-does-not-terminate'.
DECODE_TIMEOUT_S = 20
MAX_TIMEOUTS_PER_CASE = 3
_UF = ('UnionFindDecoder', 'Toric2DCode')
MERGE = {
    'quick': {
        'dense': [([8, 8], 'X', 0.14, 100, 4), ([8, 8], 'Z', 0.14, 100, 4),
                  ([6, 8], 'X', 0.14, 100, 3), ([6, 8], 'Z', 0.14, 100, 3),
                  ([8, 6], 'X', 0.14, 100, 3), ([8, 6], 'Z', 0.14, 100, 3),
                  ([8, 8], 'X', 0.08, 100, 2), ([8, 8], 'Z', 0.08, 100, 2),
                  ([6, 8], 'Z', 0.10, 100, 2), ([8, 6], 'X', 0.10, 100, 2)],
        'chain': [],
    },
    'thorough': {
        'dense': [(sz, lt, d, 400, 12) for sz in ([6, 6], [8, 8], [6, 8], [8, 6]) for lt in 'XZ'
                  for d in (0.08, 0.14)]
                 + [([10, 10], lt, 0.1, 150, 15) for lt in 'XZ'],
        'chain': [([8, 8], lt, 5, [1, 2], [0, 1, 2], 48) for lt in 'XZ']
                 + [([6, 8], 'Z', 5, [1, 2], [0, 1, 2], 24)],
    },
}
for _t in ('quick', 'thorough'):
    BOUNDS[_t]['deep'] = [list(d) for d in DEEP[_t]]
    BOUNDS[_t]['merge'] = {k: [list(e) for e in v] for k, v in MERGE[_t].items()}
    BOUNDS[_t]['decode_timeout_s'] = DECODE_TIMEOUT_S


# ------------------------------------------------------------------ cases
def _decoders():
    import panqec.config as cfg
    return dict(cfg.DECODERS)


def _noises(cls):
    """[(direction name, None | [deformation name, kwargs])]: base point first."""
    defs = [None] + F.deformations(cls)
    return [[d, nd] for d in DIRECTIONS for nd in defs]


def _skip_cfg(cls, size):
    return cls == 'Color666ToricCode' and size[0] != size[1]


def cases(tier, seed):
    b = BOUNDS[tier]
    out = []
    decs = _decoders()
    for dname in sorted(decs):
        allowed = decs[dname].allowed_codes
        all_codes = allowed is None
        classes = list(F.CLASSES) if all_codes else [c for c in allowed]
        db0 = b.get(dname, b['default'])
        plist = PARAMS.get(dname, [{}])
        for cls in classes:
            db = dict(db0)
            db.update(db0.get('classes', {}).get(cls, {}))
            if cls not in F.CLASSES:
                # a declared class that is not an exported code class: reported by eval_case
                out.append({'decoder': dname, 'cfg': {'cls': cls, 'size': [], 'deformation': None}, 'n': 0,
                            'unknown_class': True})
                continue
            l_max = b['l_max_2d'] if cls in F.CLASSES_2D else b['l_max_3d']
            family = F.sizes(cls, 10 ** 9, l_max, min_count=1)       # sorted by n
            chosen = [sz for sz in family if (F.n_qubits(cls, sz) or 0) <= db['n_max']] or family[:1]
            for size in chosen:
                n = F.n_qubits(cls, size) or 0
                if n > db['n_hard']:
                    continue
                cdefs = [None] + (F.deformations(cls) if all_codes else [])
                for cd in cdefs:
                    cfg = {'cls': cls, 'size': list(size), 'deformation': cd}
                    if _skip_cfg(cls, size):
                        out.append({'decoder': dname, 'cfg': cfg, 'n': n, 'skip': 'D12b'})
                        continue
                    w = 2 if n <= db['n_w2'] else 1
                    noises = _noises(cls)
                    base_noise = noises[0]
                    points = []          # (noise, params, rates, dtypes, modes)
                    profile = 'FULL' if n <= db['n_full'] else 'STAR' if n <= db['n_star'] else 'BASE'
                    if n <= db['n_full']:
                        for nz in noises:
                            points.append((nz, plist, RATES, DTYPES, MODES))
                    elif n <= db['n_star']:
                        points.append((base_noise, plist[:1], [BASE_RATE], DTYPES, MODES))
                        points.append((base_noise, plist[:1], [r for r in RATES if r != BASE_RATE], ['uint8'],
                                       MODES))
                        for nz in noises[1:]:
                            points.append((nz, plist[:1], [BASE_RATE], ['uint8'], MODES))
                        if plist[1:]:
                            points.append((base_noise, plist[1:], [BASE_RATE], ['uint8'], MODES))
                    else:
                        points.append((base_noise, plist[:1], [BASE_RATE], ['uint8'], MODES))
                        if db.get('base_dtypes', True):
                            points.append((base_noise, plist[:1], [BASE_RATE], db.get('base_dtype_list', DTYPES[1:]),
                                           ['reused-asc']))
                    for nz, ps, rates, dtypes, modes in points:
                        if db['split']:
                            parts = [([p], [dt], [mo]) for p in ps for dt in dtypes for mo in modes]
                        else:
                            parts = [(ps, dtypes, modes)]
                        for pl, dts, ms in parts:
                            out.append({'decoder': dname, 'cfg': cfg, 'n': n, 'profile': profile,
                                        'noise': nz, 'params_list': [dict(p) for p in pl],
                                        'rates': list(rates), 'dtypes': list(dts), 'modes': list(ms),
                                        'w': w, 'rank_all': b['rank_all']})
    # simplest first: by qubit number; within one qubit number the decoders take turns (the i-th case of every
    # decoder before the (i+1)-th of any), each decoder's cases in construction order
    turn = {}
    for c in out:
        k = (c['n'], c['decoder'])
        c['_turn'] = turn[k] = turn.get(k, -1) + 1
    out.sort(key=lambda c: (c['n'], c['_turn'], c['decoder']))
    for c in out:
        del c['_turn']
    # sessions: decoders for several sizes / code deformations of one class built and used one after the
    # other in ONE process (each judged exactly as when it runs alone)
    groups = {}
    for c in out:
        if c.get('skip') or c.get('unknown_class') or 'uint8' not in c.get('dtypes', []) \
                or 'reused-asc' not in c.get('modes', []):
            continue
        g = groups.setdefault((c['decoder'], c['cfg']['cls']), {})
        k = (tuple(c['cfg']['size']), json.dumps(c['cfg']['deformation']))
        if k not in g:
            g[k] = dict(c, dtypes=['uint8'], modes=['reused-asc'], rates=c['rates'][:1],
                        params_list=c['params_list'][:1])
    sess = []
    for (dname, cls), g in groups.items():
        sizes = []
        for (sz, _d) in g:
            if sz not in sizes:
                sizes.append(sz)
        items = [c for (sz, _d), c in g.items() if sz in sizes[:2]]
        if len(items) >= 2:
            sess.append({'session': items + [items[0]], 'decoder': dname,
                         'cfg': {'cls': cls, 'size': [], 'deformation': None}, 'n': items[0]['n']})
    deep = []
    for dname, cls, size, letter, w, shards in DEEP[tier]:
        if dname not in decs or (decs[dname].allowed_codes is not None and cls not in decs[dname].allowed_codes) \
                or not F.in_family(cls, tuple(size)):
            continue
        for i in range(shards):
            deep.append({'decoder': dname, 'cfg': {'cls': cls, 'size': list(size), 'deformation': None},
                         'n': F.n_qubits(cls, size) or 0, 'profile': 'DEEP', 'noise': _noises(cls)[0],
                         'params_list': [dict(PARAMS.get(dname, [{}])[0])], 'rates': [BASE_RATE],
                         'dtypes': ['uint8'], 'modes': ['reused-asc'], 'w': w, 'rank_all': b['rank_all'],
                         'space': {'letter': letter, 'w': w}, 'shard': [i, shards]})
    if _UF[0] in decs and (decs[_UF[0]].allowed_codes is None or _UF[1] in decs[_UF[0]].allowed_codes):
        specs = [(e[0], {'type': 'dense', 'letter': e[1], 'density': e[2], 'count': e[3]}, e[4])
                 for e in MERGE[tier]['dense']]
        specs += [(e[0], {'type': 'chain', 'letter': e[1], 'k': e[2], 'gaps': list(e[3]), 'stags': list(e[4])},
                   e[5]) for e in MERGE[tier]['chain']]
        for size, space, shards in specs:
            for i in range(shards):
                deep.append({'decoder': _UF[0], 'cfg': {'cls': _UF[1], 'size': list(size), 'deformation': None},
                             'n': F.n_qubits(_UF[1], size) or 0, 'profile': 'MERGE', 'noise': _noises(_UF[1])[0],
                             'params_list': [{}], 'rates': [BASE_RATE], 'dtypes': ['uint8'],
                             'modes': ['reused-asc'], 'w': 0, 'rank_all': b['rank_all'],
                             'space': dict(space), 'shard': [i, shards]})
    return out + deep + sess


# ------------------------------------------------------------------ syndrome space (reference)
def syndrome_space(H, n, w, rank_all):
    """[(syndrome int, preimage error int)] sorted by (syndrome weight, syndrome), zero first.
    All 2^rank syndromes if rank <= rank_all, else those of all Pauli errors of weight <= w."""
    sx = [gf2.syndrome(H, 1 << q, n) for q in range(n)]
    sz = [gf2.syndrome(H, 1 << (n + q), n) for q in range(n)]
    r = gf2.rank(H)
    if r <= rank_all:
        piv = {}
        for q in range(n):
            for s, e in ((sx[q], 1 << q), (sz[q], 1 << (n + q))):
                while s:
                    p = s & -s
                    if p in piv:
                        s ^= piv[p][0]
                        e ^= piv[p][1]
                    else:
                        piv[p] = (s, e)
                        break
        elems = [(0, 0)]
        for s, e in piv.values():
            elems += [(s ^ a, e ^ c) for a, c in elems]
        if len(elems) != 1 << r:
            raise AssertionError('syndrome space size %d != 2^%d' % (len(elems), r))
        seen = dict(elems)
        kind = 'all'
    else:
        single = []
        for q in range(n):
            single.append((sx[q], 1 << q))
            single.append((sx[q] ^ sz[q], (1 << q) | (1 << (n + q))))
            single.append((sz[q], 1 << (n + q)))
        seen = {0: 0}
        for s, e in single:
            seen.setdefault(s, e)
        if w >= 2:
            for i in range(len(single)):
                s1, e1 = single[i]
                for j in range(i + 1, len(single)):
                    if j // 3 == i // 3:
                        continue
                    s2, e2 = single[j]
                    seen.setdefault(s1 ^ s2, e1 | e2)
        kind = 'w<=%d' % w
    order = sorted(seen.items(), key=lambda t: (bin(t[0]).count('1'), t[0]))
    return order, r, kind


def sector_space(H, n, letter, w):
    """[(syndrome int, preimage error int)] for every error that puts `letter` (X, Y or Z) on a subset of at
    most w qubits: complete for that sector and weight; one (lowest-weight) preimage per distinct syndrome;
    sorted by (syndrome weight, syndrome), zero first."""
    import itertools
    single = []
    for q in range(n):
        e = (1 << q if letter in 'XY' else 0) | (1 << (n + q) if letter in 'YZ' else 0)
        single.append((gf2.syndrome(H, e, n), e))
    seen = {0: 0}
    for k in range(1, w + 1):
        for comb in itertools.combinations(range(n), k):
            sy = er = 0
            for q in comb:
                sy ^= single[q][0]
                er |= single[q][1]
            seen.setdefault(sy, er)
    order = sorted(seen.items(), key=lambda t: (bin(t[0]).count('1'), t[0]))
    return order, gf2.rank(H), '%s-only w<=%d' % (letter, w)


def _space_of(H, n, errors, label):
    seen = {}
    for e in errors:
        seen.setdefault(gf2.syndrome(H, e, n), e)
    order = sorted(seen.items(), key=lambda t: (bin(t[0]).count('1'), t[0]))
    return order, gf2.rank(H), label


def _letter_on(qs, letter, n):
    e = 0
    for q in qs:
        e ^= (1 << q if letter in 'XY' else 0) | (1 << (n + q) if letter in 'YZ' else 0)
    return e


def dense_space(H, n, letter, density, count):
    """MERGE/dense (see the table): `count` deterministic error patterns of the given density."""
    import math
    primes, c = [], 2
    while len(primes) < n:
        if all(c % p for p in primes if p * p <= c):
            primes.append(c)
        c += 1
    a = [math.isqrt(p << 64) & 0xffffffff for p in primes]
    thr = int(density * (1 << 32))
    errors = [_letter_on([q for q in range(n) if ((j + 1) * a[q]) & 0xffffffff < thr], letter, n)
              for j in range(count)]
    return _space_of(H, n, errors, 'dense %s d=%g j<%d' % (letter, density, count))


def chain_space(H, n, code, letter, k, gaps, stags):
    """MERGE/chain (see the table).  The lattice labels (qubit_index of the torus: horizontal edges at (odd,
    even), vertical edges at (even, odd), coordinates mod 2L) only select which qubits carry the errors; the
    syndromes are computed by the reference from H."""
    import itertools
    lx, ly = code.size
    qi = code.qubit_index
    errors = []
    for orient in 'hv':
        for direc in 'xy':
            span = lx if direc == 'x' else ly
            for stag in stags:
                for gp in itertools.product(gaps, repeat=k - 1):
                    pos = [0]
                    for g in gp:
                        pos.append(pos[-1] + g)
                    if pos[-1] >= span:
                        continue
                    for tx in range(lx):
                        for ty in range(ly):
                            qs = []
                            for i, p_ in enumerate(pos):
                                u, v = (p_, stag * (i % 2)) if direc == 'x' else (stag * (i % 2), p_)
                                cx, cy = (tx + u) % lx, (ty + v) % ly
                                qs.append(qi[(2 * cx + 1, 2 * cy) if orient == 'h' else (2 * cx, 2 * cy + 1)])
                            errors.append(_letter_on(qs, letter, n))
    return _space_of(H, n, errors, 'chain %s k=%d gaps=%s stags=%s' % (letter, k, list(gaps), list(stags)))


class _DecodeTimeout(BaseException):
    pass


def _on_alarm(signum, frame):
    raise _DecodeTimeout()


# ------------------------------------------------------------------ evaluation
def _panqec_where(exc):
    hit = None
    for fs in traceback.extract_tb(exc.__traceback__):
        fn = fs.filename.replace('\\', '/')
        if '/panqec/' in fn and '/verif/' not in fn:
            hit = '%s:%s' % (fn.rsplit('/', 1)[-1], fs.name)
    return hit


def _key(case, kind, **kw):
    cfg = case['cfg']
    cd = cfg.get('deformation')
    nz = case.get('noise') or [None, None]
    size = list(cfg['size'])
    k = {'kind': kind, 'decoder': case['decoder'], 'cls': cfg['cls'], 'size': size,
         'square': len(set(size)) == 1,
         'min_L_is_2': bool(size) and min(size) == 2,
         'odd_times_even': len(size) >= 2 and (size[0] % 2) != (size[1] % 2),
         'code_deformation': cd[0] if cd else None,
         'code_axis': (cd[1].get('deformation_axis', 'default') if cd else None),
         'noise_direction': nz[0],
         'noise_deformation': nz[1][0] if nz[1] else None,
         'noise_axis': (nz[1][1].get('deformation_axis', 'default') if nz[1] else None)}
    for pk, pv in sorted((kw.pop('params', None) or {}).items()):
        k[pk] = pv
    k.update(kw)
    return k


def _convert(native, dtype):
    import numpy as np
    if dtype == 'uint8':
        return native.copy()
    if dtype == 'int64':
        return native.astype(np.int64)
    if dtype == 'bool':
        return native.astype(bool)          # a syndrome as comparisons produce it (s != 0)
    return [int(x) for x in native]


def _judge(corr, n, H, s_int, complete):
    """-> (kind or None, detail dict, correction int or None)"""
    import numpy as np
    try:
        a = np.asarray(corr)
    except Exception as exc:                      # not array-like at all
        return 'bad-shape', {'type': type(corr).__name__, 'message': str(exc)[:100]}, None
    if a.shape != (2 * n,):
        return 'bad-shape', {'shape': list(a.shape), 'expected': [2 * n], 'type': type(corr).__name__}, None
    if a.dtype.kind not in 'buif' or not bool(np.all((a == 0) | (a == 1))):
        bad = [repr(x) for x in a.tolist() if not (x == 0 or x == 1)][:5] if a.dtype.kind in 'buif' else []
        return 'non-binary', {'dtype': str(a.dtype), 'entries': bad}, None
    c = 0
    for i in np.flatnonzero(a):
        c |= 1 << int(i)
    if s_int == 0 and c != 0:
        kind = 'zero-syndrome-nonzero-correction'
        if not (complete or ZERO_RULE_ALL_DECODERS):
            kind = 'info:' + kind
        return kind, {'correction': gf2.int_to_pauli_string(c, n)}, c
    if complete:
        got = gf2.syndrome(H, c, n)
        if got != s_int:
            return 'wrong-syndrome', {'correction': gf2.int_to_pauli_string(c, n),
                                      'correction_syndrome': [i for i in range(len(H)) if (got >> i) & 1]}, c
    return None, None, c


def eval_case(case):
    if 'session' in case:
        return session.run(case['session'], eval_case,
                           lambda c: '%s on %s' % (c['decoder'], F.cfg_label(c['cfg'])))
    import numpy as np
    import panqec.config as pcfg
    from panqec.error_models import PauliErrorModel

    res = {'evals': 0, 'nontrivial': 0, 'violations': [], 'outcomes': [], 'samples': [], 'skipped': 0,
           'extra': {}}
    X = res['extra']

    def bump(k, d=1):
        X[k] = X.get(k, 0) + d

    dname = case['decoder']
    if case.get('skip'):
        res['skipped'] = 1
        res['evals'] = 1          # the configuration was looked at (kept out of the decode counts)
        bump('configs_skipped_' + case['skip'])
        return res
    D = pcfg.DECODERS[dname]
    if case.get('unknown_class'):
        res['evals'] = 1
        res['violations'].append({'key': _key(case, 'allowed-code-not-a-library-class'),
                                  'detail': {'allowed_codes': list(D.allowed_codes or [])}})
        return res
    cfg = case['cfg']
    complete = dname in COMPLETE
    nz = case['noise']

    # ---- the code object and the reference view of it
    code = F.build(cfg)
    n = code.n
    H = gf2.matrix_rows(code.stabilizer_matrix)
    m = len(H)
    sp = case.get('space')
    if sp and sp.get('type') == 'dense':
        space, r, skind = dense_space(H, n, sp['letter'], sp['density'], sp['count'])
    elif sp and sp.get('type') == 'chain':
        space, r, skind = chain_space(H, n, code, sp['letter'], sp['k'], sp['gaps'], sp['stags'])
    elif sp:
        space, r, skind = sector_space(H, n, sp['letter'], sp['w'])
    else:
        space, r, skind = syndrome_space(H, n, case['w'], case['rank_all'])
    sh = case.get('shard') or [0, 1]
    todo = list(range(len(space)))[sh[0]::sh[1]]         # this case's share of the enumeration (ascending)
    natives = {}
    for idx in todo:
        s_int, e_int = space[idx]
        e = np.array(gf2.int_to_vec(e_int, 2 * n), dtype=np.uint8)
        s = code.measure_syndrome(e)
        ok = isinstance(s, np.ndarray) and s.shape == (m,)
        if ok:
            got = 0
            for i in np.flatnonzero(s):
                got |= 1 << int(i)
            ok = got == s_int
        if not ok:
            bump('measure_syndrome_mismatch')
            natives[idx] = None
        else:
            natives[idx] = s
    bump('syndromes_enumerated', len(todo))
    bump('syndrome_sets_' + ('all' if skind == 'all' else 'sector' if case.get('space') else 'weight_bounded'))

    def make_model():
        kw = {}
        if nz[1]:
            kw = {'deformation_name': nz[1][0], 'deformation_kwargs': dict(nz[1][1])}
        return PauliErrorModel(*DIRECTIONS[nz[0]], **kw)

    found = {}            # (kind, mode, dtype, exc) -> violation   (first = simplest)
    executed = set()
    outcomes = set()

    cur = {'params': {}}

    def report(kind, mode, dtype, rate, idx, detail, **kw):
        bump('viol_' + kind)
        bump('viol_%s_%s' % (kind, dname))
        fk = (kind, mode, dtype, kw.get('exc'))
        if fk in found:
            return
        key = _key(case, kind, mode=mode, dtype=dtype, rate=rate, syndrome_index=idx,
                   syndrome_set=skind, params=cur['params'], **kw)
        if case.get('shard'):
            key['shard'] = list(case['shard'])
        d = dict(detail or {})
        if idx is not None:
            s_int, e_int = space[idx]
            d['error'] = gf2.int_to_pauli_string(e_int, n)
            d['syndrome'] = [i for i in range(m) if (s_int >> i) & 1]
        d['n'] = n
        d['rank'] = r
        found[fk] = {'key': key, 'detail': d}

    def construct(model, rate, mode):
        """-> decoder or None (violation recorded)"""
        try:
            return D(code, model, rate, **cur['params'])
        except Exception as exc:
            report('construction-raises', mode, None, rate, None,
                   {'message': str(exc)[:200]}, exc=type(exc).__name__, where=_panqec_where(exc))
            return None

    def one(dec, mode, dtype, rate, idx):
        native = natives[idx]
        if native is None:
            return
        s_int = space[idx][0]
        arg = _convert(native, dtype)
        res['evals'] += 1
        executed.add((cur['idx'], rate, dtype, mode, s_int))
        try:
            if timer['on']:
                signal.setitimer(signal.ITIMER_REAL, DECODE_TIMEOUT_S)
            try:
                corr = dec.decode(arg)
            finally:
                if timer['on']:
                    signal.setitimer(signal.ITIMER_REAL, 0)
        except _DecodeTimeout:
            timer['hits'] += 1
            report('decode-does-not-terminate', mode, dtype, rate, idx,
                   {'message': 'decode did not return within %d s' % DECODE_TIMEOUT_S},
                   timeout_s=DECODE_TIMEOUT_S)
            outcomes.add('%s|does-not-terminate' % dname)
            return 'timeout'
        except Exception as exc:
            if dtype in ('list', 'bool') and isinstance(exc, (TypeError, ValueError)):
                # not the declared argument type (ndarray of 0/1 integers): a refusal is counted, not reported;
                # a decoder that accepts it is held to the full oracle
                bump(dtype + '_rejected')
                outcomes.add('%s|%s-rejected|%s' % (dname, dtype, type(exc).__name__))
                return
            report('decode-raises', mode, dtype, rate, idx, {'message': str(exc)[:200]},
                   exc=type(exc).__name__, where=_panqec_where(exc))
            outcomes.add('%s|raises|%s' % (dname, type(exc).__name__))
            return
        kind, detail, c = _judge(corr, n, H, s_int, complete)
        if kind is not None and kind.startswith('info:'):
            # not demanded of the incomplete decoders by the property text: counted, not reported
            bump('zero_syndrome_nonzero_correction_incomplete_decoder')
            outcomes.add('%s|%s' % (dname, kind))
        elif kind is not None:
            report(kind, mode, dtype, rate, idx, detail)
            outcomes.add('%s|%s' % (dname, kind))
        else:
            outcomes.add('%s|ok|w%d' % (dname, gf2.weight(c, n)))

    # per-decode alarm (main thread only; otherwise decodes run unguarded)
    timer = {'on': False, 'hits': 0}
    try:
        old_handler = signal.signal(signal.SIGALRM, _on_alarm)
        timer['on'] = True
    except ValueError:
        old_handler = None

    def drive():
        for pi, params in enumerate(case['params_list']):
            cur['params'] = dict(params)
            cur['idx'] = pi
            for rate in case['rates']:
                model = make_model()
                probe = construct(model, rate, 'construct')
                res['evals'] += 1
                if probe is None:
                    outcomes.add('%s|construction-raises' % dname)
                    continue
                for dtype in case['dtypes']:
                    for mode in case['modes']:
                        dec = None
                        for idx in (todo[::-1] if mode == 'reused-desc' else todo):
                            if dec is None or mode == 'fresh':
                                dec = construct(model, rate, mode)
                                if dec is None:
                                    break
                            if one(dec, mode, dtype, rate, idx) == 'timeout':
                                dec = None          # state unknown after an interrupted decode: rebuild
                                if timer['hits'] >= MAX_TIMEOUTS_PER_CASE:
                                    bump('cases_cut_short_after_timeouts')
                                    res['capped'] = 1
                                    return

    try:
        drive()
    finally:
        if timer['on']:
            signal.setitimer(signal.ITIMER_REAL, 0)
            signal.signal(signal.SIGALRM, old_handler)

    res['nontrivial'] = sum(1 for t in executed if t[4] != 0)
    # representatives first: one per (kind, exc), then one per (kind, exc, mode), then the dtype variants --
    # each group in order of discovery (= simplest first)
    viols, taken = [], set()
    for depth in (2, 3, 4):
        seen = set()
        for fk, v in found.items():
            g = (fk[0], fk[3], fk[1], fk[2])[:depth]
            if fk in taken or g in seen:
                continue
            if depth < 4 and any(((t[0], t[3], t[1], t[2])[:depth]) == g for t in taken):
                continue
            seen.add(g)
            taken.add(fk)
            viols.append(v)
    bump('violation_keys_dropped_by_per_case_cap', max(0, len(viols) - MAX_VIOLATIONS_PER_CASE))
    res['violations'] = viols[:MAX_VIOLATIONS_PER_CASE]
    res['outcomes'] = sorted(outcomes)[:50]
    res['samples'] = [{'decoder': dname, 'config': F.cfg_label(cfg), 'n': n, 'rank': r,
                       'syndrome_set': skind, 'syndromes': len(todo), 'noise': nz,
                       'params': case['params_list'], 'rates': case['rates'], 'dtypes': case['dtypes'],
                       'modes': case['modes']}]
    bump('decoder_cases_' + dname)
    return res
