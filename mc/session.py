"""Sessions: several work items evaluated one after the other in ONE process.

Every case normally runs in a freshly forked process (runner ISOLATE), so process-level state
(class attributes, module caches, lru_caches) can only carry over *within* a case.  A session case
evaluates a sequence of ordinary items in one process, each judged by the same absolute oracle as
when evaluated alone; a violation that appears only in the session names the items handled before.
"""


def run(items, eval_one, label=lambda it: str(it)[:120]):
    total = {'evals': 0, 'nontrivial': 0, 'violations': [], 'outcomes': [], 'samples': [], 'extra': {}}
    for pos, it in enumerate(items):
        r = eval_one(it)
        for v in r.get('violations', []):
            v['key']['part'] = 'session'
            v['key']['session_position'] = pos
            v.setdefault('detail', {})['handled_before_in_this_process'] = [label(x) for x in items[:pos]][-6:]
        for k, val in r.items():
            if isinstance(val, bool):
                continue
            if isinstance(val, int):
                total[k] = total.get(k, 0) + val
            elif isinstance(val, list):
                total[k] = (total.get(k) or []) + val
            elif isinstance(val, dict):
                tgt = total.setdefault(k, {})
                for kk, vv in val.items():
                    if isinstance(vv, int):
                        tgt[kk] = tgt.get(kk, 0) + vv
    total['violations'] = total['violations'][:8]
    total['outcomes'] = total['outcomes'][:50]
    total['samples'] = [{'session': [label(x) for x in items][:8]}]
    total['extra']['sessions'] = 1
    return total


def interleave_by_size(cfgs, sizes_per_class=3):
    """Group configs by class; order each class's configs round-robin over its first few sizes and
    come back to the first config at the end (A, B, C, A-deformed, ..., A)."""
    by_cls = {}
    for c in cfgs:
        by_cls.setdefault(c['cls'], []).append(c)
    out = []
    for cls, lst in by_cls.items():
        sizes = []
        for c in lst:
            if c['size'] not in sizes:
                sizes.append(c['size'])
        sizes = sizes[:sizes_per_class]
        per = {tuple(s): [c for c in lst if c['size'] == s] for s in sizes}
        seq = []
        i = 0
        while any(per.values()):
            s = tuple(sizes[i % len(sizes)])
            if per[s]:
                seq.append(per[s].pop(0))
            i += 1
        if seq:
            seq.append(dict(seq[0]))
            out.append(seq)
    return out


def across_classes(cfgs, max_l=3, per_class=2):
    """Sequences that visit every class having a given size tuple (a few configurations each), forwards
    and then backwards, so that state remembered per size / per coordinate cannot leak between classes."""
    by_size = {}
    for c in cfgs:
        if max(c['size']) <= max_l:
            by_size.setdefault(tuple(c['size']), {}).setdefault(c['cls'], []).append(c)
    out = []
    for size, per in sorted(by_size.items()):
        if len(per) < 2:
            continue
        seq = []
        for cls in sorted(per):
            seq += per[cls][:per_class]
        out.append(seq + seq[::-1])
    return out
