"""Check runner: enumerates a check's bounded case space completely, evaluates
every case on the real panqec code (sharded over worker processes), matches
violations against /verif/known_findings.json, re-executes every unlisted
violation before printing it, and writes the evidence file.

A check module (checks/cNN.py) provides
    PROPERTY, LEVEL, RULE, ASSUMPTIONS, DESIGN_REF
    cases(tier, seed)  -> list of JSON-serialisable case dicts, simplest first
    eval_case(case)    -> dict with integer counters and 'violations'
Counters understood by the runner (all measured inside eval_case):
    evals        executions of panqec code / inputs tried
    nontrivial   distinct non-trivial sub-cases (the check states the rule)
    states, transitions, traces   (model_checking checks)
    skipped      sub-cases skipped because a listed finding invalidates them
    capped       1 if the case stopped at a cap (then nothing is 'exhaustive')
    state_ids    list of canonical-state digests (deduplicated across all cases; adds to states)
    outcomes     list of short digests of observed outcomes (vacuity guard)
    samples      list of up to 2 explored sub-cases written out
    violations   list of {'key': {...}, 'detail': {...}}; key is structural
                 and is what known findings are matched on
    extra        dict of further integer counters (summed)
"""
import argparse
import hashlib
import importlib
import io
import json
import multiprocessing as mp
import os
import subprocess
import sys
import time
import traceback

VERIF = os.path.dirname(os.path.dirname(os.path.abspath(__file__)))
EVIDENCE_DIR = os.environ.get('VERIF_EVIDENCE_DIR', os.path.join(VERIF, 'evidence'))
REPLAY_DIR = os.environ.get('VERIF_REPLAY_DIR', os.path.join(VERIF, 'replays'))
FINDINGS_FILE = os.path.join(VERIF, 'known_findings.json')
MAX_REPORTED = 8          # VIOLATION lines printed per run (all are counted)

_MODULE = None


def _load(prop):
    return importlib.import_module('checks.' + prop.lower())


def _panqec_frame(tb):
    """Innermost traceback frame that lies inside the panqec package."""
    hit = None
    for fs in traceback.extract_tb(tb):
        if '/panqec/' in fs.filename.replace('\\', '/') and '/verif/' not in fs.filename:
            hit = fs
    return hit


def _eval(args):
    idx, case = args
    t0 = time.time()
    # keep third-party chatter (MBP prints per iteration) out of the report
    old = sys.stdout
    sys.stdout = io.StringIO()
    try:
        res = _MODULE.eval_case(case)
    except Exception as exc:            # unhandled: panqec raised, or harness bug
        fs = _panqec_frame(exc.__traceback__)
        tb = traceback.format_exc()
        if fs is not None:
            res = {'evals': 1, 'violations': [{
                'key': {'kind': 'exception', 'exc': type(exc).__name__,
                        'where': '%s:%s' % (os.path.basename(fs.filename), fs.name)},
                'detail': {'message': str(exc)[:300], 'traceback': tb[-1500:]}}]}
        else:
            res = {'evals': 0, 'harness_error': tb[-3000:]}
    finally:
        sys.stdout = old
    res['idx'] = idx
    res['wall'] = time.time() - t0
    return res


def _forked(work, workers):
    """Run every work item in its own freshly forked child of this (parent) process, at most
    `workers` at a time, yielding results as they complete.  The parent never executes panqec
    code itself, so every case starts from the same process state (module-level caches, class
    attributes, lru_caches empty): a case's outcome depends on the case alone, which is what
    makes the re-execution of a violation meaningful."""
    import pickle
    import select
    import signal
    pending = list(work)[::-1]
    active = {}                      # read fd -> [pid, idx, chunks]
    try:
        while pending or active:
            while pending and len(active) < workers:
                item = pending.pop()
                r, w = os.pipe()
                sys.stdout.flush()
                pid = os.fork()
                if pid == 0:
                    status = 0
                    try:
                        os.close(r)
                        data = pickle.dumps(_eval(item))
                        view = memoryview(data)
                        while view:
                            n = os.write(w, view[:1 << 16])
                            view = view[n:]
                    except BaseException:
                        status = 1
                    finally:
                        os._exit(status)
                os.close(w)
                active[r] = [pid, item[0], []]
            ready, _, _ = select.select(list(active), [], [], 5.0)
            for r in ready:
                chunk = os.read(r, 1 << 20)
                if chunk:
                    active[r][2].append(chunk)
                    continue
                pid, idx, chunks = active.pop(r)
                os.close(r)
                os.waitpid(pid, 0)
                try:
                    res = pickle.loads(b''.join(chunks))
                except Exception:
                    res = {'idx': idx, 'evals': 0, 'wall': 0.0,
                           'harness_error': 'worker for case %d died without a result' % idx}
                yield res
    finally:
        for r, (pid, idx, chunks) in list(active.items()):
            try:
                os.kill(pid, signal.SIGKILL)
                os.waitpid(pid, 0)
                os.close(r)
            except OSError:
                pass


def _eval_isolated(item):
    for res in _forked([item], 1):
        return res


def load_findings(prop):
    if not os.path.exists(FINDINGS_FILE):
        return []
    with open(FINDINGS_FILE) as f:
        data = json.load(f)
    return [e for e in data.get('findings', []) if e.get('property') == prop]


def _matches(entry, key):
    for k, v in entry.get('match', {}).items():
        if k not in key:
            return False
        if isinstance(v, list):
            if key[k] not in v:
                return False
        elif key[k] != v:
            return False
    return True


def match_finding(findings, key):
    """Only entries with status 'open' suppress; 'fixed' entries never do."""
    for e in findings:
        if e.get('status') == 'open' and _matches(e, key):
            return e
    return None


def _canon(obj):
    return json.dumps(obj, sort_keys=True, default=str)


def _tree_info():
    info = {}
    try:
        import panqec
        info['panqec_file'] = panqec.__file__
        root = os.path.dirname(os.path.dirname(panqec.__file__))
        info['repo_head'] = subprocess.run(
            ['git', '-C', root, 'rev-parse', 'HEAD'], capture_output=True, text=True).stdout.strip()
        info['repo_dirty'] = bool(subprocess.run(
            ['git', '-C', root, 'status', '--porcelain', '--untracked-files=no'],
            capture_output=True, text=True).stdout.strip())
    except Exception as exc:           # pragma: no cover
        info['error'] = str(exc)
    return info


def run_check(prop, tier, seed, workers, budget_s=None, only=None):
    global _MODULE
    t0 = time.time()
    mod = _load(prop)
    _MODULE = mod
    cases = list(mod.cases(tier, seed))
    if only is not None:
        cases = [c for c in cases if only in _canon(c)]
    n_cases = len(cases)
    if budget_s is None:
        budget_s = getattr(mod, 'BUDGET_S', {}).get(tier, 900 if tier == 'quick' else 7200)
    order = list(range(n_cases))
    # seed only rotates which shard goes first; the set explored is unchanged
    if n_cases and getattr(mod, 'ROTATE', True):
        r = seed % n_cases
        order = order[r:] + order[:r]
    results = [None] * n_cases
    harness_errors = []
    timed_out = False
    work = [(i, cases[i]) for i in order]
    isolate = getattr(mod, 'ISOLATE', True)
    if isolate:
        # import the heavy modules once in the parent so that the per-case children inherit them
        for name in ('panqec.codes', 'panqec.decoders', 'panqec.error_models', 'panqec.simulation',
                     'panqec.analysis', 'panqec.cli', 'panqec.gui', 'panqec.config', 'scipy.optimize',
                     'pandas', 'click.testing'):
            try:
                importlib.import_module(name)
            except Exception:
                pass
    pool = None
    if isolate:
        it = _forked(work, max(1, workers))
    elif workers <= 1 or n_cases <= 1:
        it = map(_eval, work)
    else:
        ctx = mp.get_context('fork')
        pool = ctx.Pool(min(workers, n_cases))
        it = pool.imap_unordered(_eval, work, chunksize=getattr(mod, 'CHUNK', 1))
    done = 0
    try:
        for res in it:
            results[res['idx']] = res
            done += 1
            if 'harness_error' in res:
                harness_errors.append((res['idx'], res['harness_error']))
            if time.time() - t0 > budget_s and done < n_cases:
                timed_out = True
                break
    finally:
        if pool is not None:
            pool.terminate()
            pool.join()
        if isolate:
            it.close()

    if harness_errors:
        i, tb = harness_errors[0]
        print('HARNESS-ERROR property=%s case=%s' % (prop, _canon(cases[i])[:300]))
        print(tb)
        return 2

    tot = dict(evals=0, nontrivial=0, states=0, transitions=0, traces=0, skipped=0, capped=0)
    extra = {}
    outcomes = set()
    state_ids = set()
    samples = []
    viol = []           # (case_idx, violation)
    slow = []
    for i, res in enumerate(results):
        if res is None:
            continue
        for k in tot:
            tot[k] += int(res.get(k, 0))
        for k, v in res.get('extra', {}).items():
            extra[k] = extra.get(k, 0) + int(v)
        outcomes.update(res.get('outcomes', []))
        state_ids.update(res.get('state_ids', []))
        for s in res.get('samples', [])[:2]:
            samples.append(s)
        for v in res.get('violations', []):
            viol.append((i, v))
        slow.append((res['wall'], i))
    slow.sort(reverse=True)
    tot['states'] += len(state_ids)      # state_ids: canonical states, deduplicated across shards

    # ---- classify violations
    findings = load_findings(prop)
    known_hits = {}
    unknown = []
    for i, v in viol:
        e = match_finding(findings, v['key'])
        if e is not None:
            known_hits.setdefault(e['id'], [e, 0])[1] += 1
        else:
            unknown.append((i, v))
    for fid, (e, cnt) in sorted(known_hits.items()):
        print('KNOWN-FINDING: property=%s %s [%s, %d occurrence(s) this run]'
              % (prop, e['what'], fid, cnt))

    # ---- every unlisted violation is re-executed before it is printed
    reported = 0
    seen_keys = set()
    rc = 0
    os.makedirs(REPLAY_DIR, exist_ok=True)
    for i, v in unknown:
        ck = _canon(v['key'])
        if ck in seen_keys:
            continue
        seen_keys.add(ck)
        if reported >= MAX_REPORTED:
            continue
        again = _eval_isolated((i, cases[i])) if isolate else _eval((i, cases[i]))
        keys2 = {_canon(x['key']) for x in again.get('violations', [])}
        if ck not in keys2:
            print('HARNESS-NONDETERMINISM property=%s key=%s (violation did not reproduce on '
                  're-execution; not reported)' % (prop, ck))
            return 2
        art = {'property': prop, 'case': cases[i], 'key': v['key'], 'detail': v.get('detail', {}),
               'tree': _tree_info()}
        h = hashlib.sha1((_canon(cases[i]) + ck).encode()).hexdigest()[:12]
        path = os.path.join(REPLAY_DIR, '%s-%s.json' % (prop, h))
        with open(path, 'w') as f:
            json.dump(art, f, indent=1, default=str)
        print('VIOLATION property=%s replay=%s' % (prop, path))
        print('  key=%s' % ck[:400])
        d = _canon(v.get('detail', {}))
        print('  detail=%s' % d[:600])
        reported += 1
        rc = 1
    if unknown:
        rc = 1
        print('%d violation(s) with %d distinct key(s) not listed in known_findings.json'
              % (len(unknown), len(seen_keys)))

    # ---- evidence
    wall = time.time() - t0
    completed = sum(1 for r in results if r is not None)
    exhaustive = (not timed_out) and tot['capped'] == 0 and completed == n_cases \
        and getattr(mod, 'EXHAUSTIVE', {}).get(tier, True)
    if samples:
        r = seed % len(samples)
        samples = (samples[r:] + samples[:r])[:6]
    cov = {
        'evaluations': tot['evals'],
        'distinct_nontrivial': tot['nontrivial'],
        'rule': mod.RULE if isinstance(mod.RULE, str) else mod.RULE[tier],
        'samples': samples,
        'exhaustive': bool(exhaustive),
        'cases_total': n_cases,
        'cases_completed': completed,
        'distinct_outcomes': len(outcomes),
        'skipped_due_to_listed_findings': tot['skipped'],
        'caps_hit': tot['capped'] + (1 if timed_out else 0),
        'time_budget_s': budget_s,
        'time_budget_hit': timed_out,
        'known_finding_occurrences': {k: c for k, (e, c) in known_hits.items()},
        'unlisted_violation_keys': len(seen_keys),
        'slowest_cases_s': [[round(w, 2), _canon(cases[i])[:120]] for w, i in slow[:3]],
        'tree': _tree_info(),
        'bounds': getattr(mod, 'BOUNDS', {}).get(tier, {}),
    }
    cov.update(extra)
    if mod.LEVEL == 'model_checking':
        cov['states'] = tot['states']
        cov['transitions'] = tot['transitions']
        # every explored execution is an execution of the implementation itself
        cov['traces_validated_against_impl'] = tot['traces'] or tot['evals']
    ev = {
        'property_id': prop, 'tier': tier, 'seed': seed, 'level': mod.LEVEL,
        'coverage': cov, 'assumptions': list(mod.ASSUMPTIONS), 'wall_s': round(wall, 2),
        'violations': len(unknown),
    }
    evidence_dir = EVIDENCE_DIR if only is None else '/dev/shm/verif_partial_evidence'   # --only is a debugging aid
    os.makedirs(evidence_dir, exist_ok=True)
    try:
        import jsonschema
        with open('/root/.vp/EVIDENCE.schema.json') as f:
            jsonschema.validate(ev, json.load(f))
    except ImportError:
        pass
    except FileNotFoundError:
        pass
    with open(os.path.join(evidence_dir, prop + '.json'), 'w') as f:
        json.dump(ev, f, indent=1, default=str)
    print('%s tier=%s seed=%d cases=%d/%d evals=%d nontrivial=%d outcomes=%d states=%d transitions=%d '
          'known=%d unlisted=%d exhaustive=%s wall=%.1fs'
          % (prop, tier, seed, completed, n_cases, tot['evals'], tot['nontrivial'], len(outcomes),
             tot['states'], tot['transitions'], sum(c for _, c in known_hits.values()),
             len(unknown), exhaustive, wall))
    if timed_out:
        print('NOTE time budget %ds hit after %d/%d cases; not exhaustive' % (budget_s, completed, n_cases))
    if tot['evals'] == 0:
        print('HARNESS-ERROR property=%s explored nothing' % prop)
        return 2
    return rc


def replay(prop, path):
    global _MODULE
    _MODULE = _load(prop)
    with open(path) as f:
        art = json.load(f)
    res = _eval((0, art['case']))
    if 'harness_error' in res:
        print(res['harness_error'])
        return 2
    want = _canon(art['key'])
    got = [v for v in res.get('violations', []) if _canon(v['key']) == want]
    if got:
        print('VIOLATION property=%s replay=%s' % (prop, path))
        print('  key=%s' % want)
        print('  detail=%s' % _canon(got[0].get('detail', {}))[:1500])
        return 1
    print('replay: recorded violation does not occur on this tree (%d other violation(s) in this case)'
          % len(res.get('violations', [])))
    return 0


def main(argv=None):
    ap = argparse.ArgumentParser()
    ap.add_argument('prop')
    ap.add_argument('--tier', default=os.environ.get('VERIF_TIER', 'quick'), choices=['quick', 'thorough'])
    ap.add_argument('--replay')
    ap.add_argument('--workers', type=int, default=int(os.environ.get('VERIF_WORKERS', '16')))
    ap.add_argument('--budget', type=float)
    ap.add_argument('--only', help='restrict to cases whose JSON contains this substring (debugging)')
    a = ap.parse_args(argv)
    prop = a.prop.upper()
    seed = int(os.environ.get('VERIF_SEED', '0') or 0)
    import panqec
    print('panqec from %s' % panqec.__file__)
    if a.replay:
        return replay(prop, a.replay)
    return run_check(prop, a.tier, seed, a.workers, a.budget, a.only)
