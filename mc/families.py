"""Enumeration domain: the supported size family of every exported code class
(DESIGN.md §3) and the deformation configurations each class offers.

The family is fixed a priori from documentation and structure, not from where
the current code happens to work.
"""
import itertools

CLASSES_2D = ['Toric2DCode', 'Planar2DCode', 'RotatedPlanar2DCode',
              'Color666PlanarCode', 'Color488Code', 'Color666ToricCode']
CLASSES_3D = ['Toric3DCode', 'Planar3DCode', 'RotatedPlanar3DCode', 'RotatedToric3DCode',
              'RhombicToricCode', 'RhombicPlanarCode', 'HollowPlanar3DCode', 'HollowRhombicCode',
              'XCubeCode', 'Color3DCode']
CLASSES = CLASSES_2D + CLASSES_3D

# classes whose get_deformation takes a deformation_axis, with the axes it accepts
AXES = {
    'Toric2DCode': 'xy', 'Planar2DCode': 'xy', 'RotatedPlanar2DCode': 'xy',
    'Toric3DCode': 'xyz', 'Planar3DCode': 'xyz', 'RotatedPlanar3DCode': 'xyz',
    'RotatedToric3DCode': 'xyz', 'XCubeCode': 'xyz',
    'HollowPlanar3DCode': 'xyz',
}


def in_family(name, size):
    """DESIGN.md §3 table."""
    if name == 'Toric2DCode':
        return min(size) >= 2
    if name in ('Planar2DCode', 'RotatedPlanar2DCode'):
        return min(size) >= 2
    if name == 'Color666PlanarCode':
        return size[0] >= 1 and size[1] == size[0]      # L_y is ignored by the class: one rep per L_x
    if name in ('Color488Code', 'Color666ToricCode'):
        return min(size) >= 1
    if name in ('Toric3DCode', 'XCubeCode', 'Planar3DCode', 'RotatedPlanar3DCode', 'HollowPlanar3DCode'):
        return min(size) >= 2
    if name == 'RotatedToric3DCode':
        return size[0] >= 2 and size[1] >= 2 and size[2] >= 1 and not (size[0] % 2 and size[1] % 2)
    if name in ('RhombicToricCode', 'Color3DCode'):
        return min(size) >= 2 and all(s % 2 == 0 for s in size)
    if name == 'RhombicPlanarCode':
        return size[0] >= 2 and size[1] >= 2 and size[2] >= 1
    if name == 'HollowRhombicCode':
        return size[0] >= 2 and size[1] >= 2 and size[2] >= 3
    raise KeyError(name)


def get_class(name):
    import panqec.codes as C
    return getattr(C, name)


def touch(code):
    """Read every lazily cached derived datum of a code object."""
    for a in ('qubit_index', 'stabilizer_index', 'stabilizer_matrix', 'logicals_x', 'logicals_z',
              'x_indices', 'z_indices', 'is_css', 'd', 'k', 'n', 'Hx', 'Hz', 'stabilizer_types'):
        try:
            getattr(code, a)
        except ValueError:
            pass                # Hx/Hz on a non-CSS code: refusal is by design


def build(cfg):
    """cfg = {'cls': name, 'size': [..], 'deformation': None | [name, kwargs], 'pre': None | 'used'}
    pre == 'used': the object has a history before the final deform — all derived data read, deformed by
    another offered deformation (the last one offered that differs from the target), all derived data read
    again — as a long-lived object in a session would."""
    code = get_class(cfg['cls'])(*cfg['size'])
    d = cfg.get('deformation')
    if cfg.get('pre') == 'used':
        touch(code)
        others = [o for o in deformations(cfg['cls']) if o != d]
        if others:
            code.deform(others[-1][0], **others[-1][1])
            touch(code)
    if d:
        code.deform(d[0], **d[1])
    return code


_N_CACHE = {}


def n_qubits(name, size):
    key = (name, tuple(size))
    if key not in _N_CACHE:
        try:
            _N_CACHE[key] = get_class(name)(*size).n
        except Exception:
            _N_CACHE[key] = None        # constructor itself fails: left to the checks to report
    return _N_CACHE[key]


def sizes(name, max_n, l_max=None, min_count=3):
    """Family sizes with n <= max_n, simplest first (by n then lexicographic), but never
    fewer than `min_count` smallest family sizes, one of them non-cubic where the family
    has one."""
    dim = 2 if name in CLASSES_2D else 3
    if l_max is None:
        l_max = 9 if dim == 2 else 6
    allsz = [s for s in itertools.product(range(1, l_max + 1), repeat=dim) if in_family(name, s)]
    with_n = []
    for s in allsz:
        n = n_qubits(name, s)
        with_n.append((n if n is not None else 0, s))
    with_n.sort()
    out = [s for n, s in with_n if n <= max_n]
    if len(out) < min_count:
        out = [s for n, s in with_n[:min_count]]
        if all(len(set(s)) == 1 for s in out):
            nc = [s for n, s in with_n if len(set(s)) > 1]
            if nc and name != 'Color666PlanarCode':
                out[-1] = nc[0]
    return [list(s) for s in out]


def deformations(name):
    """All deformation configurations the class offers: [(name, kwargs)], axis made explicit
    where the class takes one, plus the default-axis call (empty kwargs)."""
    cls = get_class(name)
    out = []
    for dn in cls.deformation_names:
        out.append([dn, {}])
        if name in AXES and dn == 'XZZX':
            for ax in AXES[name]:
                out.append([dn, {'deformation_axis': ax}])
    return out


def configs(max_n, classes=None, l_max=None, min_count=3, deformed=True, used=False):
    out = []
    for name in (classes or CLASSES):
        for s in sizes(name, max_n, l_max, min_count):
            out.append({'cls': name, 'size': s, 'deformation': None})
            if deformed:
                for d in deformations(name):
                    out.append({'cls': name, 'size': s, 'deformation': d})
                    if used:
                        out.append({'cls': name, 'size': s, 'deformation': d, 'pre': 'used'})
    return out


# Thin extension of the DESIGN §3 table: the open-boundary classes also accept lattices with one or two
# sides of length 1 (not all), and on the reference tree every such lattice is a valid (distance-1 or
# thin) code.  Only the checks that state so (C01, C17) enumerate them.
THIN_CLASSES = ['Planar2DCode', 'RotatedPlanar2DCode', 'Planar3DCode', 'RotatedPlanar3DCode', 'HollowPlanar3DCode']


def thin_configs(max_n, l_max=3, deformed=False):
    out = []
    for name in THIN_CLASSES:
        dim = 2 if name in CLASSES_2D else 3
        for s in itertools.product(range(1, l_max + 1), repeat=dim):
            if min(s) != 1 or max(s) == 1:
                continue
            n = n_qubits(name, s)
            if n is None or n > max_n:
                continue
            out.append({'cls': name, 'size': list(s), 'deformation': None})
            if deformed:
                for d in deformations(name):
                    out.append({'cls': name, 'size': list(s), 'deformation': d})
    return out


def ignored_parameter_configs(max_n, l_max=3, deformed=False):
    """Color666PlanarCode takes (L_x, L_y) but builds the triangle of side L_x whatever L_y is: every
    L_y != L_x is accepted and is a valid code on the reference tree (same code as (L_x, L_x))."""
    out = []
    name = 'Color666PlanarCode'
    for s in itertools.product(range(1, l_max + 1), repeat=2):
        if s[0] == s[1]:
            continue
        n = n_qubits(name, s)
        if n is None or n > max_n:
            continue
        out.append({'cls': name, 'size': list(s), 'deformation': None})
        if deformed:
            for d in deformations(name):
                out.append({'cls': name, 'size': list(s), 'deformation': d})
    return out


def accepted_outside_family(l_max=3, deformed=False):
    """Size tuples outside the DESIGN §3 table (and outside the thin / ignored-parameter extensions) with all
    sides <= l_max: the constructors accept most of them although the result need not be a valid code
    (C01 does not enumerate them).  Only the structural statement C02 looks at them; a constructor that
    refuses such a size is not a violation there."""
    out = []
    for name in CLASSES:
        if name == 'Color666PlanarCode':
            continue
        dim = 2 if name in CLASSES_2D else 3
        for s in itertools.product(range(1, l_max + 1), repeat=dim):
            if in_family(name, list(s)) or (name in THIN_CLASSES and min(s) == 1 and max(s) > 1):
                continue
            out.append({'cls': name, 'size': list(s), 'deformation': None})
            if deformed:
                for d in deformations(name):
                    out.append({'cls': name, 'size': list(s), 'deformation': d})
    return out


def cfg_label(cfg):
    d = cfg.get('deformation')
    return '%s%s%s%s' % (cfg['cls'], tuple(cfg['size']), '' if not d else '+%s%s' % (d[0], d[1] or ''),
                         '[used object]' if cfg.get('pre') else '')


# Configurations that an open C01 finding marks as not-a-valid-code.  Checks that presuppose a
# valid code (C04, C05, C08, C17, ...) skip them and count them as skipped.
_D18 = {(3, 6, 6), (5, 4, 6), (5, 6, 4), (6, 4, 6), (6, 6, 4), (3, 6, 7), (3, 7, 6), (3, 7, 7), (5, 4, 7),
        (5, 7, 4), (6, 4, 7), (6, 7, 4), (7, 4, 6), (7, 4, 7), (7, 6, 4), (7, 7, 4)}


def known_invalid(cfg):
    if cfg['cls'] == 'Color666ToricCode' and cfg['size'][0] != cfg['size'][1]:
        return 'D12b'
    if cfg['cls'] == 'HollowRhombicCode' and tuple(cfg['size']) in _D18:
        return 'D18'
    return None
