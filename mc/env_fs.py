"""The file system as an environment the explorer owns (used by checks/c12.py).

LoggedFS patches, for the duration of one execution and only for paths below
one sandbox directory, the standard-library entry points through which a
Python program changes files:

    builtins.open / io.open   (write modes; gzip.open goes through builtins.open)
    os.open                   (O_CREAT / O_TRUNC: tempfile.mkstemp goes through it)
    os.replace / os.rename, os.remove / os.unlink

and records the *op log* of the execution:

    open(path, mode)  [truncation]   write(bytes)   close   create   replace   remove
    (+ non-mutating interceptable points: open-for-read, and 'mark' events that the
       harness itself emits, e.g. trial boundaries)

Two fault models are built on the log.

1. Process kill (crash images).  The execution is deterministic, therefore the
   disk content at a kill point is a function of a log prefix: `crash_images`
   replays the log on a dict {path: bytes} and yields the image for every prefix
   and every byte offset inside the interrupted write.  A kill never runs
   `finally`/`__exit__`/finalisers: the image holds exactly the bytes handed to
   write() so far (bytes written by write() are taken as durable and ordered;
   user-space buffering below write() is abstracted away, power-loss reordering
   is not modelled).  Because the handles keep the buffering the program asked
   for, the *real* content of the sandbox just before every interceptable point
   can be recorded as well (`trace_disk=True` -> `fs.disk_trace`): these are the
   crash states of this very execution with user-space buffering as it really
   was (e.g. a small text file is empty until close()).  A checker should
   restart from both families.  The replay model is append-only per handle; `LoggedFS`
   snapshots the real file at every close/replace and `check_model` verifies
   that the replay reproduces every snapshot, so an execution that uses a
   channel the model does not cover (seek, append to existing content, raw fd
   writes) is refused loudly instead of being mis-modelled.

2. Live exception injection.  `fs.inject = Injection(at, phase, offset, exc)`
   raises `exc` (KeyboardInterrupt, or HardStop for a stop that no handler in
   the program under test may catch) at the interceptable point with ordinal
   `at`:
       phase 'before'  the operation is not performed
       phase 'inside'  (write only) `offset` bytes are written, then raise
       phase 'after'   the operation is performed, then raise
   A close is only ever interrupted 'after' (a signal that arrives during the C
   level close() is delivered when it returns; the close itself is not
   skippable) and the handle of an open interrupted 'after' is dropped at once,
   as CPython would on unwinding.  Handles that are open while an exception is
   injected are *tainted*: their close is not a completed save.

`completed_saves(log, path)` lists the moments at which `path` held a complete
file: the close of an untainted write handle on it, or a replace/rename of an
untainted, closed file onto it - with the real content read at that moment.
After an injected run call `settle()` (gc.collect) before reading the disk:
leaked writers (e.g. a GzipFile whose close() was interrupted) flush late.
"""
import builtins
import gc
import io
import os

_REAL = {
    'open': builtins.open, 'io_open': io.open, 'os_open': os.open,
    'replace': os.replace, 'rename': os.rename, 'remove': os.remove, 'unlink': os.unlink,
}
real_open = _REAL['open']


class HardStop(BaseException):
    """A stop that the program under test has no handler for."""


class FSModelError(RuntimeError):
    """The execution used the file system in a way the replay model does not cover."""


class Injection:
    def __init__(self, at, phase='before', offset=0, exc=KeyboardInterrupt):
        self.at, self.phase, self.offset, self.exc = at, phase, offset, exc

    def as_dict(self):
        return {'at': self.at, 'phase': self.phase, 'offset': self.offset, 'exc': self.exc.__name__}


_FROZEN = [False]


def freeze_heap_once():
    """gc.collect() on a heap that holds numpy/scipy/pandas costs ~50 ms; it is called after every
    execution.  Moving everything that is alive *before the first execution* to the permanent
    generation (gc.freeze) makes the later collections scan only objects created since - which is
    where leaked writers live.  Called once per process, before any sandbox handle exists."""
    if not _FROZEN[0]:
        gc.collect()
        gc.freeze()
        _FROZEN[0] = True


def settle():
    """Run pending finalisers (leaked writers flush and close here)."""
    gc.collect()
    gc.collect()


class _Handle:
    """Write-mode file object under observation. Delegates to the real file object."""

    def __init__(self, fs, real, rel, mode, hid):
        self._fs, self._real, self._rel, self._mode, self._hid = fs, real, rel, mode, hid
        self._tainted = False
        self._done = False

    # -- the observed operations
    def write(self, data):
        fs = self._fs
        b = data.encode(getattr(self._real, 'encoding', None) or 'utf-8') if isinstance(data, str) \
            else bytes(data)
        n = fs._point('write', self._rel, len(b), self._hid)
        inj = fs._due(n)
        if inj is not None and inj.phase == 'before':
            fs._fire(inj)
        if inj is not None and inj.phase == 'inside':
            j = max(0, min(int(inj.offset), len(b)))
            if isinstance(data, str):
                part = b[:j].decode(getattr(self._real, 'encoding', None) or 'utf-8', errors='ignore')
            else:
                part = bytes(data)[:j]
            if j:
                self._real.write(part)
                fs.log.append({'k': 'write', 'p': self._rel, 'h': self._hid, 'n': n, 'b': b[:j],
                               'partial': True})
            fs._fire(inj)
        r = self._real.write(data)
        fs.log.append({'k': 'write', 'p': self._rel, 'h': self._hid, 'n': n, 'b': b})
        if inj is not None and inj.phase == 'after':
            fs._fire(inj)
        return r

    def writelines(self, lines):
        for line in lines:
            self.write(line)

    def close(self):
        if self._done:
            return self._real.close()
        fs = self._fs
        n = fs._point('close', self._rel, 0, self._hid)
        inj = fs._due(n)
        self._done = True
        fs._open_handles.pop(self._hid, None)
        try:
            r = self._real.close()
        finally:
            # an interrupt delivered when close() returns does not taint: the file is complete
            fs.log.append({'k': 'close', 'p': self._rel, 'h': self._hid, 'n': n,
                           'tainted': self._tainted, 'snap': fs._snapshot(self._rel)})
        if inj is not None:
            fs._fire(inj)
        return r

    def __enter__(self):
        return self

    def __exit__(self, *exc):
        self.close()

    def __iter__(self):
        return iter(self._real)

    def __getattr__(self, name):
        return getattr(self._real, name)

    def __del__(self):
        try:
            if not self._done:
                self._done = True
                fs = self._fs
                fs._open_handles.pop(self._hid, None)
                try:
                    self._real.close()
                finally:
                    fs.log.append({'k': 'finalise', 'p': self._rel, 'h': self._hid, 'n': None,
                                   'tainted': True, 'snap': None})
        except Exception:
            pass


class LoggedFS:
    WRITE_FLAGS = 'wax+'

    def __init__(self, root, trace_disk=False):
        self.root = os.path.realpath(root).rstrip(os.sep) + os.sep
        self.trace_disk = trace_disk
        self.disk_trace = []      # (ordinal, real {rel: bytes} of the sandbox just before that point)
        self.log = []
        self.points = []          # every interceptable point: (ordinal, kind, rel, nbytes)
        self.inject = None
        self.fired = None         # description of the injection that was delivered
        self._count = 0
        self._hid = 0
        self._open_handles = {}
        self._taint = {}          # rel -> content of this path stems from an interrupted writer
        self._active = False

    # ------------------------------------------------------------------ patching
    def __enter__(self):
        if builtins.open is not _REAL['open']:
            raise RuntimeError('LoggedFS does not nest')
        builtins.open = self._open
        io.open = self._open
        os.open = self._os_open
        os.replace = self._replace
        os.rename = self._rename
        os.remove = self._remove
        os.unlink = self._remove
        self._active = True
        return self

    def __exit__(self, *exc):
        builtins.open = _REAL['open']
        io.open = _REAL['io_open']
        os.open = _REAL['os_open']
        os.replace = _REAL['replace']
        os.rename = _REAL['rename']
        os.remove = _REAL['remove']
        os.unlink = _REAL['unlink']
        self._active = False
        return False

    # ------------------------------------------------------------------ helpers
    def rel(self, path):
        if isinstance(path, int):
            return None
        try:
            p = os.fspath(path)
        except TypeError:
            return None
        if isinstance(p, bytes):
            p = p.decode('utf-8', 'surrogateescape')
        p = os.path.abspath(p)
        if (p + os.sep).startswith(self.root):
            return p[len(self.root):]
        return None

    def abs(self, rel):
        return self.root + rel

    def _snapshot(self, rel):
        try:
            with _REAL['open'](self.abs(rel), 'rb') as f:
                return f.read()
        except OSError:
            return None

    def _point(self, kind, rel, nbytes=0, hid=None):
        self._count += 1
        if self.trace_disk:
            self.disk_trace.append((self._count, read_image(self.root)))
        self.points.append((self._count, kind, rel, nbytes, hid))
        return self._count

    def _due(self, n):
        inj = self.inject
        if inj is not None and self.fired is None and inj.at == n:
            return inj
        return None

    def _fire(self, inj):
        self.fired = inj.as_dict()
        for h in list(self._open_handles.values()):
            h._tainted = True
            self._taint[h._rel] = True
        raise inj.exc('injected %s point %d' % (inj.phase, inj.at))

    def mark(self, label):
        """A non-FS interceptable point emitted by the harness (e.g. a trial boundary)."""
        n = self._point('mark', label, 0)
        self.log.append({'k': 'mark', 'p': label, 'n': n})
        inj = self._due(n)
        if inj is not None:
            self._fire(inj)

    # ------------------------------------------------------------------ patched entry points
    def _open(self, file, mode='r', *args, **kwargs):
        rel = self.rel(file)
        if rel is None:
            return _REAL['open'](file, mode, *args, **kwargs)
        if not any(c in mode for c in self.WRITE_FLAGS):
            n = self._point('ropen', rel)
            self.log.append({'k': 'ropen', 'p': rel, 'n': n})
            inj = self._due(n)
            if inj is not None and inj.phase != 'after':
                self._fire(inj)
            real = _REAL['open'](file, mode, *args, **kwargs)
            if inj is not None:          # opened, then interrupted: the reader is dropped on unwinding
                real.close()
                self._fire(inj)
            return real
        n = self._point('open', rel)
        inj = self._due(n)
        if inj is not None and inj.phase == 'before':
            self._fire(inj)
        real = _REAL['open'](file, mode, *args, **kwargs)
        self._hid += 1
        hid = self._hid
        self.log.append({'k': 'open', 'p': rel, 'h': hid, 'n': n, 'mode': mode})
        if 'w' in mode or 'x' in mode:
            self._taint[rel] = False
        if inj is not None:
            # the file exists/was truncated, the handle object is dropped on unwinding
            real.close()
            self._taint[rel] = True
            self.log.append({'k': 'close', 'p': rel, 'h': hid, 'n': None, 'tainted': True,
                             'snap': self._snapshot(rel)})
            self._fire(inj)
        h = _Handle(self, real, rel, mode, hid)
        self._open_handles[hid] = h
        return h

    def _os_open(self, path, flags, mode=0o777, *, dir_fd=None):
        rel = self.rel(path) if dir_fd is None else None
        if rel is None or not (flags & (os.O_CREAT | os.O_TRUNC)):
            if dir_fd is None:
                return _REAL['os_open'](path, flags, mode)
            return _REAL['os_open'](path, flags, mode, dir_fd=dir_fd)
        n = self._point('create', rel)
        inj = self._due(n)
        if inj is not None and inj.phase == 'before':
            self._fire(inj)
        existed = os.path.exists(self.abs(rel))
        fd = _REAL['os_open'](path, flags, mode)
        if not existed or (flags & os.O_TRUNC):
            self.log.append({'k': 'create', 'p': rel, 'n': n})
            self._taint[rel] = False
        if inj is not None:
            os.close(fd)
            self._taint[rel] = True
            self._fire(inj)
        return fd

    def _move(self, which, src, dst, kwargs):
        rs, rd = self.rel(src), self.rel(dst)
        if (rs is None and rd is None) or kwargs:
            return _REAL[which](src, dst, **kwargs)
        if rs is None or rd is None:
            raise FSModelError('rename across the sandbox boundary: %r -> %r' % (src, dst))
        n = self._point('replace', rs)
        inj = self._due(n)
        if inj is not None and inj.phase == 'before':
            self._fire(inj)
        r = _REAL[which](src, dst)
        open_on_src = any(h._rel == rs for h in self._open_handles.values())
        tainted = bool(self._taint.get(rs, False)) or open_on_src
        self._taint[rd] = tainted
        self._taint.pop(rs, None)
        for h in self._open_handles.values():
            if h._rel == rs:
                h._rel = rd
        self.log.append({'k': 'replace', 'p': rs, 'dst': rd, 'n': n, 'tainted': tainted,
                         'snap': self._snapshot(rd)})
        if inj is not None:
            self._fire(inj)
        return r

    def _replace(self, src, dst, **kwargs):
        return self._move('replace', src, dst, kwargs)

    def _rename(self, src, dst, **kwargs):
        return self._move('rename', src, dst, kwargs)

    def _remove(self, path, **kwargs):
        rel = self.rel(path)
        if rel is None or kwargs:
            return _REAL['remove'](path, **kwargs)
        n = self._point('remove', rel)
        inj = self._due(n)
        if inj is not None and inj.phase == 'before':
            self._fire(inj)
        r = _REAL['remove'](path)
        self.log.append({'k': 'remove', 'p': rel, 'n': n})
        self._taint.pop(rel, None)
        if inj is not None:
            self._fire(inj)
        return r


# ---------------------------------------------------------------------- analysis of a log
def read_image(root):
    """{relative path: bytes} of every regular file below root."""
    root = os.path.realpath(root).rstrip(os.sep) + os.sep
    out = {}
    for d, _dirs, files in os.walk(root):
        for f in files:
            p = os.path.join(d, f)
            with real_open(p, 'rb') as fh:
                out[p[len(root):]] = fh.read()
    return out


def materialise(image, root):
    os.makedirs(root, exist_ok=True)
    for rel, data in image.items():
        p = os.path.join(root, rel)
        d = os.path.dirname(p)
        if d and not os.path.isdir(d):
            os.makedirs(d)
        with real_open(p, 'wb') as f:
            f.write(data)


def _apply(fs, ev):
    """Replay one mutating event on the model {rel: bytes}."""
    k = ev['k']
    if k == 'open':
        m = ev['mode']
        if 'w' in m or 'x' in m:
            fs[ev['p']] = b''
        else:
            fs.setdefault(ev['p'], b'')
    elif k == 'create':
        fs[ev['p']] = b''
    elif k == 'write':
        fs[ev['p']] = fs.get(ev['p'], b'') + ev['b']
    elif k == 'replace':
        if ev['p'] in fs:
            fs[ev['dst']] = fs.pop(ev['p'])
    elif k == 'remove':
        fs.pop(ev['p'], None)


def check_model(log, initial=None):
    """The replay model must reproduce every real snapshot taken at close/replace."""
    fs = dict(initial or {})
    handle_path = {}
    for i, ev in enumerate(log):
        if ev['k'] == 'open':
            if not ('w' in ev['mode'] or 'x' in ev['mode']):
                raise FSModelError('write handle opened with mode %r (not modelled)' % ev['mode'])
            handle_path[ev['h']] = ev['p']
        if ev['k'] == 'write':
            ev = dict(ev, p=handle_path.get(ev['h'], ev['p']))
        buffered = False
        if ev['k'] == 'replace':
            for h, p in list(handle_path.items()):
                if p == ev['p']:
                    handle_path[h] = ev['dst']
                    buffered = True       # a writer is still open on the moved file: the real file may
                    #                       lag behind the model by what sits in its user-space buffer
        if ev['k'] in ('close', 'finalise'):
            handle_path.pop(ev['h'], None)
        _apply(fs, ev)
        if ev['k'] in ('close', 'replace') and ev.get('snap') is not None and not buffered:
            path = ev['dst'] if ev['k'] == 'replace' else ev['p']
            if fs.get(path) != ev['snap']:
                raise FSModelError('replay model differs from the real file at log index %d (%s %s): '
                                   'model %r bytes, disk %d bytes'
                                   % (i, ev['k'], path, None if path not in fs else len(fs[path]),
                                      len(ev['snap'])))
    return fs


def completed_saves(log, path):
    """[(log index, content)] - moments at which `path` held a completely written file."""
    out = []
    for i, ev in enumerate(log):
        if ev['k'] == 'close' and ev['p'] == path and not ev['tainted'] and ev.get('snap') is not None:
            out.append((i, ev['snap']))
        elif ev['k'] == 'replace' and ev['dst'] == path and not ev['tainted'] \
                and ev.get('snap') is not None:
            out.append((i, ev['snap']))
    return out


def sessions(log):
    """Write sessions: {handle id: {'path', 'content', 'writes': [(log index, start offset, length)]}}."""
    out = {}
    for i, ev in enumerate(log):
        if ev['k'] == 'open':
            out[ev['h']] = {'path': ev['p'], 'content': b'', 'writes': [], 'open': i, 'close': None}
        elif ev['k'] == 'write' and ev['h'] in out:
            s = out[ev['h']]
            s['writes'].append((i, len(s['content']), len(ev['b'])))
            s['content'] += ev['b']
        elif ev['k'] in ('close', 'finalise') and ev['h'] in out:
            out[ev['h']]['close'] = i
    return out


def json_boundaries(text, depth, after=True):
    """Byte offsets of the structural characters { } [ ] , : of a JSON text at nesting depth <= depth
    (offset of the character and, with after=True, also the offset just behind it)."""
    out = set()
    d = 0
    in_str = False
    esc = False
    for i, c in enumerate(text):
        if in_str:
            if esc:
                esc = False
            elif c == '\\':
                esc = True
            elif c == '"':
                in_str = False
            continue
        if c == '"':
            in_str = True
        elif c in '{[':
            if d <= depth:
                out.update((i, i + 1) if after else (i,))
            d += 1
        elif c in '}]':
            d -= 1
            if d <= depth:
                out.update((i, i + 1) if after else (i,))
        elif c in ',:':
            if d <= depth:
                out.update((i, i + 1) if after else (i,))
    return out


def offset_classes(session, json_depth=2):
    """Representative byte offsets inside one write session (the 'quick' offset classes):
    0, 1, len-1, len, every write-call boundary of a binary stream (gzip header fields, deflate
    stream, CRC, size), the middle of every binary write longer than 16 bytes, and for a JSON text
    the offset of every structural token down to nesting depth `json_depth` (both sides of it down
    to depth 1)."""
    content = session['content']
    n = len(content)
    cls = {0, 1, n - 1, n}
    text = None
    try:
        text = content.decode('ascii')
    except UnicodeDecodeError:
        pass
    if text is not None and text[:1] in '[{':
        cls |= json_boundaries(text, json_depth, after=False) | json_boundaries(text, 1, after=True)
    else:
        for _i, start, ln in session['writes']:
            cls.update((start, start + ln))
            if ln > 16:
                cls.update((start + 1, start + ln // 2, start + ln - 1))
    return {c for c in cls if 0 <= c <= n}


def crash_images(log, initial=None, classes=None):
    """Yield (i, j, image) for every log prefix i (state before event i is applied) and, for a write
    event, every byte offset j inside it (state with j bytes of it written); finally (len(log), 0, image).
    `classes`: None = every offset, else {handle id: set of session offsets to keep}."""
    fs = dict(initial or {})
    sess_off = {}
    handle_path = {}
    for i, ev in enumerate(log):
        k = ev['k']
        if k == 'write':
            path = handle_path.get(ev['h'], ev['p'])
            base = fs.get(path, b'')
            start = sess_off.get(ev['h'], 0)
            b = ev['b']
            keep = None if classes is None else classes.get(ev['h'])
            for j in range(len(b)):
                if keep is not None and (start + j) not in keep:
                    continue
                im = dict(fs)
                im[path] = base + b[:j]
                yield i, j, im
            fs[path] = base + b
            sess_off[ev['h']] = start + len(b)
            continue
        if k in ('open', 'create', 'replace', 'remove', 'close'):
            yield i, 0, dict(fs)
        if k == 'open':
            handle_path[ev['h']] = ev['p']
            sess_off[ev['h']] = 0
        if k == 'replace':
            for h, p in list(handle_path.items()):
                if p == ev['p']:
                    handle_path[h] = ev['dst']
        _apply(fs, ev)
    yield len(log), 0, dict(fs)


def interrupt_points(log, classes=None, inside='classes'):
    """Injection points derived from the log of a failure-free execution.
    Returns [(ordinal, phase, offset, kind)].
      open/create/replace/remove/ropen: 'before' and 'after';  close: 'after';  mark: 'before';
      write: 'before', and 'inside' at offsets chosen by `inside`:
         'all'      every byte offset 1..len-1
         'mid'      len//2 (writes of at least 2 bytes)
         'classes'  the session offsets in `classes` that fall strictly inside the write
    With `classes` given, a write is only used 'before' if its start offset is in its class set."""
    sess_off = {}
    pts = []
    for ev in log:
        k, n = ev['k'], ev.get('n')
        if n is None:
            continue
        if k in ('open', 'create', 'replace', 'remove'):
            pts.append((n, 'before', 0, k))
            pts.append((n, 'after', 0, k))
            if k == 'open':
                sess_off[ev['h']] = 0
        elif k == 'close':
            pts.append((n, 'after', 0, k))
        elif k == 'ropen':
            pts.append((n, 'before', 0, k))
            pts.append((n, 'after', 0, k))
        elif k == 'mark':
            pts.append((n, 'before', 0, k))
        elif k == 'write':
            start = sess_off.get(ev['h'], 0)
            ln = len(ev['b'])
            keep = None if classes is None else classes.get(ev['h'], set())
            if keep is None or start in keep:
                pts.append((n, 'before', 0, k))
            if inside == 'all':
                offs = range(1, ln)
            elif inside == 'mid':
                offs = [ln // 2] if ln >= 2 else []
            else:
                offs = sorted(c - start for c in (keep or ()) if start < c < start + ln)
            for j in offs:
                pts.append((n, 'inside', j, k))
            sess_off[ev['h']] = start + ln
    return pts
