"""The random number generator as an environment the explorer owns.

ScriptedRNG answers `random()` from a prescribed list of variates (one per call)
and records how many were consumed; any other Generator method that panqec
might call is refused loudly, so an unexpected draw cannot pass silently.
ChoiceRNG answers `choice(options)` from a prescribed list of indices (default
answer 0 when the script is exhausted) and records every choice point, which is
what lets an explorer enumerate all tie-break answers.
"""


class ScriptExhausted(Exception):
    pass


class ScriptedRNG:
    def __init__(self, variates):
        self.variates = list(variates)
        self.pos = 0
        self.other_calls = []

    def random(self, *args, **kwargs):
        if args or kwargs:
            self.other_calls.append(('random', args, kwargs))
        if self.pos >= len(self.variates):
            self.pos += 1
            raise ScriptExhausted('more than %d variates drawn' % len(self.variates))
        v = self.variates[self.pos]
        self.pos += 1
        return v

    def __getattr__(self, name):
        if name.startswith('__'):
            raise AttributeError(name)

        def refuse(*a, **k):
            self.other_calls.append((name, a, k))
            raise ScriptExhausted('unexpected rng.%s call' % name)
        return refuse


class ChoiceRNG:
    """choice(seq[, size]) -> seq[script[i]] for the i-th call (0 beyond the script)."""

    def __init__(self, script=()):
        self.script = list(script)
        self.points = []          # number of options at each choice point

    def choice(self, options, size=None, **kw):
        options = list(options)
        i = len(self.points)
        self.points.append(len(options))
        a = self.script[i] if i < len(self.script) else 0
        if not 0 <= a < len(options):
            raise ValueError('scripted choice %d out of range %d' % (a, len(options)))
        v = options[a]
        if size is not None:
            import numpy as np
            return np.array([v])
        return v


def class_intervals(probs):
    """probs = (p_I, p_X, p_Y, p_Z) for one qubit -> list of (lo, hi) cumulative
    intervals in the stated order I, X, Y, Z (the *reference* stacking; a check
    that must not fix the stacking order uses measure probes instead)."""
    out, cum = [], 0.0
    for p in probs:
        out.append((cum, cum + p))
        cum += p
    return out


def variate_for(probs, cls):
    """A variate strictly inside the interval of class index cls (0..3), or None if
    the class has probability zero."""
    lo, hi = class_intervals(probs)[cls]
    if hi <= lo:
        return None
    return lo + (hi - lo) / 2.0
