"""Reference GF(2) / symplectic algebra on Python integers.

Trusted base of the oracles.  Imports nothing from panqec.  A row vector of
length m is a Python int whose bit i is column i.  A Pauli operator on n
qubits in binary symplectic form (x | z) is an int of 2n bits: bits 0..n-1
are the X block, bits n..2n-1 the Z block.  X=(1,0) Z=(0,1) Y=(1,1).
numpy is used only to unpack arrays handed over by the code under test.
"""
import numpy as np

PAULIS = 'IXYZ'


def popcount(v):
    return bin(v).count('1')


def parity(v):
    return bin(v).count('1') & 1


# ------------------------------------------------------------- conversions
def vec_to_int(v):
    """1-D array-like of 0/1 -> int (bit i = entry i).  Entries must be 0/1."""
    a = np.asarray(v).ravel()
    out = 0
    for i in np.flatnonzero(a):
        if int(a[i]) != 1:
            raise ValueError('non-binary entry %r at %d' % (a[i], i))
        out |= 1 << int(i)
    return out


def int_to_vec(v, m):
    return [(v >> i) & 1 for i in range(m)]


def matrix_rows(M):
    """2-D ndarray or scipy sparse matrix -> list of ints (one per row).
    Raises ValueError when an entry is not 0/1."""
    if hasattr(M, 'tocsr'):
        M = M.tocsr()
        M.sum_duplicates()
        rows = []
        for i in range(M.shape[0]):
            lo, hi = M.indptr[i], M.indptr[i + 1]
            r = 0
            for c, d in zip(M.indices[lo:hi], M.data[lo:hi]):
                d = int(d)
                if d == 0:
                    continue
                if d != 1:
                    raise ValueError('non-binary entry %r' % d)
                r |= 1 << int(c)
            rows.append(r)
        return rows
    A = np.asarray(M)
    if A.ndim == 1:
        A = A.reshape(1, -1)
    return [vec_to_int(A[i]) for i in range(A.shape[0])]


def pauli_string_to_int(s):
    n = len(s)
    v = 0
    for i, ch in enumerate(s):
        if ch in 'XY':
            v |= 1 << i
        if ch in 'YZ':
            v |= 1 << (n + i)
    return v


def int_to_pauli_string(v, n):
    out = []
    for i in range(n):
        x = (v >> i) & 1
        z = (v >> (n + i)) & 1
        out.append('IXZY'[x + 2 * z])
    return ''.join(out)


def op_dict_to_int(op, index, n):
    """{coordinate: 'X'|'Y'|'Z'} -> int, by the definition."""
    v = 0
    for loc, p in op.items():
        i = index[loc]
        if p == 'X':
            v ^= 1 << i
        elif p == 'Z':
            v ^= 1 << (n + i)
        elif p == 'Y':
            v ^= (1 << i) | (1 << (n + i))
        else:
            raise ValueError('bad pauli %r' % (p,))
    return v


def weight(v, n):
    mask = (1 << n) - 1
    return popcount((v & mask) | (v >> n))


# ------------------------------------------------------------- symplectic
def symp(a, b, n):
    """Symplectic form x_a.z_b + z_a.x_b (mod 2)."""
    mask = (1 << n) - 1
    return parity(((a & mask) & (b >> n)) ^ ((a >> n) & (b & mask)))


def syndrome(H, e, n):
    """int whose bit i is symp(H[i], e)."""
    mask = (1 << n) - 1
    sw = ((e & mask) << n) | (e >> n)      # swap halves: then plain dot
    s = 0
    for i, h in enumerate(H):
        if bin(h & sw).count('1') & 1:
            s |= 1 << i
    return s


def dot_syndrome(H, x):
    """Plain GF(2) product H x (rows as ints) -> int."""
    s = 0
    for i, h in enumerate(H):
        if bin(h & x).count('1') & 1:
            s |= 1 << i
    return s


# ------------------------------------------------------------- elimination
class Basis:
    """Incremental reduced row-echelon basis; pivot = lowest set bit."""

    def __init__(self, rows=()):
        self.piv = {}          # pivot bit -> reduced row
        for r in rows:
            self.add(r)

    def reduce(self, v):
        while v:
            p = v & -v
            r = self.piv.get(p)
            if r is None:
                return v
            v ^= r
        return 0

    def add(self, v):
        v = self.reduce(v)
        if v:
            self.piv[v & -v] = v
            return True
        return False

    def contains(self, v):
        return self.reduce(v) == 0

    @property
    def rank(self):
        return len(self.piv)


def rank(rows):
    return Basis(rows).rank


def in_span(rows, v):
    return Basis(rows).contains(v)


def span(rows):
    """All elements of the row space of independent-or-not rows (<= 2^20)."""
    b = list(Basis(rows).piv.values())
    if len(b) > 20:
        raise ValueError('span too large')
    out = [0]
    for r in b:
        out += [v ^ r for v in out]
    return out


def kernel(H, m):
    """Basis of {x in GF(2)^m : H x = 0} for rows H (ints of m bits)."""
    # eliminate on the transpose: track combos
    cols = []
    for j in range(m):
        c = 0
        for i, h in enumerate(H):
            if (h >> j) & 1:
                c |= 1 << i
        cols.append(c)
    # find dependencies among columns: column j with tag 1<<j
    piv = {}
    ker = []
    for j, c in enumerate(cols):
        tag = 1 << j
        while c:
            p = c & -c
            if p in piv:
                pc, pt = piv[p]
                c ^= pc
                tag ^= pt
            else:
                piv[p] = (c, tag)
                break
        if c == 0:
            ker.append(tag)
    return ker


def selftest():
    n = 2
    X0, Z0, Y0 = pauli_string_to_int('XI'), pauli_string_to_int('ZI'), pauli_string_to_int('YI')
    assert (X0, Z0, Y0) == (1, 4, 5)
    assert symp(X0, Z0, n) == 1 and symp(X0, X0, n) == 0 and symp(X0, Y0, n) == 1
    assert symp(pauli_string_to_int('XX'), pauli_string_to_int('ZZ'), n) == 0
    assert int_to_pauli_string(pauli_string_to_int('IXYZ'), 4) == 'IXYZ'
    assert weight(pauli_string_to_int('IXYZ'), 4) == 3
    assert rank([0b011, 0b110, 0b101]) == 2
    assert in_span([0b011, 0b110], 0b101) and not in_span([0b011, 0b110], 0b001)
    assert sorted(span([0b011, 0b110])) == [0, 0b011, 0b101, 0b110]
    H = [pauli_string_to_int('XX'), pauli_string_to_int('ZZ')]
    assert syndrome(H, pauli_string_to_int('ZI'), 2) == 0b01
    assert syndrome(H, pauli_string_to_int('YI'), 2) == 0b11
    k = kernel([0b011, 0b110], 3)
    assert k == [0b111]
    assert dot_syndrome([0b011, 0b110], 0b111) == 0
    assert matrix_rows(np.array([[1, 0, 1], [0, 1, 1]])) == [0b101, 0b110]
    return True


if __name__ == '__main__':
    print('gf2 selftest', selftest())
